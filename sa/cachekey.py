"""Generic rule: results depend on the arguments only.

A value stored by a function into a module-level container, or by a method into a container
held by the instance (``self.X = {}``), is a cache shared between calls; its key must depend on
every parameter the stored value depends on, and at the granularity the value uses it: a key
that contains only ``p.attr`` while the value is computed from ``p`` itself (or from another
attribute of ``p``) identifies different arguments with each other.  Otherwise a later call with
different arguments receives a stale entry and the result depends on call order.  A cache whose
key covers all dependencies is accepted (silent).
"""
import ast

from .program import dotted, norm
from .calls import params_of

_CONTAINER_CALLS = ('dict', 'OrderedDict', 'defaultdict', 'list', 'set', 'WeakValueDictionary', 'weakref.WeakValueDictionary',
                    'collections.OrderedDict', 'collections.defaultdict')


def _is_container(v):
    return isinstance(v, (ast.Dict, ast.List, ast.Set)) or (isinstance(v, ast.Call) and dotted(v.func) in _CONTAINER_CALLS)


def _value_edges(fn):
    """local name -> list of expressions it is (flow-insensitively) computed from."""
    edges = {}

    def add(t, v):
        if isinstance(t, (ast.Tuple, ast.List)):
            for e in t.elts:
                add(e, v)
            return
        base = t
        while isinstance(base, (ast.Subscript, ast.Attribute)):
            base = base.value
        if isinstance(base, ast.Name):
            edges.setdefault(base.id, []).append(v)
            if isinstance(t, ast.Subscript):
                edges[base.id].append(t.slice)
    for st in ast.walk(fn):
        if isinstance(st, ast.Assign):
            for t in st.targets:
                add(t, st.value)
        elif isinstance(st, ast.AugAssign):
            add(st.target, st.value)
        elif isinstance(st, ast.For):
            add(st.target, st.iter)
        elif isinstance(st, ast.With):
            for it in st.items:
                if it.optional_vars is not None:
                    add(it.optional_vars, it.context_expr)
    return edges


def _uses(expr, params, edges):
    """Set of (param, attribute or None): how the expression depends on the parameters, following locals."""
    out, seen = set(), set()

    def visit(e):
        attr_of = {}
        for n in ast.walk(e):
            if isinstance(n, ast.Attribute) and isinstance(n.value, ast.Name):
                attr_of[id(n.value)] = n.attr
        for n in ast.walk(e):
            if isinstance(n, ast.Name):
                if n.id in params:
                    out.add((n.id, attr_of.get(id(n))))
                elif n.id in edges and n.id not in seen:
                    seen.add(n.id)
                    for v in edges[n.id]:
                        visit(v)
    visit(expr)
    return out


def _looks_up(fn, cont):
    """The function also reads the container it stores into (lookup before compute): the memo idiom."""
    txt = norm(cont)
    for n in ast.walk(fn):
        if isinstance(n, ast.Subscript) and isinstance(n.ctx, ast.Load) and norm(n.value) == txt:
            return True
        if isinstance(n, ast.Compare) and any(isinstance(o, (ast.In, ast.NotIn)) for o in n.ops) and any(norm(c) == txt for c in n.comparators):
            return True
        if isinstance(n, ast.Call) and isinstance(n.func, ast.Attribute) and n.func.attr in ('get', 'setdefault') and norm(n.func.value) == txt:
            return True
    return False


def _skip_guard(fn, cont_txt):
    """(test, expression the looked-up entry is compared with or None, statements skipped) when the function has a statement
    `if <lookup of cont_txt ...>: return` whose test reads the container; else None"""
    def reads_cont(e):
        for n in ast.walk(e):
            if isinstance(n, ast.Subscript) and norm(n.value) == cont_txt:
                return n
            if isinstance(n, ast.Call) and isinstance(n.func, ast.Attribute) and n.func.attr == 'get' and norm(n.func.value) == cont_txt:
                return n
            if isinstance(n, ast.Compare) and any(isinstance(o, ast.In) for o in n.ops) and any(norm(c) == cont_txt for c in n.comparators):
                return n
        return None
    for owner in ast.walk(fn):
        for f in ('body', 'orelse'):
            blk = getattr(owner, f, None)
            if not isinstance(blk, list):
                continue
            for i, s_ in enumerate(blk):
                if not (isinstance(s_, ast.If) and s_.body and isinstance(s_.body[-1], ast.Return) and not s_.orelse):
                    continue
                look = reads_cont(s_.test)
                if look is None:
                    continue
                other = None
                for c in ast.walk(s_.test):
                    if isinstance(c, ast.Compare) and len(c.ops) == 1 and isinstance(c.ops[0], ast.Eq):
                        if c.left is look:
                            other = c.comparators[0]
                        elif c.comparators[0] is look:
                            other = c.left
                rest = blk[i + 1:]
                if rest:
                    return s_.test, other, rest
    return None


def _judge(run, rule, mi, name, fn, target, value, st, cont_txt, kind, edges, params, memo=True):
    run.subject(rule)
    ku = _uses(target.slice, params, edges)
    vu = _uses(value, params, edges)
    kd, vd = {p for p, a in ku}, {p for p, a in vu}
    # "already done" memos: `if cont.get(key) == fresh: return` skips the rest of the function.  The entry is compared with the fresh
    # value, so what the value depends on is covered by the comparison; what must be in the key is everything the *skipped effect*
    # (the statements after the test) depends on -- e.g. the directory a file is written to.
    skip = _skip_guard(fn, cont_txt)
    if skip is not None:
        test, cmp_other, rest = skip
        covered = kd | ({p for p, a in _uses(cmp_other, params, edges)} if cmp_other is not None else set())
        eff = set()
        for r_ in rest:
            if r_ is st:
                continue
            eff |= {p for p, a in _uses(r_, params, edges)}
        miss = sorted(eff - covered)
        if miss:
            run.fail(rule, '%s|%s|skip-memo-key:%s' % (mi.name, name, cont_txt), mi.relpath, test.lineno,
                     "%s returns early when the %s container %s already holds the entry for key '%s' (%s), skipping the rest of its work, but "
                     "that work also depends on the argument(s) %s, which are neither in the key nor compared: a call that differs only in %s "
                     "is taken for a repetition and its effect never happens"
                     % (name, kind, cont_txt, norm(target.slice), norm(test)[:60], miss, miss[0]))
        else:
            run.ok(rule, '%s skip-memo %s' % (name, cont_txt), "key and compared value cover %s" % sorted(eff))
        return
    missing = sorted(vd - kd)
    if missing:
        run.fail(rule, '%s|%s|cache-key:%s' % (mi.name, name, cont_txt), mi.relpath, st.lineno,
                 "%s stores %s in the %s container %s under the key '%s', but the stored value also depends on the "
                 "argument(s) %s: a later call that differs only in %s gets the stale entry, so the result depends on what was "
                 "computed before" % (name, norm(value)[:40], kind, cont_txt, norm(target.slice), missing, missing[0]))
        return
    coarse = []
    for p in sorted(kd & vd) if memo else ():
        if (p, None) in ku:
            continue
        kattrs = {a for q, a in ku if q == p}
        vattrs = {a for q, a in vu if q == p}
        if None in vattrs or not vattrs <= kattrs:
            coarse.append((p, sorted(kattrs), sorted(a or '<whole object>' for a in vattrs - kattrs)))
    if coarse:
        p, ka, va = coarse[0]
        run.fail(rule, '%s|%s|cache-key-coarse:%s' % (mi.name, name, cont_txt), mi.relpath, st.lineno,
                 "%s stores %s in the %s container %s under a key that contains only %s of the argument '%s', while the stored value is "
                 "computed from %s: two arguments that agree on %s share one entry, so the result depends on which was asked for first"
                 % (name, norm(value)[:40], kind, cont_txt, ['%s.%s' % (p, a) for a in ka], p, va, ka))
        return
    run.ok(rule, '%s cache %s' % (name, cont_txt), "key '%s' covers %s" % (norm(target.slice), sorted(vd)))


def _self_fields(expr, methods, depth=3, seen=None):
    """self.<field> names read by expr, following calls of methods of the same class"""
    seen = seen if seen is not None else set()
    out = set()
    for n in ast.walk(expr):
        if isinstance(n, ast.Attribute) and isinstance(n.value, ast.Name) and n.value.id == 'self':
            if n.attr in methods:
                if depth > 0 and n.attr not in seen:
                    seen.add(n.attr)
                    out |= _self_fields(methods[n.attr], methods, depth - 1, seen)
            else:
                out.add(n.attr)
    return out


def _class_level(run, rule, mi, cname, cnode):
    """A container defined in the class body is shared by all instances: a memo kept there must be keyed by the instance configuration
    (self.<fields>) its values are computed from, not only by the call arguments."""
    shared = {t.id for st in cnode.body if isinstance(st, ast.Assign) and _is_container(st.value) for t in st.targets if isinstance(t, ast.Name)}
    if not shared:
        return
    methods = {f.name: f for f in cnode.body if isinstance(f, ast.FunctionDef)}
    own = set()
    for f in methods.values():
        for st in ast.walk(f):
            if isinstance(st, ast.Assign) and _is_container(st.value):
                for t in st.targets:
                    if isinstance(t, ast.Attribute) and isinstance(t.value, ast.Name) and t.value.id == 'self':
                        own.add(t.attr)      # re-created per instance: not shared
    for name, fn in methods.items():
        edges = None
        for st in ast.walk(fn):
            if not (isinstance(st, ast.Assign) and isinstance(st.targets[0], ast.Subscript)):
                continue
            b = st.targets[0].value
            if not (isinstance(b, ast.Attribute) and isinstance(b.value, ast.Name) and b.value.id in ('self', 'cls', cname) and b.attr in shared - own):
                continue
            if not _looks_up(fn, b):
                continue
            if edges is None:
                edges = _value_edges(fn)
            run.subject(rule)
            # fields the value depends on / fields present in the key (through locals)
            def expand(e):
                out, work, seenn = [e], [e], set()
                while work:
                    x = work.pop()
                    for n in ast.walk(x):
                        if isinstance(n, ast.Name) and n.id in edges and n.id not in seenn:
                            seenn.add(n.id)
                            for v in edges[n.id]:
                                out.append(v)
                                work.append(v)
                return out
            vf = set().union(*[_self_fields(x, methods) for x in expand(st.value)]) - {b.attr}
            kf = set().union(*[_self_fields(x, {}) for x in expand(st.targets[0].slice)])
            missing = sorted(f for f in vf - kf if f.startswith('_') or True)
            if missing:
                run.fail(rule, '%s|%s.%s|shared-cache-key:%s' % (mi.name, cname, name, b.attr), mi.relpath, st.lineno,
                         "%s.%s memoises %s in the class-level container %s, which all instances share, under the key '%s'; the value also depends on the "
                         "instance configuration %s: an instance configured differently (or the same one after that configuration changed) is served the "
                         "entry computed for another" % (cname, name, norm(st.value)[:40], b.attr, norm(st.targets[0].slice), ['self.' + f for f in missing]))
            else:
                run.ok(rule, '%s.%s shared cache %s' % (cname, name, b.attr), 'key covers the instance fields the value reads')


def local_memos(run, rule, mi, name, fn):
    """A dictionary created in the function and used as a memo inside a loop: its key must contain every loop-varying operand of the value."""
    n = 0
    local = {st.targets[0].id for st in ast.walk(fn) if isinstance(st, ast.Assign) and len(st.targets) == 1 and isinstance(st.targets[0], ast.Name)
             and _is_container(st.value)}
    if not local:
        return 0
    edges = _value_edges(fn)
    for lp in [l for l in ast.walk(fn) if isinstance(l, ast.For)]:
        lvars = {x.id for x in ast.walk(lp.target) if isinstance(x, ast.Name)}
        for st in ast.walk(lp):
            if not (isinstance(st, ast.Assign) and isinstance(st.targets[0], ast.Subscript) and isinstance(st.targets[0].value, ast.Name)
                    and st.targets[0].value.id in local):
                continue
            cont = st.targets[0].value
            if not _looks_up(lp, cont):
                continue
            # the innermost loop only (outer loops see the same store again)
            inner = [l for l in ast.walk(lp) if isinstance(l, ast.For) and l is not lp and any(x is st for x in ast.walk(l))]
            if inner:
                continue

            def varying(e):
                out, work, seen = set(), [e], set()
                while work:
                    x = work.pop()
                    for n_ in ast.walk(x):
                        if isinstance(n_, ast.Subscript) and any(isinstance(y, ast.Name) and y.id in lvars for y in ast.walk(n_.slice)):
                            out.add(norm(n_))
                        elif isinstance(n_, ast.Name) and n_.id in edges and n_.id not in seen and n_.id not in lvars and n_.id != cont.id:
                            seen.add(n_.id)
                            # only locals defined inside the loop vary with it
                            for v in edges[n_.id]:
                                if any(v is z for z in ast.walk(lp)):
                                    work.append(v)
                return out
            kv, vv = varying(st.targets[0].slice), varying(st.value)
            n += 1
            run.subject(rule)
            missing = sorted(vv - kv)
            if missing:
                run.fail(rule, '%s|%s|local-memo-key:%s' % (mi.name, name, cont.id), mi.relpath, st.lineno,
                         "%s memoises %s in '%s' under the key '%s' inside the loop over %s, but the value also depends on %s, which changes from one "
                         "iteration to the next: points that agree on the key but differ in %s get the first point's result"
                         % (name, norm(st.value)[:40], cont.id, norm(st.targets[0].slice), sorted(lvars), missing, missing[0]))
            else:
                run.ok(rule, '%s local memo %s' % (name, cont.id), "key covers the loop-varying operands %s" % sorted(vv))
    return n


def _array_evidence(fn, p):
    """the parameter is used as an ndarray whose *contents* matter: reductions, indexing, matrix products"""
    for n in ast.walk(fn):
        if isinstance(n, ast.Call) and (dotted(n.func) or '').startswith(('np.', 'numpy.')) and any(isinstance(a, ast.Name) and a.id == p for a in n.args):
            return True
        if isinstance(n, ast.Subscript) and isinstance(n.value, ast.Name) and n.value.id == p:
            return True
        if isinstance(n, ast.BinOp) and isinstance(n.op, ast.MatMult) and any(isinstance(x, ast.Name) and x.id == p for x in (n.left, n.right)):
            return True
        if isinstance(n, ast.Attribute) and isinstance(n.value, ast.Name) and n.value.id == p and n.attr in ('shape', 'T', 'sum', 'dot', 'size'):
            return True
    return False


def _preorder(fn):
    pos = {}
    k = [0]

    def go(n):
        pos[id(n)] = k[0]
        k[0] += 1
        for c in ast.iter_child_nodes(n):
            go(c)
    go(fn)
    return pos


def _is_memo_decorator(d):
    t = dotted(d.func if isinstance(d, ast.Call) else d) or ''
    return t.split('.')[-1] in ('lru_cache', 'cache')


def memoised_file_readers(run, rule, mi):
    """A function memoised with functools.lru_cache / cache whose body opens a file caches the *content of the file*.  Every function of
    the module that writes files has to leave that memo empty of pre-write content: a cache_clear() after its last write, or one before
    it with no call of the memoised reader in between (which would put the old content straight back)."""
    readers = {n: f for n, f in dict.items(mi.functions) if any(_is_memo_decorator(d) for d in f.decorator_list)
               and any(isinstance(c, ast.Call) and dotted(c.func) == 'open' for c in ast.walk(f))}
    n = 0
    if not readers:
        return 0
    fns = [(fname, f) for fname, f in dict.items(mi.functions)] + \
          [('%s.%s' % (cn, m.name), m) for cn, c in mi.classes.items() for m in c.body if isinstance(m, ast.FunctionDef)]
    for fname, f in fns:
        if fname in readers:
            continue
        writes = []
        for c in ast.walk(f):
            if isinstance(c, ast.Call) and dotted(c.func) == 'open':
                mode = c.args[1] if len(c.args) > 1 else next((k.value for k in c.keywords if k.arg == 'mode'), None)
                if isinstance(mode, ast.Constant) and isinstance(mode.value, str) and mode.value[:1] in ('w', 'a', 'x'):
                    writes.append(c)
        if not writes:
            continue
        pos = _preorder(f)
        last_write = max(pos[id(w)] for w in writes)
        for rname in readers:
            n += 1
            run.subject(rule)
            clears = [pos[id(c)] for c in ast.walk(f) if isinstance(c, ast.Call) and dotted(c.func) == rname + '.cache_clear']
            reads = [pos[id(c)] for c in ast.walk(f) if isinstance(c, ast.Call) and dotted(c.func) == rname]
            if any(c > last_write for c in clears):
                run.ok(rule, '%s invalidates %s after writing' % (fname, rname), 'cache_clear() after the last write', sample=False)
            elif clears and not any(r > min(clears) for r in reads):
                run.ok(rule, '%s invalidates %s before writing' % (fname, rname), 'cache_clear() and no memoised read afterwards', sample=False)
            else:
                run.fail(rule, '%s|%s|stale-file-memo:%s' % (mi.name, fname, rname), mi.relpath, writes[-1].lineno,
                         "%s writes a file while %s memoises file contents (functools cache): %s, so after the write the memo still holds what "
                         "the file contained before and later reads return the old data"
                         % (fname, rname, 'the memo is cleared before the old content is read through it again' if clears else 'the memo is never cleared'))
    return n


def _mutable_default(d):
    if isinstance(d, (ast.List, ast.Dict, ast.Set, ast.ListComp, ast.DictComp, ast.SetComp)):
        return True
    if isinstance(d, ast.Call):
        f = (dotted(d.func) or '').split('.')
        return f[-1] in ('list', 'dict', 'set', 'defaultdict', 'OrderedDict', 'bytearray', 'zeros', 'empty', 'ones', 'array') or f[0][:1].isupper() \
            or (len(f) > 1 and f[-2][:1].isupper())
    return False


def shared_default_results(run, rule, mi):
    """def f(..., default=Mutable()): ... return default -- the one default object, created when the function was defined, is handed to
    every caller that omits the argument; a caller that fills what it got writes into the object the next caller receives."""
    n = 0
    fns = dict(dict.items(mi.functions))
    for fname, f in fns.items():
        a = f.args
        pos = a.posonlyargs + a.args
        defaults = dict(zip([x.arg for x in pos[len(pos) - len(a.defaults):]], a.defaults))
        defaults.update({x.arg: d for x, d in zip(a.kwonlyargs, a.kw_defaults) if d is not None})
        for p, d in defaults.items():
            if not _mutable_default(d):
                continue
            if any(isinstance(t, ast.Name) and t.id == p and isinstance(t.ctx, ast.Store) for t in ast.walk(f)):
                continue
            if not any(isinstance(r, ast.Return) and isinstance(r.value, ast.Name) and r.value.id == p for r in ast.walk(f)):
                continue
            index = [x.arg for x in pos].index(p) if p in [x.arg for x in pos] else None
            for gname, g in list(fns.items()) + [('%s.%s' % (cn, m.name), m) for cn, c in mi.classes.items() for m in c.body if isinstance(m, ast.FunctionDef)]:
                for st in ast.walk(g):
                    if not (isinstance(st, ast.Assign) and len(st.targets) == 1 and isinstance(st.targets[0], ast.Name)
                            and isinstance(st.value, ast.Call) and dotted(st.value.func) == fname):
                        continue
                    c = st.value
                    if any(k.arg == p for k in c.keywords) or (index is not None and len(c.args) > index) or any(isinstance(x, ast.Starred) for x in c.args):
                        continue
                    got = st.targets[0].id
                    writes = [w for w in ast.walk(g) if
                              (isinstance(w, (ast.Assign, ast.AugAssign)) and any(isinstance(t, ast.Subscript) and _root(t) == got
                                                                                   for t in (w.targets if isinstance(w, ast.Assign) else [w.target])))
                              or (isinstance(w, ast.Call) and isinstance(w.func, ast.Attribute) and _root(w.func.value) == got
                                  and w.func.attr in ('update', 'append', 'extend', 'add', 'setdefault', 'pop', 'clear', 'insert', 'remove'))]
                    n += 1
                    run.subject(rule)
                    if writes:
                        run.fail(rule, '%s|%s|shared-default:%s' % (mi.name, fname, p), mi.relpath, st.lineno,
                                 "%s fills the object it got from %s(...), which can be the default value of '%s' (%s): that one object was created "
                                 "when the function was defined and is returned to every caller, so entries stored for one file or call appear in the next"
                                 % (gname, fname, p, norm(d)[:40]))
                    else:
                        run.ok(rule, '%s reads the default of %s' % (gname, fname), 'result not written', sample=False)
    return n


def _root(t):
    while isinstance(t, (ast.Subscript, ast.Attribute)):
        t = t.value
    return t.id if isinstance(t, ast.Name) else None


def identity_keyed_attribute_memos(run, rule, prog, eff, classes):
    """if obj is not self._last: self._a = obj.attr; ...; self._last = obj -- a one-entry memo of an *attribute* of another object, keyed by
    that object's identity.  If the attribute can be rebound after construction (some method other than the constructor assigns it), the
    object stays the same while the attribute changes, and the memo keeps serving the old value."""
    from .inline import flatten, class_lookup
    n = 0
    rebindable = {}

    def can_rebind(attr):
        if attr not in rebindable:
            who = None
            for c in prog.classes.values():
                for mname, m in list(c.methods.items()) + list(c.setters.items()):
                    if mname in ('__init__', '__cinit__'):
                        continue
                    try:
                        if attr in eff.summary(m).writes:
                            who = '%s.%s' % (c.name, mname)
                            break
                    except Exception:
                        continue
                if who:
                    break
            rebindable[attr] = who
        return rebindable[attr]
    for ci in classes:
        for mname, m in sorted(ci.methods.items()):
            tests = [i for i in ast.walk(m) if isinstance(i, ast.If) and isinstance(i.test, ast.Compare) and len(i.test.ops) == 1
                     and isinstance(i.test.ops[0], (ast.IsNot, ast.NotEq))]
            if not tests:
                continue
            params = {a.arg for a in m.args.args} - {'self'}
            try:
                mf = flatten(m, class_lookup(prog, ci))
            except Exception:
                mf = m
            for i in [i for i in ast.walk(mf) if isinstance(i, ast.If) and isinstance(i.test, ast.Compare) and len(i.test.ops) == 1
                      and isinstance(i.test.ops[0], (ast.IsNot, ast.NotEq))]:
                l, r = i.test.left, i.test.comparators[0]
                pair = [(a, b) for a, b in ((l, r), (r, l)) if isinstance(a, ast.Name) and a.id in params
                        and isinstance(b, ast.Attribute) and norm(b.value) == 'self']
                if not pair:
                    continue
                obj, last = pair[0][0].id, pair[0][1].attr
                body_stores = [st for x in i.body for st in ast.walk(x) if isinstance(st, ast.Assign) and len(st.targets) == 1
                               and isinstance(st.targets[0], ast.Attribute) and norm(st.targets[0].value) == 'self']
                if not any(st.targets[0].attr == last and isinstance(st.value, ast.Name) for st in body_stores):
                    continue
                for st in body_stores:
                    v = st.value
                    if isinstance(v, ast.Attribute) and isinstance(v.value, ast.Name) and (v.value.id == obj or any(
                            isinstance(q, ast.Assign) and norm(q.targets[0]) == v.value.id and norm(q.value) == obj for q in ast.walk(mf))):
                        n += 1
                        run.subject(rule)
                        who = can_rebind(v.attr)
                        if who:
                            run.fail(rule, '%s|%s.%s|identity-memo:%s' % (ci.mod.name, ci.name, mname, v.attr), ci.mod.relpath, st.lineno,
                                     "%s.%s keeps %s.%s in self.%s and refreshes it only when a *different* object is passed (%s); %s rebinds "
                                     "that attribute on the same object, after which the kept value is stale: results depend on what was "
                                     "evaluated before the change" % (ci.name, mname, obj, v.attr, st.targets[0].attr, norm(i.test), who))
                        else:
                            run.ok(rule, '%s.%s keeps %s.%s' % (ci.name, mname, obj, v.attr), 'assigned by constructors only', sample=False)
    return n


def sibling_defaults(run, rule, mi):
    """The public functions of one module that take a parameter of the same name give it the same default (they are entry points to the
    same computation: scalar, array, 1D/2D/3D interpolator forms): a default that differs in one of at least three siblings makes that
    entry point answer a different question when the argument is omitted."""
    by = {}
    fns = [(n, f) for n, f in dict.items(mi.functions) if not n.startswith('_')]
    for cname, c in mi.classes.items():
        if not cname.startswith('_'):
            fns += [('%s.%s' % (cname, m.name), m) for m in c.body if isinstance(m, ast.FunctionDef) and m.name == '__init__']
    for fname, f in fns:
        a = f.args
        pos = a.posonlyargs + a.args
        ds = dict(zip([x.arg for x in pos[len(pos) - len(a.defaults):]], a.defaults))
        ds.update({x.arg: d for x, d in zip(a.kwonlyargs, a.kw_defaults) if d is not None})
        for p, d in ds.items():
            by.setdefault(p, []).append((fname, f, norm(d)))
    n = 0
    for p, uses in sorted(by.items()):
        if len(uses) < 3:
            continue
        vals = {}
        for fname, f, d in uses:
            vals.setdefault(d, []).append((fname, f))
        if len(vals) == 1:
            n += 1
            run.subject(rule)
            run.ok(rule, "default of '%s' in %s" % (p, mi.name.rsplit('.', 1)[-1]), '%s in %d functions' % (uses[0][2], len(uses)), sample=False)
            continue
        major = max(vals.items(), key=lambda kv: len(kv[1]))
        odd = [(d, fs) for d, fs in vals.items() if d != major[0]]
        if len(major[1]) >= len(uses) - 1 and len(major[1]) >= 3 and len(odd) == 1 and len(odd[0][1]) == 1:
            n += 1
            run.subject(rule)
            fname, f = odd[0][1][0]
            run.fail(rule, '%s|%s|default:%s' % (mi.name, fname, p), mi.relpath, f.lineno,
                     "%s has %s=%s where the %d other public functions of the module taking '%s' have %s=%s: called without the argument it "
                     "computes with a different value than its siblings (and than the same call through them)"
                     % (fname, p, odd[0][0], len(major[1]), p, p, major[0]))
    return n


# ---------------------------------------------------------------------------------------------------------------- sibling guards
def _guard_atoms(test, local_names, int_names=(), param_names=None):
    param_names = local_names if param_names is None else param_names
    """(structure, atoms, skeleton atoms): the test as a boolean function over canonical atoms.  Comparisons are reduced to == and < (a != b is
    not (a == b), a >= b is not (a < b), a > b is b < a, a <= b is not (b < a)); local variable names are abstracted to '_', attribute / function /
    class names and constants are kept.  The skeleton abstracts constants and operators as well and sorts call arguments."""
    atoms = []

    def abstract(e, consts=True):
        class A(ast.NodeTransformer):
            def visit_Name(self, n):
                if n.id in local_names:
                    # an argument of the function, or a value computed in it: guards on the two are not siblings of each other
                    return ast.copy_location(ast.Name(id='_' if n.id in param_names else '_L', ctx=ast.Load()), n)
                return n

            def visit_Attribute(self, n):
                self.generic_visit(n)
                if isinstance(n.value, ast.Name) and n.value.id == 'self' and n.attr.startswith('_') and not n.attr.startswith('__'):
                    return ast.copy_location(ast.Attribute(value=n.value, attr='_A', ctx=n.ctx), n)      # which private field: not part of the guard's shape
                return n

            def visit_Subscript(self, n):
                # an entry of a local mapping picked by a literal key (data['ne']) is 'a local value' like a plain local
                if isinstance(n.value, ast.Name) and n.value.id in local_names and isinstance(n.slice, ast.Constant) and isinstance(n.slice.value, str):
                    return ast.copy_location(ast.Name(id='_' if n.value.id in param_names else '_L', ctx=ast.Load()), n)
                self.generic_visit(n)
                return n

            def visit_Constant(self, n):
                if not consts and isinstance(n.value, (int, float)) and not isinstance(n.value, bool):
                    return ast.copy_location(ast.Name(id='#', ctx=ast.Load()), n)
                if isinstance(n.value, str):
                    return ast.copy_location(ast.Constant(value='S'), n)
                return n
        import copy as _copy
        return A().visit(_copy.deepcopy(e))

    def atom(e):
        t = norm(abstract(e))
        if isinstance(e, ast.Call) and isinstance(e.func, ast.Name):
            # a named predicate (valid_charge(e, z), isinstance(x, T)) means the same for an argument and for a loop variable
            import re as _re
            t = _re.sub(r'\b_L\b', '_', t)
        if t not in atoms:
            atoms.append(t)
        return 'a%d' % atoms.index(t)

    def go(e):
        if isinstance(e, ast.UnaryOp) and isinstance(e.op, ast.Not):
            return ('not', go(e.operand))
        if isinstance(e, ast.BoolOp):
            return ('and' if isinstance(e.op, ast.And) else 'or',) + tuple(go(v) for v in e.values)
        if isinstance(e, ast.Compare) and len(e.ops) == 1:
            l, r, op = e.left, e.comparators[0], type(e.ops[0])
            mk = lambda a, o, b: ast.Compare(left=a, ops=[o()], comparators=[b])
            # an integer compared with an integer constant: x <= k is x < k + 1, x > k is not (x < k + 1) -- one spelling for both
            if isinstance(l, ast.Name) and l.id in int_names and isinstance(r, ast.Constant) and isinstance(r.value, int) and not isinstance(r.value, bool):
                k1 = ast.Constant(value=r.value + 1)
                if op is ast.LtE:
                    return atom(mk(l, ast.Lt, k1))
                if op is ast.Gt:
                    return ('not', atom(mk(l, ast.Lt, k1)))
            if op is ast.NotEq:
                return ('not', atom(mk(l, ast.Eq, r)))
            if op is ast.GtE:
                return ('not', atom(mk(l, ast.Lt, r)))
            if op is ast.Gt:
                return atom(mk(r, ast.Lt, l))
            if op is ast.LtE:
                return ('not', atom(mk(r, ast.Lt, l)))
            if op is ast.IsNot:
                return ('not', atom(mk(l, ast.Is, r)))
            if op is ast.NotIn:
                return ('not', atom(mk(l, ast.In, r)))
            return atom(e)
        return atom(e)
    struct = go(test)

    def evaluate(s_, val):
        if isinstance(s_, str):
            return val[s_]
        if s_[0] == 'not':
            return not evaluate(s_[1], val)
        if s_[0] == 'and':
            return all(evaluate(x, val) for x in s_[1:])
        return any(evaluate(x, val) for x in s_[1:])
    import itertools as _it
    names = ['a%d' % k for k in range(len(atoms))]
    if len(names) > 5:
        return None
    order = sorted(range(len(atoms)), key=lambda k: atoms[k])
    table = []
    for vals in _it.product((False, True), repeat=len(names)):
        val = {names[order[k]]: vals[k] for k in range(len(names))}
        table.append('1' if evaluate(struct, val) else '0')
    sig = ''.join(table)
    sk = []
    for e_txt in atoms:
        try:
            node = ast.parse(e_txt, mode='eval').body
        except SyntaxError:
            sk.append(e_txt)
            continue

        class Sk(ast.NodeTransformer):
            def visit_Attribute(self, n):
                self.generic_visit(n)
                if isinstance(n.value, ast.Name) and n.value.id == 'self' and n.attr.startswith('_'):
                    return ast.Name(id='self._A', ctx=ast.Load())
                return n

            def visit_Constant(self, n):
                if isinstance(n.value, (int, float)) and not isinstance(n.value, bool):
                    return ast.Name(id='K', ctx=ast.Load())
                return n

            def visit_Call(self, n):
                self.generic_visit(n)
                n.args = sorted(n.args, key=lambda a: norm(a))
                return n

            def visit_Compare(self, n):
                self.generic_visit(n)
                sides = sorted([norm(n.left)] + [norm(c) for c in n.comparators])
                kind = 'IN' if isinstance(n.ops[0], (ast.In, ast.NotIn)) else ('IS' if isinstance(n.ops[0], (ast.Is, ast.IsNot)) else 'CMP')
                return ast.Name(id='%s(%s)' % (kind, ','.join(sides)), ctx=ast.Load())

            def visit_BinOp(self, n):
                self.generic_visit(n)
                return ast.Name(id='OP(%s)' % ','.join(sorted([norm(n.left), norm(n.right)])), ctx=ast.Load())
        sk.append(norm(Sk().visit(node)))
    return sig, tuple(sorted(atoms)), tuple(sorted(sk))


# minority guards confirmed by reading (one line of reason each): (module, function, guard) -> reason
GUARD_EXCEPTIONS = {
    ('cherab.core.math.interpolators.interpolators2d', '_Interpolate2DBase.__init__', 'f.ndim != 2'): 'the data table of a 2D interpolator is two-dimensional (the axes are 1D)',
    ('cherab.core.math.interpolators.interpolators3d', '_Interpolate3DBase.__init__', 'f.ndim != 3'): 'the data table of a 3D interpolator is three-dimensional (the axes are 1D)',
    ('cherab.core.math.transform.periodic', 'PeriodicTransform1D.__init__', 'period <= 0'): 'a 1D periodic transform needs a positive period; the 2D / 3D ones accept 0 for a non-periodic axis',
    ('cherab.core.math.transform.periodic', 'VectorPeriodicTransform1D.__init__', 'period <= 0'): 'as PeriodicTransform1D',
    ('cherab.core.math.integrators.integrators1d', 'GaussianQuadrature.__init__', 'min_order > max_order'): 'equal orders are a legal (fixed-order) quadrature; ranges of wavelengths / clamps need min < max',
    ('cherab.core.model.lineshape.zeeman', 'ParametrisedZeemanTriplet.__init__', 'beta < 0'): 'beta = 0 (no quadratic Zeeman term) is a legal parameter; only negative values are rejected',
}


def sibling_guards(run, rule, modules, min_major=4):
    """Cross-check of sibling guards (Engler et al., 'bugs as deviant behaviour'): the functions of one area repeat the same guard clauses --
    'if not isinstance(x, Element): raise TypeError', 'if not valid_charge(e, z): raise ValueError', 'if a.ndim != 1: raise', 'p = p or
    DEFAULT'.  Guards are compared as boolean functions of canonical atoms (so 'not a == b' and 'a != b' are one guard); where at least
    four siblings agree and one guard with the same skeleton (same atoms up to constants, operators and argument order) computes a
    *different* truth function, that one is reported: it rejects what the others accept, or the reverse."""
    groups = {}
    for mi in modules:
        fns = [(n, f) for n, f in dict.items(mi.functions)] + \
              [('%s.%s' % (cn, m.name), m) for cn, c in mi.classes.items() for m in c.body if isinstance(m, ast.FunctionDef)]
        for fname, f in fns:
            local_names = ({a.arg for a in f.args.posonlyargs + f.args.args + f.args.kwonlyargs} |
                           {t.id for st in ast.walk(f) for t in ast.walk(st) if isinstance(t, ast.Name) and isinstance(t.ctx, ast.Store)}) - {'self', 'cls'}
            param_names = {a.arg for a in f.args.posonlyargs + f.args.args + f.args.kwonlyargs} - {'self', 'cls'}
            int_names = set()
            for st in ast.walk(f):
                if isinstance(st, ast.Assign) and len(st.targets) == 1 and isinstance(st.targets[0], ast.Name) and isinstance(st.value, ast.Call) \
                        and dotted(st.value.func) in ('int', 'len', 'round'):
                    int_names.add(st.targets[0].id)
                elif isinstance(st, ast.AnnAssign) and isinstance(st.target, ast.Name) and (getattr(st, 'cy_type', None) or '') in ('int', 'long', 'Py_ssize_t', 'unsigned int'):
                    int_names.add(st.target.id)
                elif isinstance(st, ast.arg) and (getattr(st, 'cy_type', None) or '') in ('int', 'long', 'Py_ssize_t', 'unsigned int'):
                    int_names.add(st.arg)
            for st in ast.walk(f):
                body_kind = None
                test = None
                if isinstance(st, ast.If) and len(st.body) == 1 and not st.orelse:
                    b = st.body[0]
                    if isinstance(b, ast.Raise) and b.exc is not None:
                        body_kind = 'raise ' + (dotted(b.exc.func if isinstance(b.exc, ast.Call) else b.exc) or '?')
                    elif isinstance(b, ast.Expr) and isinstance(b.value, ast.Call):
                        callee = dotted(b.value.func) or '?'
                        import re as _re
                        m_ = _re.match(r'^(self\._[a-z]+)_', callee)
                        body_kind = 'call ' + (m_.group(1) + '*' if m_ else callee)
                    test = st.test
                elif isinstance(st, ast.Assign) and len(st.targets) == 1 and isinstance(st.targets[0], ast.Name) and isinstance(st.value, ast.BoolOp) \
                        and len(st.value.values) == 2 and isinstance(st.value.values[0], ast.Name) and st.value.values[0].id == st.targets[0].id:
                    # p = p or DEFAULT
                    body_kind = 'default ' + norm(st.value.values[1])
                    test = ast.BoolOp(op=st.value.op, values=[ast.Name(id='_', ctx=ast.Load()), ast.Name(id='DEFAULT', ctx=ast.Load())])
                if body_kind is None:
                    continue
                try:
                    r = _guard_atoms(test, local_names, (), param_names)
                    ri = _guard_atoms(test, local_names, int_names, param_names) if int_names else r
                except Exception:
                    r = None
                if r is None or ri is None:
                    continue
                sig, atoms, sk = r
                st._int_form = (ri[0], ri[1])
                groups.setdefault((sk, body_kind), {}).setdefault((sig, atoms), []).append((mi, fname, st))
    n = 0
    for (sk, kind), variants in sorted(groups.items(), key=lambda kv: str(kv[0])):
        total = sum(len(v) for v in variants.values())
        if total < min_major + 1 or len(variants) < 2:
            if total >= min_major + 1:
                n += 1
                run.subject(rule)
                run.ok(rule, 'guard %s -> %s' % (' ; '.join(sk)[:60], kind), '%d siblings agree' % total, sample=False)
            continue
        major = max(variants.items(), key=lambda kv: len(kv[1]))
        if len(major[1]) < min_major or len(major[1]) < 0.75 * total:
            continue
        major_forms = {major[0]} | {getattr(x[2], '_int_form', None) for x in major[1]}
        for key, sites in variants.items():
            if key == major[0] or len(sites) > 2:
                continue
            for mi, fname, st in sites:
                if getattr(st, '_int_form', None) in major_forms:
                    continue            # the same guard for an integer: x < 1 is x <= 0
                n += 1
                run.subject(rule)
                gtxt = norm(st.test if isinstance(st, ast.If) else st.value)
                if (mi.name, fname, gtxt) in GUARD_EXCEPTIONS:
                    run.ok(rule, '%s guard %s' % (fname, gtxt), 'confirmed special case: ' + GUARD_EXCEPTIONS[(mi.name, fname, gtxt)], sample=False)
                    continue
                run.fail(rule, '%s|%s|deviant-guard:%s' % (mi.name, fname, ' ; '.join(key[1])[:60]), mi.relpath, st.lineno,
                         "%s guards with '%s' (%s) where %d sibling functions of this area guard with '%s': the same condition is tested with "
                         "the opposite sense, another bound or swapped operands, so this function rejects what its siblings accept (or the reverse)"
                         % (fname, norm(st.test if isinstance(st, ast.If) else st.value)[:70], kind, len(major[1]),
                            norm(major[1][0][2].test if isinstance(major[1][0][2], ast.If) else major[1][0][2].value)[:70]))
    return n


def sibling_param_defaults(run, rule, modules):
    """Sibling presence: where at least four functions of an area resolve an optional parameter with 'p = p or DEFAULT' (the same DEFAULT), a
    sibling that takes the same parameter '=None', uses it, and neither resolves it that way nor tests it for None passes None on -- the
    call with the argument omitted fails (or goes elsewhere) where the siblings fall back on the default."""
    have, lack = {}, {}
    for mi in modules:
        fns = [(n, f) for n, f in dict.items(mi.functions)] + \
              [('%s.%s' % (cn, m.name), m) for cn, c in mi.classes.items() for m in c.body if isinstance(m, ast.FunctionDef)]
        for fname, f in fns:
            a = f.args
            pos = a.posonlyargs + a.args
            ds = dict(zip([x.arg for x in pos[len(pos) - len(a.defaults):]], a.defaults))
            ds.update({x.arg: d for x, d in zip(a.kwonlyargs, a.kw_defaults) if d is not None})
            for p, d in ds.items():
                if not (isinstance(d, ast.Constant) and d.value is None):
                    continue
                resolved = None
                tested = False
                used = False
                for st in ast.walk(f):
                    if isinstance(st, ast.Assign) and len(st.targets) == 1 and isinstance(st.targets[0], ast.Name) and st.targets[0].id == p \
                            and isinstance(st.value, ast.BoolOp) and isinstance(st.value.op, ast.Or) and len(st.value.values) == 2 \
                            and isinstance(st.value.values[0], ast.Name) and st.value.values[0].id == p:
                        resolved = norm(st.value.values[1])
                    elif isinstance(st, ast.Compare) and isinstance(st.left, ast.Name) and st.left.id == p and norm(st.comparators[0]) == 'None':
                        tested = True
                    elif isinstance(st, (ast.If, ast.IfExp)) and isinstance(st.test, ast.Name) and st.test.id == p:
                        tested = True
                    elif isinstance(st, ast.Assign) and any(isinstance(t, ast.Name) and t.id == p for t in st.targets):
                        tested = True           # rebound some other way
                    elif isinstance(st, ast.Name) and st.id == p and isinstance(st.ctx, ast.Load):
                        used = True
                if resolved is not None:
                    have.setdefault((p, resolved), []).append((mi, fname, f))
                elif used and not tested:
                    lack.setdefault(p, []).append((mi, fname, f))
    n = 0
    for (p, d), sites in sorted(have.items()):
        if len(sites) < 4:
            continue
        n += 1
        run.subject(rule)
        run.ok(rule, "optional '%s' resolved with '%s'" % (p, d), '%d functions' % len(sites), sample=False)
        for mi, fname, f in lack.get(p, []):
            # forwarding the parameter unchanged to a sibling that resolves it is fine
            fwd = [c for c in ast.walk(f) if isinstance(c, ast.Call) and any(isinstance(k.value, ast.Name) and k.value.id == p for k in c.keywords)
                   or isinstance(c, ast.Call) and any(isinstance(x, ast.Name) and x.id == p for x in c.args)]
            other = [x for x in ast.walk(f) if isinstance(x, ast.Name) and x.id == p and isinstance(x.ctx, ast.Load)]
            fwd_names = sum(sum(1 for k in c.keywords if isinstance(k.value, ast.Name) and k.value.id == p) + sum(1 for x in c.args if isinstance(x, ast.Name) and x.id == p)
                            for c in ast.walk(f) if isinstance(c, ast.Call) and (dotted(c.func) or '').split('.')[-1] not in ('join',))
            joined = any(isinstance(c, ast.Call) and (dotted(c.func) or '').endswith('path.join') and any(isinstance(x, ast.Name) and x.id == p for x in c.args) for c in ast.walk(f))
            if not joined:
                continue
            n += 1
            run.subject(rule)
            run.fail(rule, '%s|%s|unresolved-default:%s' % (mi.name, fname, p), mi.relpath, f.lineno,
                     "%s takes %s=None and builds a path from it without the '%s = %s or %s' that its %d siblings start with: called without the "
                     "argument it joins None into the path instead of using the default" % (fname, p, p, p, d, len(sites)))
    return n


def last_call_memos(run, rule, mi, name, fn):
    """'global _last, _value; if arg is not _last: _value = f(arg); _last = arg' -- a one-entry memo keyed by the *identity* of an array:
    the array can be edited in place between two calls, the identity stays, the memoised value is stale."""
    gl = {n for st in ast.walk(fn) if isinstance(st, ast.Global) for n in st.names}
    if not gl:
        return 0
    params = set(params_of(fn)) - {'self', 'cls'}
    n = 0
    for iff in ast.walk(fn):
        if not (isinstance(iff, ast.If) and isinstance(iff.test, ast.Compare) and len(iff.test.ops) == 1 and isinstance(iff.test.ops[0], (ast.Is, ast.IsNot))):
            continue
        l, r = iff.test.left, iff.test.comparators[0]
        pair = [(a, b) for a, b in ((l, r), (r, l)) if isinstance(a, ast.Name) and a.id in params and isinstance(b, ast.Name) and b.id in gl]
        if not pair:
            continue
        p, g = pair[0][0].id, pair[0][1].id
        arm = iff.body if isinstance(iff.test.ops[0], ast.IsNot) else iff.orelse
        keeps = [st for st in arm if isinstance(st, ast.Assign) and any(isinstance(t, ast.Name) and t.id == g for t in st.targets) and norm(st.value) == p]
        vals = [st for st in arm if isinstance(st, ast.Assign) and any(isinstance(t, ast.Name) and t.id in gl and t.id != g for t in st.targets)
                and any(isinstance(x, ast.Name) and x.id == p for x in ast.walk(st.value))]
        if not keeps or not vals:
            continue
        n += 1
        run.subject(rule)
        if _array_evidence(fn, p):
            run.fail(rule, '%s|%s|identity-memo:%s' % (mi.name, name, g), mi.relpath, iff.lineno,
                     "%s keeps %s computed from the contents of '%s' in module-level state and reuses it while the same object is passed again "
                     "(%s): an array edited in place between two calls keeps its identity, so the result is computed from its old contents"
                     % (name, [norm(t) for st in vals for t in st.targets], p, norm(iff.test)))
        else:
            run.undecided(rule, '%s last-call memo on %s' % (name, p), 'no evidence that the argument is a mutable array')
    return n


def check_caches(run, modules, rule, functions=None, prog=None, zero_is_a_value=False):
    """modules: iterable of ModuleInfo. Reports stores into shared containers whose key misses a dependency."""
    run.describe(rule, 'values cached in module-level or instance-held containers are keyed by every parameter they depend on, at the '
                       'granularity the value uses (results depend on the arguments only)')
    nstores = 0
    ncont = 0
    from .rules._purity import selfcheck_generic
    selfcheck_generic()
    for mi in modules:
        containers = {n for n, v in mi.assigns.items() if _is_container(v)}
        ncont += len(containers)
        fns = list((n, f, None) for n, f in mi.functions.items())
        if functions is None:
            nstores += memoised_file_readers(run, rule, mi)
            nstores += shared_default_results(run, rule, mi)
            nstores += persistent_scratch_buffers(run, rule, mi)
            nstores += sibling_defaults(run, rule, mi)
        for cname, cnode in mi.classes.items():
            _class_level(run, rule, mi, cname, cnode)
            for d_ in (cnode.body if mi.is_cython else []):
                if isinstance(d_, ast.AnnAssign) and isinstance(d_.target, ast.Name):
                    ann_ = getattr(d_, 'cy_type', None) or (d_.annotation.value if isinstance(d_.annotation, ast.Constant) else None)
                    if isinstance(ann_, str) and (ann_ == 'float' or ann_.startswith('float[')):
                        nstores += 1
                        run.subject(rule)
                        run.fail(rule, '%s|%s|single-precision:%s' % (mi.name, cname, d_.target.id), mi.relpath, d_.lineno,
                                 "%s declares the field '%s' as a C float: the value stored in it is rounded to single precision while "
                                 "everything computed from it is double" % (cname, d_.target.id))
            inst = set()
            for f in cnode.body:
                if isinstance(f, ast.FunctionDef):
                    for st in ast.walk(f):
                        if isinstance(st, ast.Assign) and _is_container(st.value):
                            for t in st.targets:
                                if isinstance(t, ast.Attribute) and isinstance(t.value, ast.Name) and t.value.id == 'self':
                                    inst.add(t.attr)
            ncont += len(inst)
            meths_ = {f.name: f for f in cnode.body if isinstance(f, ast.FunctionDef) and not getattr(f, 'is_setter', False)}
            for f in cnode.body:
                if isinstance(f, ast.FunctionDef):
                    f._class_methods = meths_
                    fns.append(('%s.%s' % (cname, f.name), f, inst))
        for name, fn, inst in fns:
            if functions is not None and name not in functions:
                continue
            nstores += local_memos(run, rule, mi, name, fn)
            nstores += last_call_memos(run, rule, mi, name, fn)
            if mi.is_cython:
                for d_ in ast.walk(fn):
                    ann_ = None
                    if isinstance(d_, ast.AnnAssign) and isinstance(d_.target, ast.Name):
                        ann_, nm_ = getattr(d_, 'cy_type', None) or (d_.annotation.value if isinstance(d_.annotation, ast.Constant) else None), d_.target.id
                    elif isinstance(d_, ast.arg) and d_.annotation is not None and isinstance(d_.annotation, ast.Constant):
                        ann_, nm_ = d_.annotation.value, d_.arg
                    elif isinstance(d_, ast.arg) and getattr(d_, 'cy_type', None):
                        ann_, nm_ = d_.cy_type, d_.arg
                    if isinstance(ann_, str) and (ann_ == 'float' or ann_.startswith('float[') or ann_ == 'const float'):
                        nstores += 1
                        run.subject(rule)
                        run.fail(rule, '%s|%s|single-precision:%s' % (mi.name, name, nm_), mi.relpath, d_.lineno,
                                 "%s declares '%s' as a C float: every value of the package is a double, so a quantity held in this variable is "
                                 "rounded to 24 bits and overflows to infinity above 3.4e38 (sums of squares of photon rates do), which changes "
                                 "results and convergence tests for inputs the double-precision code handles" % (name, nm_))
            from .rules._purity import never_bound_names
            for nb_ in never_bound_names(fn, mi, prog):
                nstores += 1
                run.subject(rule)
                run.fail(rule, '%s|%s|unbound:%s' % (mi.name, name, nb_.id), mi.relpath, nb_.lineno,
                         "%s reads '%s', which is bound nowhere: it is not a parameter, is assigned on no path of the function and is not a name "
                         "of the module (or its declaration file) or a builtin -- the call raises NameError / UnboundLocalError (a declared C local "
                         "that is only augmented starts from an undefined value) instead of computing its result" % (name, nb_.id))
            from .rules._purity import unbound_after_handler
            for t_, nm_, use_ in unbound_after_handler(fn):
                nstores += 1
                run.subject(rule)
                run.fail(rule, '%s|%s|unbound-after-handler:%s' % (mi.name, name, nm_), mi.relpath, use_.lineno,
                         "%s reads '%s' after a try statement whose body is the only place that assigns it and whose handler (line %d) falls "
                         "through without assigning it: when the handled exception occurs the read raises UnboundLocalError instead of the "
                         "documented fallback" % (name, nm_, t_.handlers[0].lineno))
            from .rules._purity import shape_index_beyond_validated_rank
            for n_, nm_, r_ in shape_index_beyond_validated_rank(fn):
                nstores += 1
                run.subject(rule)
                run.fail(rule, '%s|%s|shape-index:%s' % (mi.name, name, norm(n_)[:30]), mi.relpath, n_.lineno,
                         "%s reads %s after validating that '%s' has exactly %d axis/axes: the index is out of range for every input the "
                         "validation lets through (IndexError instead of the consistency check)" % (name, norm(n_), nm_, r_))
            from .rules._purity import never_filled_collections
            for a_, nm_ in never_filled_collections(fn):
                nstores += 1
                run.subject(rule)
                run.fail(rule, '%s|%s|never-filled:%s' % (mi.name, name, nm_), mi.relpath, a_.lineno,
                         "%s creates '%s' empty and returns it without anything ever being added to it (no method call, subscript store or "
                         "hand-over touches it): the caller always receives the empty collection" % (name, nm_))
            from .rules._purity import state_written_before_validation
            for w_, fld_, g_ in state_written_before_validation(fn, getattr(fn, '_class_methods', None)):
                nstores += 1
                run.subject(rule)
                run.fail(rule, '%s|%s|stored-before-validated:%s' % (mi.name, name, fld_), mi.relpath, w_.lineno,
                         "%s assigns self.%s (%s) and only afterwards rejects the value (if %s: raise, line %d): when the test fails the caller "
                         "sees the exception but the object keeps the rejected value and nothing that follows the guard (refresh, notification) "
                         "has run, so the next operation computes with a state no accepted call produced"
                         % (name, fld_, norm(w_)[:50], norm(g_.test)[:50], g_.lineno))
            from .rules._purity import derived_from_aliased_input
            for k_, loc_, par_, d_ in derived_from_aliased_input(fn):
                nstores += 1
                run.subject(rule)
                run.fail(rule, '%s|%s|derived-from-alias:%s' % (mi.name, name, loc_), mi.relpath, k_.lineno,
                         "%s keeps '%s', which may be the caller's own array (argument '%s' or a view / non-copying conversion of it), and also "
                         "keeps a value computed from it in the same call (%s): when the caller later writes into that buffer the kept array "
                         "changes and the value derived from it does not, so the object's state matches no assignment that was ever made"
                         % (name, loc_, par_, norm(d_)[:60]))
            from .rules._purity import state_rebuilt_while_validating
            for w_, fld_, g_ in state_rebuilt_while_validating(fn):
                nstores += 1
                run.subject(rule)
                run.fail(rule, '%s|%s|rebuilt-while-validating:%s' % (mi.name, name, fld_), mi.relpath, w_.lineno,
                         "%s has already reset / refilled self.%s (%s) when it rejects an element of its argument (if %s: raise, line %d): after the "
                         "exception the object has lost its old content, holds only the elements accepted so far, and the notification after the "
                         "loop never ran, so nothing that depends on it learns of the change"
                         % (name, fld_, norm(w_)[:40], norm(g_.test)[:50], g_.lineno))
            from .rules._purity import guards_contradicting_their_message
            for g_, why_ in guards_contradicting_their_message(fn):
                nstores += 1
                run.subject(rule)
                run.fail(rule, '%s|%s|guard-vs-message:%s' % (mi.name, name, norm(g_.test)[:40]), mi.relpath, g_.lineno,
                         "%s: the guard '%s' %s: the test contradicts the rule its own error message states, so valid input is rejected and "
                         "invalid input accepted" % (name, norm(g_.test)[:60], why_))
            from .rules._purity import falsy_numeric_default
            # only where 0 is a meaningful argument (bounds, coordinates of the function wrappers); elsewhere 'count or default' treats 0 as 'unset' on purpose
            for n_, x_ in (falsy_numeric_default(fn) if (zero_is_a_value is True or (zero_is_a_value and mi.name in zero_is_a_value)) else ()):
                nstores += 1
                run.subject(rule)
                run.fail(rule, '%s|%s|falsy-default:%s' % (mi.name, name, x_), mi.relpath, n_.lineno,
                         "%s resolves an optional number with '%s': a value of exactly 0 is falsy and is replaced by the default as if nothing had "
                         "been given (a bound, offset or count of zero is a legal argument); the test for 'not given' is 'is None'" % (name, norm(n_)[:50]))
            from .rules._purity import truncated_near_integer
            for c_, q_ in truncated_near_integer(fn):
                nstores += 1
                run.subject(rule)
                run.fail(rule, '%s|%s|truncated-quotient:%s' % (mi.name, name, q_), mi.relpath, c_.lineno,
                         "%s accepts '%s' as an integer to within rounding (round(%s) compared with a tolerance) and then converts it with %s, which "
                         "truncates: a quotient that comes out a rounding error below the integer (360 / 51.43 = 6.9998) loses one, so the value "
                         "derived from it is not the one that was validated" % (name, q_, q_, norm(c_)))
            from .rules._purity import misaligned_key_value_pairs
            for z_, d_ in misaligned_key_value_pairs(fn):
                nstores += 1
                run.subject(rule)
                run.fail(rule, '%s|%s|misaligned-pairs:%s' % (mi.name, name, d_), mi.relpath, z_.lineno,
                         "%s pairs the keys of %s in sorted order with %s.values() in the mapping's own order (%s): where the stored order is not the "
                         "sorted one (string keys '1', '2', '10'; a file written in another order) a key is returned with another key's data"
                         % (name, d_, d_, norm(z_)[:60]))
            from .rules._purity import stale_loop_variable, ascending_index_deletion
            for d_, cont_, idx_ in ascending_index_deletion(fn):
                nstores += 1
                run.subject(rule)
                run.fail(rule, '%s|%s|ascending-deletion:%s' % (mi.name, name, cont_), mi.relpath, d_.lineno,
                         "%s deletes the positions collected in '%s' from %s in ascending order: each deletion shifts the later entries down, so "
                         "from the second one on a different (live) entry is removed" % (name, idx_, cont_))
            for r_, v_, l_, w_ in stale_loop_variable(fn):
                nstores += 1
                run.subject(rule)
                run.fail(rule, '%s|%s|stale-loop-variable:%s' % (mi.name, name, v_), mi.relpath, r_.lineno,
                         "%s iterates over '%s' with '%s' but its body reads '%s', the variable of the earlier loop that filled '%s': every "
                         "iteration uses the last element that loop saw instead of its own" % (name, l_, w_, v_, l_))
            if inst is not None and not name.split('.')[-1].startswith('_'):
                # a result array that is also kept on the instance and refilled by the next call is shared between results
                from .rules._purity import returns_held_buffer
                for r_, fld_ in returns_held_buffer(fn):
                    nstores += 1
                    run.subject(rule)
                    run.fail(rule, '%s|%s|held-result:%s' % (mi.name, name, fld_), mi.relpath, r_.lineno,
                             "%s fills and returns an array that is also kept in self.%s and reused by the next call: a result the caller still holds "
                             "is overwritten by a later call, so results depend on the call history" % (name, fld_))
            if not containers and not inst:
                continue
            params = set(params_of(fn)) - {'self', 'cls'}
            if not params:
                continue
            edges = None
            for st in ast.walk(fn):
                if not (isinstance(st, ast.Assign) and isinstance(st.targets[0], ast.Subscript)):
                    continue
                t = st.targets[0]
                b = t.value
                if isinstance(b, ast.Name) and b.id in containers:
                    cont_txt, kind = b.id, 'module-level'
                elif inst and isinstance(b, ast.Attribute) and isinstance(b.value, ast.Name) and b.value.id == 'self' and b.attr in inst:
                    cont_txt, kind = 'self.' + b.attr, 'instance-held'
                else:
                    continue
                memo = _looks_up(fn, b)
                if kind == 'instance-held' and not memo:
                    continue        # a registry the method fills (add/set), not a memo of computed results
                if edges is None:
                    edges = _value_edges(fn)
                nstores += 1
                _judge(run, rule, mi, name, fn, t, st.value, st, cont_txt, kind, edges, params, memo)
    if functions is None:
        try:
            nstores += sibling_guards(run, rule, list(modules))
            nstores += sibling_param_defaults(run, rule, list(modules))
        except RecursionError:
            pass
    if prog is not None:
        # values memoised in a field / derived once in the constructor follow the fields they were computed from (shared memo rules)
        from .effects import Effects
        from .rules._memo import check_inline_memos, check_ctor_derived, check_shared_defaults, selfcheck
        selfcheck()
        eff = Effects(prog)
        mods = {id(m) for m in modules}
        classes = sorted((c for c in prog.classes.values() if id(c.mod) in mods), key=lambda c: c.qual)
        try:
            nstores += check_inline_memos(run, rule, prog, eff, classes, describe=False)
            nstores += check_ctor_derived(run, rule, prog, eff, classes)
            nstores += check_shared_defaults(run, rule, prog, eff, classes)
            nstores += identity_keyed_attribute_memos(run, rule, prog, eff, classes)
            from .rules._purity import fields_never_written
            for c_ in classes:
                for node_, fld_ in fields_never_written(prog, c_):
                    nstores += 1
                    run.subject(rule)
                    run.fail(rule, '%s|%s|field-never-set:%s' % (c_.mod.name, c_.name, fld_), c_.mod.relpath, node_.lineno,
                             "%s reads self.%s, which no method of the class or of its bases ever assigns: the read raises AttributeError "
                             "(the assignment that initialised it is gone)" % (c_.name, fld_))
            from .rules._purity import swapped_arguments
            for m_ in modules:
                for call_, callee_, a_, p_ in swapped_arguments(prog, m_):
                    nstores += 1
                    run.subject(rule)
                    run.fail(rule, '%s|swapped-argument:%s:%s' % (m_.name, callee_, a_), m_.relpath, call_.lineno,
                             "%s(...) is called with '%s' in the position of its parameter '%s' while '%s' itself is not given that value: two "
                             "arguments of the same kind are passed in the wrong order" % (callee_, a_, p_, a_))
        except RecursionError:
            run.undecided(rule, 'memo rules', 'class graph too deep')
    run.subject(rule)
    run.ok(rule, 'shared containers', '%d containers, %d keyed stores from functions' % (ncont, nstores), sample=(nstores == 0))


def persistent_scratch_buffers(run, rule, mi):
    """A helper that hands out views of module-level arrays it keeps between calls (`global buf`; reallocated only when too small) gives
    its caller memory that still holds the previous call's numbers.  That is invisible only if the caller overwrites every element before
    reading; a caller that fills just a leading / trailing part (`d[0:m] = b`) and then uses the whole array computes with the rest of an
    earlier problem: the result depends on what was solved before."""
    n = 0
    pools = {}
    for name, fn in mi.functions.items():
        g = {x for st in ast.walk(fn) if isinstance(st, ast.Global) for x in st.names}
        g = {x for x in g if x in mi.assigns and isinstance(mi.assigns[x], ast.Call) and (dotted(mi.assigns[x].func) or '').rsplit('.', 1)[-1] in ('zeros', 'empty', 'ones')}
        if not g:
            continue
        rebinds = {t.id for st in ast.walk(fn) if isinstance(st, ast.Assign) for t in st.targets if isinstance(t, ast.Name) and t.id in g}
        rets = [r.value for r in ast.walk(fn) if isinstance(r, ast.Return) and r.value is not None]
        handed = []
        for r in rets:
            for e in (r.elts if isinstance(r, ast.Tuple) else [r]):
                roots = {x.id for x in ast.walk(e) if isinstance(x, ast.Name) and x.id in g}
                handed.append(bool(roots) and not any(isinstance(c, ast.Call) and (dotted(c.func) or '').rsplit('.', 1)[-1] in ('copy', 'array', 'zeros_like') for c in ast.walk(e)))
        if rebinds and handed and any(handed):
            pools[name] = handed
    if not pools:
        return 0
    for name, fn in mi.functions.items():
        for st in ast.walk(fn):
            if not (isinstance(st, ast.Assign) and isinstance(st.value, ast.Call) and dotted(st.value.func) in pools):
                continue
            handed = pools[dotted(st.value.func)]
            tg = st.targets[0]
            names = [e.id if isinstance(e, ast.Name) else None for e in tg.elts] if isinstance(tg, ast.Tuple) else [tg.id if isinstance(tg, ast.Name) else None]
            for nm, h in zip(names, handed):
                if not (nm and h):
                    continue
                n += 1
                run.subject(rule)
                lo_open = hi_open = False
                for w in ast.walk(fn):
                    if isinstance(w, ast.Assign) and isinstance(w.targets[0], ast.Subscript) and isinstance(w.targets[0].value, ast.Name) and w.targets[0].value.id == nm:
                        sl = w.targets[0].slice
                        first = sl.elts[0] if isinstance(sl, ast.Tuple) else sl
                        if isinstance(first, ast.Slice):
                            if first.lower is None or norm(first.lower) == '0':
                                lo_open = True
                            if first.upper is None:
                                hi_open = True
                        elif isinstance(first, ast.Constant) and first.value is Ellipsis:
                            lo_open = hi_open = True
                    elif isinstance(w, ast.Call) and isinstance(w.func, ast.Attribute) and w.func.attr == 'fill' and isinstance(w.func.value, ast.Name) and w.func.value.id == nm:
                        lo_open = hi_open = True
                if lo_open and hi_open:
                    run.ok(rule, '%s scratch %s' % (name, nm), 'overwritten from the first to the last row before use', sample=False)
                else:
                    run.fail(rule, '%s|%s|persistent-scratch:%s' % (mi.name, name, nm), mi.relpath, st.lineno,
                             "%s takes '%s' from %s(), which hands out a view of a module-level array kept between calls, and overwrites only part "
                             "of it before use: the remaining elements still hold the numbers of an earlier call (another problem size, another "
                             "right-hand side), so the result depends on what was computed before" % (name, nm, dotted(st.value.func)))
    return n
