"""Generic rule: results depend on the arguments only.

A value stored by a function into a module-level (or class-level) container is a cache shared
between calls; its key must depend on every parameter the stored value depends on, otherwise a
later call with different arguments receives a stale entry and the result depends on call
order.  A cache whose key covers all dependencies is accepted (silent).
"""
import ast

from .program import dotted, norm
from .calls import params_of, names_in


def _closure(fn):
    edges = {}

    def add(t, v):
        if isinstance(t, (ast.Tuple, ast.List)):
            for e in t.elts:
                add(e, v)
            return
        base = t
        while isinstance(base, (ast.Subscript, ast.Attribute)):
            base = base.value
        if isinstance(base, ast.Name):
            edges.setdefault(base.id, set()).update(names_in(v))
            if isinstance(t, ast.Subscript):
                edges[base.id].update(names_in(t.slice))
    for st in ast.walk(fn):
        if isinstance(st, ast.Assign):
            for t in st.targets:
                add(t, st.value)
        elif isinstance(st, ast.AugAssign):
            add(st.target, st.value)
        elif isinstance(st, ast.For):
            add(st.target, st.iter)
        elif isinstance(st, ast.With):
            for it in st.items:
                if it.optional_vars is not None:
                    add(it.optional_vars, it.context_expr)
    return edges


def _deps(fn, expr, params, edges):
    seen, out, work = set(), set(), list(names_in(expr))
    while work:
        n = work.pop()
        if n in seen:
            continue
        seen.add(n)
        if n in params:
            out.add(n)
        work.extend(edges.get(n, ()))
    return out


def check_caches(run, modules, rule, functions=None):
    """modules: iterable of ModuleInfo. Reports stores into module-level containers whose key misses a dependency."""
    run.describe(rule, 'values cached in module-level containers are keyed by every parameter they depend on (results depend on the arguments only)')
    nstores = 0
    ncont = 0
    for mi in modules:
        containers = {n for n, v in mi.assigns.items()
                      if isinstance(v, (ast.Dict, ast.List, ast.Set)) or (isinstance(v, ast.Call) and dotted(v.func) in ('dict', 'OrderedDict', 'defaultdict', 'list', 'set', 'WeakValueDictionary', 'weakref.WeakValueDictionary'))}
        ncont += len(containers)
        fns = list(mi.functions.items())
        for cname, cnode in mi.classes.items():
            for f in cnode.body:
                if isinstance(f, ast.FunctionDef):
                    fns.append(('%s.%s' % (cname, f.name), f))
        for name, fn in fns:
            if functions is not None and name not in functions:
                continue
            if not containers:
                continue
            params = set(params_of(fn)) - {'self', 'cls'}
            edges = None
            for st in ast.walk(fn):
                if isinstance(st, ast.Assign) and isinstance(st.targets[0], ast.Subscript) and isinstance(st.targets[0].value, ast.Name) \
                        and st.targets[0].value.id in containers:
                    t = st.targets[0]
                    if edges is None:
                        edges = _closure(fn)
                    nstores += 1
                    run.subject(rule)
                    kd = _deps(fn, t.slice, params, edges)
                    vd = _deps(fn, st.value, params, edges)
                    missing = sorted(vd - kd)
                    if missing:
                        run.fail(rule, '%s|%s|cache-key:%s' % (mi.name, name, t.value.id), mi.relpath, st.lineno,
                                 "%s stores %s in the module-level container %s under the key '%s', but the stored value also depends on the "
                                 "argument(s) %s: a later call that differs only in %s gets the stale entry, so the result depends on what was "
                                 "computed before" % (name, norm(st.value)[:40], t.value.id, norm(t.slice), missing, missing[0]))
                    else:
                        run.ok(rule, '%s cache %s' % (name, t.value.id), "key '%s' covers %s" % (norm(t.slice), sorted(vd)))
    run.subject(rule)
    run.ok(rule, 'module-level containers', '%d containers, %d keyed stores from functions' % (ncont, nstores), sample=(nstores == 0))
