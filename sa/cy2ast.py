"""Cython front end: raw parse tree of a .pyx/.pxd file -> stdlib ``ast`` module.

The Cython *parser* (Cython.Compiler, the same front end that builds the
extension modules) is used as a library.  No transform of the compiler pipeline
is run: the tree is source-shaped (decorators, ``for .. in range``, property
setters under their own names).  It is lowered to ordinary ``ast`` nodes so
that every rule is written once, for Python and Cython sources alike.

Cython-only information is kept in extra attributes:

* ``FunctionDef.cy_kind``   'def' | 'cdef' | 'cpdef'
* ``FunctionDef.cy_ret``    declared C return type (string) or None
* ``FunctionDef.cy_decl``   True for a body-less declaration in a .pxd
* ``arg.cy_type``           declared type of a parameter (string) or None
* ``ClassDef.cy_cclass``    True for ``cdef class``
* ``AnnAssign.cy_cdef``     True for ``cdef T x`` ; ``.cy_type`` type string,
                            ``.cy_visibility`` 'private' | 'public' | 'readonly'
* ``ImportFrom.cy_cimport`` / ``Import.cy_cimport``
* ``Constant.cy_text``      literal text of a float/int literal
* casts ``<T>x`` become ``__cast__('T', x)``; ``&x`` becomes ``__addr__(x)``
"""
import ast
import os

from Cython.Compiler.Main import Context, CompilationOptions, default_options
from Cython.Compiler.Scanning import FileSourceDescriptor
from Cython.Compiler import Nodes as N, ExprNodes as E

_ctx = None


class CyFrontError(Exception):
    pass


def _context(root):
    global _ctx
    if _ctx is None:
        opts = CompilationOptions(default_options, language_level=3, include_path=[root])
        _ctx = Context.from_options(opts)
    return _ctx


def parse_cython(root, relpath):
    """relpath: path of a .pyx/.pxd relative to root. Returns the raw Cython tree."""
    ctx = _context(root)
    full = relpath.rsplit('.', 1)[0].replace(os.sep, '.')
    pxd = relpath.endswith('.pxd')
    cwd = os.getcwd()
    os.chdir(root)
    try:
        src = FileSourceDescriptor(os.path.join(root, relpath), relpath)
        scope = ctx.find_module(full, pos=(src, 1, 0), need_pxd=0)
        return ctx.parse(src, scope, pxd=pxd, full_module_name=full)
    finally:
        os.chdir(cwd)


BINOPS = {'+': ast.Add, '-': ast.Sub, '*': ast.Mult, '/': ast.Div, '//': ast.FloorDiv, '%': ast.Mod,
          '**': ast.Pow, '<<': ast.LShift, '>>': ast.RShift, '|': ast.BitOr, '&': ast.BitAnd,
          '^': ast.BitXor, '@': ast.MatMult}
CMPOPS = {'==': ast.Eq, '!=': ast.NotEq, '<': ast.Lt, '<=': ast.LtE, '>': ast.Gt, '>=': ast.GtE,
          'is': ast.Is, 'is_not': ast.IsNot, 'in': ast.In, 'not_in': ast.NotIn, 'is not': ast.IsNot,
          'not in': ast.NotIn}


def _loc(new, old):
    pos = getattr(old, 'pos', None)
    if pos:
        new.lineno = pos[1]
        new.col_offset = pos[2]
        new.end_lineno = pos[1]
        new.end_col_offset = pos[2]
    else:
        new.lineno = new.end_lineno = 0
        new.col_offset = new.end_col_offset = 0
    return new


def typestr(base, declarator=None):
    """Render a declared C type as a string."""
    s = _basetype(base)
    d = declarator
    suffix = ''
    while d is not None:
        if isinstance(d, N.CPtrDeclaratorNode):
            suffix = '*' + suffix
            d = d.base
        elif isinstance(d, N.CArrayDeclaratorNode):
            suffix = '[]' + suffix
            d = d.base
        elif isinstance(d, N.CFuncDeclaratorNode):
            d = d.base
        elif isinstance(d, N.CReferenceDeclaratorNode):
            suffix = '&' + suffix
            d = d.base
        else:
            break
    return (s or 'object') + suffix


def _basetype(b):
    if b is None:
        return None
    if isinstance(b, N.CSimpleBaseTypeNode):
        if b.name is None:
            return None
        name = b.name
        if b.is_basic_c_type:
            pre = ''
            if getattr(b, 'signed', 1) == 0:
                pre = 'unsigned '
            ln = getattr(b, 'longness', 0)
            if ln == 1:
                pre += 'long '
            elif ln == 2:
                pre += 'long long '
            elif ln == -1:
                pre += 'short '
            name = (pre + name).strip()
        if b.module_path:
            name = '.'.join(list(b.module_path) + [name])
        return name
    if isinstance(b, N.MemoryViewSliceTypeNode):
        return '%s[%s]' % (_basetype(b.base_type_node), ','.join(':' for _ in b.axes))
    if isinstance(b, N.TemplatedTypeNode):
        return '%s[...]' % _basetype(b.base_type_node)
    # node classes differ between Cython versions: looked up by name, never assumed
    for cname in ('CConstOrVolatileTypeNode', 'CConstTypeNode'):
        cls = getattr(N, cname, None)
        if cls is not None and isinstance(b, cls):
            return _basetype(b.base_type)
    cls = getattr(N, 'CTupleBaseTypeNode', None)
    if cls is not None and isinstance(b, cls):
        return '(%s)' % ', '.join(str(typestr(c, None) if hasattr(c, 'declarator') is False else _basetype(c)) for c in getattr(b, 'components', []))
    cls = getattr(N, 'CComplexBaseTypeNode', None)
    if cls is not None and isinstance(b, cls):
        return typestr(b.base_type, b.declarator)
    return type(b).__name__


def _declname(d):
    while d is not None and not isinstance(d, N.CNameDeclaratorNode):
        d = d.base
    return d


class Lower:
    def __init__(self, relpath):
        self.relpath = relpath

    # ------------------------------------------------------------ statements
    def module(self, tree):
        m = ast.Module(body=self.stats(tree.body), type_ignores=[])
        m.cy_path = self.relpath
        return m

    def stats(self, node):
        if node is None:
            return []
        if isinstance(node, N.StatListNode):
            out = []
            for s in node.stats:
                out.extend(self.stats(s))
            return out
        r = self.stat(node)
        if r is None:
            return []
        if isinstance(r, list):
            return r
        return [r]

    def body(self, node):
        b = self.stats(node)
        return b or [_loc(ast.Pass(), node)]

    def stat(self, n):
        m = getattr(self, 's_' + type(n).__name__, None)
        if m is None:
            # a statement form this lowering does not know: kept as an opaque marker call so that the rules see "something they cannot
            # interpret here" (undecided) instead of the whole file failing to load
            return _loc(ast.Expr(value=ast.Call(func=ast.Name(id='__cy_unsupported__', ctx=ast.Load()),
                                                args=[ast.Constant(value=type(n).__name__)], keywords=[])), n)
        r = m(n)
        if isinstance(r, ast.AST):
            _loc(r, n)
        return r

    def s_SingleAssignmentNode(self, n):
        if isinstance(n.rhs, E.ImportNode):
            # "import a.b [as c]"
            modname = self._strval(n.rhs.module_name)
            asname = n.lhs.name if isinstance(n.lhs, E.NameNode) else None
            if asname == modname.split('.')[0] and not getattr(n.rhs, 'get_top_level_module', False):
                pass
            alias = ast.alias(name=modname, asname=None if asname == modname.split('.')[0] else asname)
            return ast.Import(names=[alias])
        return ast.Assign(targets=[self.target(n.lhs)], value=self.expr(n.rhs))

    def s_CascadedAssignmentNode(self, n):
        return ast.Assign(targets=[self.target(l) for l in n.lhs_list], value=self.expr(n.rhs))

    def s_InPlaceAssignmentNode(self, n):
        return ast.AugAssign(target=self.target(n.lhs), op=BINOPS[n.operator](), value=self.expr(n.rhs))

    def s_ExprStatNode(self, n):
        return ast.Expr(value=self.expr(n.expr))

    def s_ReturnStatNode(self, n):
        return ast.Return(value=self.expr(n.value) if n.value is not None else None)

    def s_RaiseStatNode(self, n):
        exc = None
        if n.exc_type is not None:
            exc = self.expr(n.exc_type)
            if n.exc_value is not None:
                exc = _loc(ast.Call(func=exc, args=[self.expr(n.exc_value)], keywords=[]), n)
        cause = self.expr(n.cause) if getattr(n, 'cause', None) is not None else None
        return ast.Raise(exc=exc, cause=cause)

    def s_IfStatNode(self, n):
        clauses = list(n.if_clauses)
        orelse = self.stats(n.else_clause) if n.else_clause is not None else []
        node = None
        for cl in reversed(clauses):
            node = _loc(ast.If(test=self.expr(cl.condition), body=self.body(cl.body), orelse=orelse), cl)
            orelse = [node]
        return node

    def s_ForInStatNode(self, n):
        seq = n.iterator.sequence if isinstance(n.iterator, E.IteratorNode) else n.iterator
        return ast.For(target=self.target(n.target), iter=self.expr(seq), body=self.body(n.body),
                       orelse=self.stats(n.else_clause) if n.else_clause is not None else [])

    def s_WhileStatNode(self, n):
        return ast.While(test=self.expr(n.condition), body=self.body(n.body),
                         orelse=self.stats(n.else_clause) if n.else_clause is not None else [])

    def s_TryExceptStatNode(self, n):
        handlers = []
        for c in n.except_clauses:
            typ = None
            if c.pattern:
                pats = [self.expr(p) for p in c.pattern]
                typ = pats[0] if len(pats) == 1 else _loc(ast.Tuple(elts=pats, ctx=ast.Load()), c)
            name = None
            if c.target is not None and isinstance(c.target, E.NameNode):
                name = c.target.name
            handlers.append(_loc(ast.ExceptHandler(type=typ, name=name, body=self.body(c.body)), c))
        return ast.Try(body=self.body(n.body), handlers=handlers,
                       orelse=self.stats(n.else_clause) if n.else_clause is not None else [], finalbody=[])

    def s_TryFinallyStatNode(self, n):
        inner = self.stats(n.body)
        if len(inner) == 1 and isinstance(inner[0], ast.Try) and not inner[0].finalbody:
            inner[0].finalbody = self.body(n.finally_clause)
            return inner[0]
        return ast.Try(body=inner or [ast.Pass()], handlers=[], orelse=[], finalbody=self.body(n.finally_clause))

    def s_WithStatNode(self, n):
        item = ast.withitem(context_expr=self.expr(n.manager),
                            optional_vars=self.target(n.target) if n.target is not None else None)
        return ast.With(items=[item], body=self.body(n.body))

    def s_PassStatNode(self, n):
        return ast.Pass()

    def s_BreakStatNode(self, n):
        return ast.Break()

    def s_ContinueStatNode(self, n):
        return ast.Continue()

    def s_DelStatNode(self, n):
        return ast.Delete(targets=[self.target(a, ast.Del) for a in n.args])

    def s_GlobalNode(self, n):
        return ast.Global(names=list(n.names))

    def s_AssertStatNode(self, n):
        return ast.Assert(test=self.expr(n.condition), msg=self.expr(n.value) if getattr(n, 'value', None) is not None else None)

    def s_CTypeDefNode(self, n):
        return None

    def s_CEnumDefNode(self, n):
        return None

    def s_CStructOrUnionDefNode(self, n):
        return None

    def s_CDefExternNode(self, n):
        return self.stats(n.body)

    def s_CompilerDirectivesNode(self, n):
        return self.stats(n.body)

    def s_CVarDefNode(self, n):
        out = []
        for d in n.declarators:
            nd = _declname(d)
            name = nd.name if nd is not None else '?'
            fd = d
            is_func = False
            while fd is not None and not isinstance(fd, N.CNameDeclaratorNode):
                if isinstance(fd, N.CFuncDeclaratorNode):
                    is_func = True
                    break
                fd = fd.base
            if is_func:
                f = ast.FunctionDef(name=name, args=self.cargs(fd.args), body=[ast.Pass()],
                                    decorator_list=[], returns=None, type_comment=None, type_params=[])
                f.cy_kind = 'cpdef' if getattr(n, 'overridable', False) or getattr(fd, 'overridable', False) else 'cdef'
                f.cy_ret = typestr(n.base_type, d)
                f.cy_decl = True
                out.append(_loc(f, n))
                continue
            t = typestr(n.base_type, d)
            default = getattr(nd, 'default', None)
            a = ast.AnnAssign(target=_loc(ast.Name(id=name, ctx=ast.Store()), n),
                              annotation=_loc(ast.Constant(value=t), n),
                              value=self.expr(default) if default is not None else None, simple=1)
            a.cy_cdef = True
            a.cy_type = t
            a.cy_visibility = n.visibility
            out.append(_loc(a, n))
        return out

    def cargs(self, args, star=None, starstar=None):
        posargs, defaults, kwonly, kwdefaults = [], [], [], []
        for a in args:
            nd = _declname(a.declarator)
            name = nd.name if nd is not None else ''
            t = None
            if name == '':
                name = a.base_type.name if isinstance(a.base_type, N.CSimpleBaseTypeNode) else '?'
            else:
                t = typestr(a.base_type, a.declarator)
            ann = None
            if getattr(a, 'annotation', None) is not None:
                try:
                    ann = self.expr(a.annotation.expr if hasattr(a.annotation, 'expr') else a.annotation)
                except CyFrontError:
                    ann = None
            arg = _loc(ast.arg(arg=name, annotation=ann, type_comment=None), a)
            arg.cy_type = t
            arg.cy_not_none = bool(getattr(a, 'not_none', False))
            if getattr(a, 'kw_only', False):
                kwonly.append(arg)
                kwdefaults.append(self.expr(a.default) if a.default is not None else None)
            else:
                posargs.append(arg)
                if a.default is not None:
                    defaults.append(self.expr(a.default))
        va = None
        if star is not None:
            va = _loc(ast.arg(arg=star.name, annotation=None, type_comment=None), star)
            va.cy_type = None
        kw = None
        if starstar is not None:
            kw = _loc(ast.arg(arg=starstar.name, annotation=None, type_comment=None), starstar)
            kw.cy_type = None
        return ast.arguments(posonlyargs=[], args=posargs, vararg=va, kwonlyargs=kwonly,
                             kw_defaults=kwdefaults, kwarg=kw, defaults=defaults)

    def decorators(self, n):
        out = []
        for d in (getattr(n, 'decorators', None) or []):
            out.append(self.expr(d.decorator))
        return out

    def _docstring(self, n, body):
        doc = getattr(n, 'doc', None)
        if doc:
            body.insert(0, _loc(ast.Expr(value=_loc(ast.Constant(value=str(doc)), n)), n))
        return body

    def s_DefNode(self, n):
        f = ast.FunctionDef(name=n.name, args=self.cargs(n.args, n.star_arg, n.starstar_arg),
                            body=self.body(n.body), decorator_list=self.decorators(n), returns=None,
                            type_comment=None, type_params=[])
        f.cy_kind = 'def'
        f.cy_ret = None
        f.cy_decl = False
        return f

    def s_CFuncDefNode(self, n):
        d = n.declarator
        fd = d
        while not isinstance(fd, N.CFuncDeclaratorNode):
            fd = fd.base
        name = _declname(d).name
        f = ast.FunctionDef(name=name, args=self.cargs(fd.args), body=self.body(n.body),
                            decorator_list=self.decorators(n), returns=None, type_comment=None, type_params=[])
        f.cy_kind = 'cpdef' if n.overridable else 'cdef'
        f.cy_ret = typestr(n.base_type, d)
        f.cy_decl = False
        f.cy_modifiers = list(getattr(n, 'modifiers', []) or [])
        return f

    def s_CClassDefNode(self, n):
        bases = [self.expr(b) for b in (n.bases.args if n.bases is not None else [])]
        c = ast.ClassDef(name=n.class_name, bases=bases, keywords=[], body=self.body(n.body),
                         decorator_list=self.decorators(n), type_params=[])
        c.cy_cclass = True
        return c

    def s_PyClassDefNode(self, n):
        bases = []
        b = getattr(n, 'bases', None)
        if b is not None and hasattr(b, 'args'):
            bases = [self.expr(x) for x in b.args]
        c = ast.ClassDef(name=n.name, bases=bases, keywords=[], body=self.body(n.body),
                         decorator_list=self.decorators(n), type_params=[])
        c.cy_cclass = False
        return c

    def s_FromCImportStatNode(self, n):
        names = []
        for item in n.imported_names:
            name, asname = item[1], item[2]
            names.append(ast.alias(name=name, asname=asname))
        r = ast.ImportFrom(module=n.module_name or None, names=names, level=n.relative_level or 0)
        r.cy_cimport = True
        return r

    def s_CImportStatNode(self, n):
        r = ast.Import(names=[ast.alias(name=n.module_name, asname=n.as_name)])
        r.cy_cimport = True
        return r

    def s_FromImportStatNode(self, n):
        mod = self._strval(n.module.module_name)
        names = []
        for name, target in n.items:
            tn = target.name if isinstance(target, E.NameNode) else None
            names.append(ast.alias(name=name, asname=None if tn == name else tn))
        r = ast.ImportFrom(module=mod or None, names=names, level=n.module.level or 0)
        r.cy_cimport = False
        return r

    def _strval(self, n):
        return str(n.value) if hasattr(n, 'value') else str(n)

    # ----------------------------------------------------------- expressions
    def target(self, n, ctx=ast.Store):
        e = self.expr(n)
        self._setctx(e, ctx)
        return e

    def _setctx(self, e, ctx):
        if isinstance(e, (ast.Name, ast.Attribute, ast.Subscript, ast.Starred)):
            e.ctx = ctx()
        if isinstance(e, (ast.Tuple, ast.List)):
            e.ctx = ctx()
            for x in e.elts:
                self._setctx(x, ctx)

    def expr(self, n):
        m = getattr(self, 'e_' + type(n).__name__, None)
        if m is None:
            if isinstance(n, E.NumBinopNode) or isinstance(n, E.BinopNode):
                m = self._binop
            else:
                args = []
                for attr in ('operand', 'arg', 'base', 'obj', 'operand1', 'operand2'):
                    sub = getattr(n, attr, None)
                    if sub is not None and hasattr(sub, 'pos') and sub is not n:
                        try:
                            args.append(self.expr(sub))
                        except Exception:
                            pass
                return _loc(ast.Call(func=ast.Name(id='__cy_unsupported__', ctx=ast.Load()),
                                     args=[ast.Constant(value=type(n).__name__)] + args, keywords=[]), n)
        r = m(n)
        return _loc(r, n)

    def e_NameNode(self, n):
        return ast.Name(id=n.name, ctx=ast.Load())

    def e_AttributeNode(self, n):
        return ast.Attribute(value=self.expr(n.obj), attr=n.attribute, ctx=ast.Load())

    def e_IntNode(self, n):
        txt = n.value
        try:
            v = int(txt, 0)
        except ValueError:
            v = int(txt.rstrip('uUlL'), 0)
        c = ast.Constant(value=v)
        c.cy_text = txt
        return c

    def e_FloatNode(self, n):
        c = ast.Constant(value=float(n.value))
        c.cy_text = n.value
        return c

    def e_ImagNode(self, n):
        return ast.Constant(value=complex(0, float(n.value)))

    def e_UnicodeNode(self, n):
        return ast.Constant(value=str(n.value))

    e_StringNode = e_UnicodeNode
    e_IdentifierStringNode = e_UnicodeNode

    def e_BytesNode(self, n):
        return ast.Constant(value=bytes(n.value, 'latin1') if isinstance(n.value, str) else bytes(n.value))

    def e_NoneNode(self, n):
        return ast.Constant(value=None)

    def e_BoolNode(self, n):
        return ast.Constant(value=bool(n.value))

    def e_EllipsisNode(self, n):
        return ast.Constant(value=Ellipsis)

    def e_SimpleCallNode(self, n):
        return ast.Call(func=self.expr(n.function), args=[self.expr(a) for a in n.args], keywords=[])

    def e_GeneralCallNode(self, n):
        args = []
        pa = n.positional_args
        if isinstance(pa, E.TupleNode):
            args = [self.expr(a) for a in pa.args]
        elif isinstance(pa, E.AsTupleNode):
            args = [_loc(ast.Starred(value=self.expr(pa.arg), ctx=ast.Load()), pa)]
        elif isinstance(pa, E.MergedSequenceNode):
            for a in pa.args:
                if isinstance(a, E.TupleNode):
                    args.extend(self.expr(x) for x in a.args)
                else:
                    inner = a.arg if isinstance(a, E.AsTupleNode) else a
                    args.append(_loc(ast.Starred(value=self.expr(inner), ctx=ast.Load()), a))
        elif isinstance(pa, E.AddNode):
            def flat(x):
                if isinstance(x, E.AddNode):
                    flat(x.operand1)
                    flat(x.operand2)
                elif isinstance(x, E.TupleNode):
                    args.extend(self.expr(a) for a in x.args)
                elif isinstance(x, E.AsTupleNode):
                    args.append(_loc(ast.Starred(value=self.expr(x.arg), ctx=ast.Load()), x))
                else:
                    args.append(_loc(ast.Starred(value=self.expr(x), ctx=ast.Load()), x))
            flat(pa)
        elif pa is not None:
            args = [_loc(ast.Starred(value=self.expr(pa), ctx=ast.Load()), pa)]
        kws = []
        ka = n.keyword_args
        if ka is not None:
            parts = ka.keyword_args if isinstance(ka, E.MergedDictNode) else [ka]
            for p in parts:
                if isinstance(p, E.DictNode):
                    for it in p.key_value_pairs:
                        kws.append(ast.keyword(arg=self._strval(it.key), value=self.expr(it.value)))
                else:
                    kws.append(ast.keyword(arg=None, value=self.expr(p)))
        return ast.Call(func=self.expr(n.function), args=args, keywords=kws)

    def e_IndexNode(self, n):
        return ast.Subscript(value=self.expr(n.base), slice=self.expr(n.index), ctx=ast.Load())

    def e_SliceNode(self, n):
        f = lambda x: None if x is None or isinstance(x, E.NoneNode) else self.expr(x)
        return ast.Slice(lower=f(n.start), upper=f(n.stop), step=f(n.step))

    def e_SliceIndexNode(self, n):
        f = lambda x: None if x is None or isinstance(x, E.NoneNode) else self.expr(x)
        sl = _loc(ast.Slice(lower=f(n.start), upper=f(n.stop), step=None), n)
        return ast.Subscript(value=self.expr(n.base), slice=sl, ctx=ast.Load())

    def e_TupleNode(self, n):
        return ast.Tuple(elts=[self.expr(a) for a in n.args], ctx=ast.Load())

    def e_ListNode(self, n):
        return ast.List(elts=[self.expr(a) for a in n.args], ctx=ast.Load())

    def e_SetNode(self, n):
        return ast.Set(elts=[self.expr(a) for a in n.args])

    def e_DictNode(self, n):
        return ast.Dict(keys=[self.expr(i.key) for i in n.key_value_pairs],
                        values=[self.expr(i.value) for i in n.key_value_pairs])

    def e_StarredUnpackingNode(self, n):
        return ast.Starred(value=self.expr(n.target), ctx=ast.Load())

    def _binop(self, n):
        return ast.BinOp(left=self.expr(n.operand1), op=BINOPS[n.operator](), right=self.expr(n.operand2))

    def e_UnaryMinusNode(self, n):
        return ast.UnaryOp(op=ast.USub(), operand=self.expr(n.operand))

    def e_UnaryPlusNode(self, n):
        return ast.UnaryOp(op=ast.UAdd(), operand=self.expr(n.operand))

    def e_TildeNode(self, n):
        return ast.UnaryOp(op=ast.Invert(), operand=self.expr(n.operand))

    def e_NotNode(self, n):
        return ast.UnaryOp(op=ast.Not(), operand=self.expr(n.operand))

    def e_BoolBinopNode(self, n):
        op = ast.And if n.operator == 'and' else ast.Or
        l, r = self.expr(n.operand1), self.expr(n.operand2)
        vals = []
        for x in (l, r):
            if isinstance(x, ast.BoolOp) and isinstance(x.op, op):
                vals.extend(x.values)
            else:
                vals.append(x)
        return ast.BoolOp(op=op(), values=vals)

    def e_PrimaryCmpNode(self, n):
        ops, comps = [CMPOPS[n.operator]()], [self.expr(n.operand2)]
        c = n.cascade
        while c is not None:
            ops.append(CMPOPS[c.operator]())
            comps.append(self.expr(c.operand2))
            c = c.cascade
        return ast.Compare(left=self.expr(n.operand1), ops=ops, comparators=comps)

    def e_CondExprNode(self, n):
        return ast.IfExp(test=self.expr(getattr(n, 'condition', None) or getattr(n, 'test')), body=self.expr(n.true_val), orelse=self.expr(n.false_val))

    def e_TypecastNode(self, n):
        t = typestr(n.base_type, n.declarator)
        return ast.Call(func=_loc(ast.Name(id='__cast__', ctx=ast.Load()), n),
                        args=[_loc(ast.Constant(value=t), n), self.expr(n.operand)], keywords=[])

    def e_AmpersandNode(self, n):
        return ast.Call(func=_loc(ast.Name(id='__addr__', ctx=ast.Load()), n), args=[self.expr(n.operand)], keywords=[])

    def e_SizeofTypeNode(self, n):
        return ast.Call(func=_loc(ast.Name(id='sizeof', ctx=ast.Load()), n),
                        args=[_loc(ast.Constant(value=typestr(n.base_type, n.declarator)), n)], keywords=[])

    def e_SizeofVarNode(self, n):
        return ast.Call(func=_loc(ast.Name(id='sizeof', ctx=ast.Load()), n), args=[self.expr(n.operand)], keywords=[])

    def e_LambdaNode(self, n):
        body = n.result_expr if hasattr(n, 'result_expr') else None
        return ast.Lambda(args=self.cargs(n.args, getattr(n, 'star_arg', None), getattr(n, 'starstar_arg', None)),
                          body=self.expr(body) if body is not None else _loc(ast.Constant(value=None), n))

    def e_YieldExprNode(self, n):
        return ast.Yield(value=self.expr(n.arg) if n.arg is not None else None)

    def _comp_parts(self, loop):
        gens = []
        node = loop
        elt = None
        while True:
            if isinstance(node, N.StatListNode) and len(node.stats) == 1:
                node = node.stats[0]
                continue
            if isinstance(node, N.ForInStatNode):
                seq = node.iterator.sequence if isinstance(node.iterator, E.IteratorNode) else node.iterator
                gens.append(ast.comprehension(target=self.target(node.target), iter=self.expr(seq), ifs=[], is_async=0))
                node = node.body
            elif isinstance(node, N.IfStatNode) and len(node.if_clauses) == 1 and node.else_clause is None:
                gens[-1].ifs.append(self.expr(node.if_clauses[0].condition))
                node = node.if_clauses[0].body
            elif isinstance(node, N.ExprStatNode):
                elt = node.expr
                break
            elif isinstance(node, (E.ComprehensionAppendNode, E.YieldExprNode)):
                elt = node
                break
            else:
                raise CyFrontError('%s: unsupported comprehension shape %s' % (self.relpath, type(node).__name__))
        return gens, elt

    def e_ComprehensionNode(self, n):
        gens, elt = self._comp_parts(n.loop)
        if isinstance(elt, E.ComprehensionAppendNode):
            if isinstance(elt, E.DictComprehensionAppendNode):
                item = getattr(elt, 'dict_item', None)
                k = item.key if item is not None else elt.key_expr
                v = item.value if item is not None else elt.value_expr
                return ast.DictComp(key=self.expr(k), value=self.expr(v), generators=gens)
            e = self.expr(elt.expr)
            tname = type(n.type).__name__ if n.type is not None else ''
            if 'set' in str(getattr(n.type, 'name', '')):
                return ast.SetComp(elt=e, generators=gens)
            return ast.ListComp(elt=e, generators=gens)
        raise CyFrontError('%s: unsupported comprehension element' % self.relpath)

    def e_GeneratorExpressionNode(self, n):
        loop = getattr(n, 'loop', None)
        if loop is None:
            loop = n.def_node.gbody.body if hasattr(n, 'def_node') else None
        gens, elt = self._comp_parts(loop)
        if isinstance(elt, E.YieldExprNode):
            return ast.GeneratorExp(elt=self.expr(elt.arg), generators=gens)
        raise CyFrontError('%s: unsupported generator expression' % self.relpath)

    def e_JoinedStrNode(self, n):
        vals = []
        for v in n.values:
            if isinstance(v, E.FormattedValueNode):
                vals.append(_loc(ast.FormattedValue(value=self.expr(v.value), conversion=-1, format_spec=None), v))
            else:
                vals.append(self.expr(v))
        return ast.JoinedStr(values=vals)


def lower_file(root, relpath):
    tree = parse_cython(root, relpath)
    m = Lower(relpath).module(tree)
    return m
