"""Rule self-test (thorough tier): mutants of the *current* tree that a rule must report, twins it must not.

Each mutant is one located textual edit (the `find` text must occur exactly once in
the file, otherwise the mutant is inapplicable) applied to a scratch copy of the
sources outside /repo and /verif; the check is re-run on the copy in a subprocess.
Results are recorded in evidence (selftest); they never decide the exit code of the
property, except that zero applicable mutants is an analysis error.
"""
import os
import shutil
import subprocess
import sys
import tempfile
from concurrent.futures import ThreadPoolExecutor

from .report import REPO, VERIF, AnalysisError


def _copy_sources(dst):
    src = os.path.join(REPO, 'cherab')
    for r, d, f in os.walk(src):
        d[:] = [x for x in d if x not in ('__pycache__', 'build')]
        rel = os.path.relpath(r, REPO)
        os.makedirs(os.path.join(dst, rel), exist_ok=True)
        for x in f:
            if x.endswith(('.py', '.pyx', '.pxd', '.pxi')):
                shutil.copy2(os.path.join(r, x), os.path.join(dst, rel, x))


def _apply(root, m):
    if m.get('patch'):
        # a unified diff (relative to /verif) applied with patch -p1: seeded changes and refactoring twins kept as files
        pf = os.path.join(VERIF, m['patch'])
        if not os.path.exists(pf):
            return 'inapplicable: patch file %s missing' % m['patch']
        p = subprocess.run(['patch', '-p1', '-s', '--forward', '-i', pf], cwd=root, capture_output=True, text=True)
        if p.returncode != 0:
            return 'inapplicable: patch %s does not apply to the current tree' % m['patch']
        return None
    path = os.path.join(root, m['file'])
    with open(path, encoding='utf-8') as fh:
        s = fh.read()
    n = s.count(m['find'])
    occ = m.get('occurrence')
    if occ is not None:
        # the k-th of several identical sites (0-based); the count must still be what was confirmed when the mutant was written
        if n != m.get('of', n) or occ >= n:
            return 'inapplicable: find text occurs %d times in %s (expected %s)' % (n, m['file'], m.get('of'))
        parts = s.split(m['find'])
        s2 = m['find'].join(parts[:occ + 1]) + m['replace'] + m['find'].join(parts[occ + 1:])
        with open(path, 'w', encoding='utf-8') as fh:
            fh.write(s2)
        return None
    if n != 1:
        return 'inapplicable: find text occurs %d times in %s' % (n, m['file'])
    with open(path, 'w', encoding='utf-8') as fh:
        fh.write(s.replace(m['find'], m['replace']))
    return None


def _run_one(pid, m, base):
    root = tempfile.mkdtemp(prefix='sa_selftest_', dir=base)
    try:
        _copy_sources(root)
        edits = m.get('edits') or [m]
        for e in edits:
            err = _apply(root, e)
            if err:
                return dict(name=m['name'], status=err)
        env = dict(os.environ, VERIF_REPO=root, VERIF_EVIDENCE_DIR=os.path.join(root, '_evidence'), VERIF_TIER='quick')
        p = subprocess.run([sys.executable, '-W', 'ignore', '-m', 'sa.main', pid, '--tier', 'quick'], cwd=VERIF, env=env,
                           capture_output=True, text=True, timeout=600)
        out = p.stdout + p.stderr
        reported = [l for l in out.splitlines() if ': C' in l and not l.startswith(('KNOWN', 'VIOLATION', 'NOTE'))]
        return dict(name=m['name'], status='ran', exit=p.returncode, reported=reported[:6],
                    tail=out.splitlines()[-3:] if p.returncode == 2 else [])
    finally:
        shutil.rmtree(root, ignore_errors=True)


def _indexed(kind, pid, mutant):
    """Seeded changes confirmed by independent agents (mutants) and behaviour-preserving refactorings (twins) kept under
    /verif/<kind>/ with an INDEX.json: [{id, patch, checks: {<pid>: <rule or null>}}]."""
    import json
    idx = os.path.join(VERIF, kind, 'INDEX.json')
    if not os.path.exists(idx):
        return []
    out = []
    for e in json.load(open(idx)):
        if pid in e.get('checks', {}):
            if mutant and not e['checks'][pid]:
                continue
            out.append(dict(name='%s:%s' % (kind, e['id']), patch=e['patch'], expect=e['checks'][pid] if mutant else None))
    return out


def run_selftest(pid, mod, run):
    mutants = list(getattr(mod, 'MUTANTS', []))
    twins = list(getattr(mod, 'TWINS', []))
    mutants += _indexed('seeded', pid, True)
    twins += _indexed('refactorings', pid, False)
    if not mutants:
        return
    base = tempfile.mkdtemp(prefix='sa_selftest_base_')
    try:
        with ThreadPoolExecutor(16) as ex:
            mres = list(ex.map(lambda m: _run_one(pid, m, base), mutants))
            tres = list(ex.map(lambda m: _run_one(pid, m, base), twins))
    finally:
        shutil.rmtree(base, ignore_errors=True)
    killed, missed, inapplicable = [], [], []
    for m, r in zip(mutants, mres):
        if r['status'] != 'ran':
            inapplicable.append(r)
            continue
        want = m.get('expect')
        hit = r['exit'] == 1 and (want is None or any(want in l for l in r['reported']))
        (killed if hit else missed).append(dict(name=m['name'], expect=want, exit=r['exit'], reported=r['reported'], tail=r.get('tail')))
    silent, noisy = [], []
    for m, r in zip(twins, tres):
        if r['status'] != 'ran':
            inapplicable.append(r)
            continue
        (silent if r['exit'] == 0 else noisy).append(dict(name=m['name'], exit=r['exit'], reported=r['reported'], tail=r.get('tail')))
    for x in missed:
        print('SELFTEST-MISS property=%s mutant=%s expected=%s exit=%s reported=%s' % (pid, x['name'], x['expect'], x['exit'], x['reported'][:2]))
    for x in noisy:
        print('SELFTEST-NOISY property=%s twin=%s exit=%s reported=%s %s' % (pid, x['name'], x['exit'], x['reported'][:2], x.get('tail')))
    for x in inapplicable:
        print('SELFTEST-INAPPLICABLE property=%s %s: %s' % (pid, x['name'], x['status']))
    print('selftest %s: mutants=%d killed=%d missed=%d twins=%d silent=%d noisy=%d inapplicable=%d' % (
        pid, len(mutants), len(killed), len(missed), len(twins), len(silent), len(noisy), len(inapplicable)))
    run.extra['selftest'] = dict(mutants=len(mutants), killed=len(killed), missed=[x['name'] for x in missed],
                                 twins=len(twins), silent=len(silent), noisy=[x['name'] for x in noisy],
                                 inapplicable=[x['name'] for x in inapplicable],
                                 killed_detail=[dict(name=x['name'], reported=x['reported'][:1]) for x in killed])
    if not killed and not missed:
        raise AnalysisError('self-test: no applicable mutant for %s' % pid)
