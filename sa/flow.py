"""Structured control-flow helpers over ast function bodies.

The repository's code is structured (no goto, few breaks); guard dominance is
computed syntactically: the conditions that hold at a statement are the tests of
its enclosing ``if``/``while`` arms plus the negations of every *preceding*
sibling ``if`` (at any enclosing level) whose taken arm always leaves the
function or the loop (``return`` / ``raise`` / ``continue`` / ``break``).
"""
import ast

from .program import norm, dotted


def always_exits(stmts, loop_exits=True):
    """True if every path through the statement list ends in return/raise (or break/continue)."""
    for st in stmts:
        if isinstance(st, (ast.Return, ast.Raise)):
            return True
        if loop_exits and isinstance(st, (ast.Break, ast.Continue)):
            return True
        if isinstance(st, ast.If):
            if st.orelse and always_exits(st.body, loop_exits) and always_exits(st.orelse, loop_exits):
                return True
        if isinstance(st, ast.Try):
            if always_exits(st.body, loop_exits) and all(always_exits(h.body, loop_exits) for h in st.handlers):
                return True
            if st.finalbody and always_exits(st.finalbody, loop_exits):
                return True
        if isinstance(st, ast.With) and always_exits(st.body, loop_exits):
            return True
    return False


def parent_map(root):
    pm = {}
    for n in ast.walk(root):
        for c in ast.iter_child_nodes(n):
            pm[c] = n
    return pm


def _blocks(st):
    """(fieldname, list) pairs of statement lists owned by st."""
    out = []
    for f in ('body', 'orelse', 'finalbody'):
        v = getattr(st, f, None)
        if isinstance(v, list) and v and isinstance(v[0], ast.stmt):
            out.append((f, v))
    if isinstance(st, ast.Try):
        for h in st.handlers:
            out.append(('handler', h.body))
    return out


def guards_of(fn, target):
    """List of (test_expr, polarity) known to hold when `target` (a node inside fn) executes.

    Returns None when target is not inside fn."""
    found = []

    def search(stmts, acc):
        acc = list(acc)
        for st in stmts:
            if st is target or _contains_expr(st, target):
                # target is this statement, or an expression directly in it (not in a sub-block)
                if st is target or not _in_subblock(st, target):
                    found.append(acc)
                    return True
            for fname, blk in _blocks(st):
                extra = []
                if isinstance(st, (ast.If, ast.While)):
                    if fname == 'body':
                        extra = [(st.test, True)]
                    elif fname == 'orelse' and isinstance(st, ast.If):
                        extra = [(st.test, False)]
                if isinstance(st, ast.For) and fname == 'body':
                    extra = [(st, 'in-loop')]
                if _has(blk, target):
                    return search(blk, acc + extra)
            # sibling passed: record what is known once control falls through it
            acc.extend(_fallthrough([st]))
        return False

    search(fn.body, [])
    return found[0] if found else None


def _fallthrough(stmts):
    """Conditions known to hold once control has fallen through the statement list (early-exit arms exclude their tests;
    'if A: exit / elif B: exit' excludes both)."""
    out = []
    for st in stmts:
        if isinstance(st, ast.For) and isinstance(st.target, ast.Name) and st.target.id.startswith('__h') and st.target.id.endswith('_once'):
            # the one-trip loop an expanded helper stands in (sa.inline): what its raising / returning guards exclude holds after it;
            # a 'break' there is the helper's return and excludes nothing
            for e, pol in _fallthrough(st.body):
                src = [x for x in st.body if isinstance(x, ast.If) and x.test is e]
                if src and (always_exits(src[0].body, loop_exits=False) if pol is False else always_exits(src[0].orelse, loop_exits=False)):
                    out.append((e, pol))
            continue
        if isinstance(st, ast.If):
            if always_exits(st.body) and not (st.orelse and always_exits(st.orelse)):
                out.append((st.test, False))
                out.extend(_fallthrough(st.orelse))
            elif st.orelse and always_exits(st.orelse):
                out.append((st.test, True))
                out.extend(_fallthrough(st.body))
    return out


def _has(stmts, target):
    for st in stmts:
        for n in ast.walk(st):
            if n is target:
                return True
    return False


def _contains_expr(st, target):
    for n in ast.walk(st):
        if n is target:
            return True
    return False


def _in_subblock(st, target):
    for _, blk in _blocks(st):
        if _has(blk, target):
            return True
    return False


def atoms(guards):
    """Decompose guards into atomic (text, node, polarity) facts."""
    out = []

    def add(e, pol):
        if pol == 'in-loop':
            return
        if isinstance(e, ast.UnaryOp) and isinstance(e.op, ast.Not):
            add(e.operand, not pol)
        elif isinstance(e, ast.BoolOp) and isinstance(e.op, ast.And) and pol:
            for v in e.values:
                add(v, True)
        elif isinstance(e, ast.BoolOp) and isinstance(e.op, ast.Or) and not pol:
            for v in e.values:
                add(v, False)
        elif isinstance(e, ast.Compare) and len(e.ops) == 1:
            out.append((e, pol))
        elif isinstance(e, ast.Compare) and len(e.ops) > 1 and pol:
            # chained comparison a <= b <= c holds: every link holds
            left = e.left
            for op, right in zip(e.ops, e.comparators):
                out.append((ast.Compare(left=left, ops=[op], comparators=[right]), True))
                left = right
        else:
            out.append((e, pol))
    for e, pol in guards:
        add(e, pol)
    return out


NEG = {ast.Eq: ast.NotEq, ast.NotEq: ast.Eq, ast.Lt: ast.GtE, ast.GtE: ast.Lt, ast.Gt: ast.LtE, ast.LtE: ast.Gt,
       ast.Is: ast.IsNot, ast.IsNot: ast.Is, ast.In: ast.NotIn, ast.NotIn: ast.In}
FLIP = {ast.Eq: ast.Eq, ast.NotEq: ast.NotEq, ast.Lt: ast.Gt, ast.Gt: ast.Lt, ast.LtE: ast.GtE, ast.GtE: ast.LtE}
OPTXT = {ast.Eq: '==', ast.NotEq: '!=', ast.Lt: '<', ast.LtE: '<=', ast.Gt: '>', ast.GtE: '>=', ast.Is: 'is',
         ast.IsNot: 'is not', ast.In: 'in', ast.NotIn: 'not in'}


def facts(guards):
    """Normalised comparison facts: set of (lhs_text, op_text, rhs_text) that hold, in both orientations.
    Non-comparison atoms are returned as (text, 'true'|'false', '')."""
    out = set()
    for e, pol in atoms(guards):
        if isinstance(e, ast.Compare) and len(e.ops) == 1:
            op = type(e.ops[0])
            if not pol:
                op = NEG.get(op)
            if op is None:
                continue
            l, r = norm(e.left), norm(e.comparators[0])
            out.add((l, OPTXT[op], r))
            if op in FLIP:
                out.add((r, OPTXT[FLIP[op]], l))
        else:
            out.add((norm(e), 'true' if pol else 'false', ''))
    return out


def func_nodes(fn, types):
    return [n for n in ast.walk(fn) if isinstance(n, types)]


def stores(fn):
    """All assignment targets in fn: yields (target_node, value_node_or_None, stmt)."""
    for st in ast.walk(fn):
        if isinstance(st, ast.Assign):
            for t in st.targets:
                for tt in _flatten(t):
                    yield tt, st.value, st
        elif isinstance(st, ast.AugAssign):
            yield st.target, st.value, st
        elif isinstance(st, ast.AnnAssign) and st.value is not None:
            yield st.target, st.value, st


def _flatten(t):
    if isinstance(t, (ast.Tuple, ast.List)):
        for e in t.elts:
            yield from _flatten(e)
    else:
        yield t


def local_defs(fn):
    """name -> list of value exprs assigned to that local name (simple assigns only)."""
    out = {}
    for t, v, st in stores(fn):
        if isinstance(t, ast.Name) and isinstance(st, ast.Assign):
            out.setdefault(t.id, []).append(v)
    return out


def stmts_before(fn, node):
    """Simple statements executed before `node` on its path (sibling branches not containing it are skipped)."""
    out = []

    def walk(stmts):
        for st in stmts:
            if st is node:
                return True
            if any(x is node for x in ast.walk(st)):
                if isinstance(st, ast.If):
                    if any(x is node for s in st.body for x in ast.walk(s)):
                        return walk(st.body)
                    return walk(st.orelse)
                if isinstance(st, (ast.For, ast.While, ast.With, ast.Try)):
                    return walk(st.body)
                return True
            if isinstance(st, (ast.Assign, ast.AugAssign, ast.AnnAssign)):
                out.append(st)
        return False
    walk(fn.body)
    return out


def enclosing_conditions(fn, node):
    """Tests of the if/while/for/except blocks that structurally enclose `node` in fn (early-exit validation that merely
    precedes the node is not included).  Empty list: the node runs on every normal pass through fn."""
    out = []

    def search(stmts, acc):
        for st in stmts:
            if st is node or (_contains_expr(st, node) and not _in_subblock(st, node)):
                out.extend(acc)
                return True
            for fname, blk in _blocks(st):
                if _has(blk, node):
                    extra = []
                    if isinstance(st, (ast.If, ast.While)):
                        extra = [(st.test, fname == 'body')]
                    elif isinstance(st, ast.For):
                        extra = [(st.iter, 'in-loop')] if fname == 'body' else []
                    elif isinstance(st, ast.Try) and fname == 'handler':
                        extra = [(st, 'in-handler')]
                    return search(blk, acc + extra)
        return False
    search(fn.body, [])
    return out


def refreshed_after_write(fn, fields, is_refresh):
    """The function writes self.<field> for field in `fields`; is_refresh(call_node) tells whether a call refreshes the
    dependants (a notify(), a rebuild).  Returns (ok, why): ok iff a refresh call stands after the last such write and is
    unconditional, or conditional only on a 'value changed' test that was evaluated before the write."""
    writes = []
    for st in ast.walk(fn):
        tg = []
        if isinstance(st, ast.Assign):
            tg = st.targets
        elif isinstance(st, (ast.AugAssign, ast.AnnAssign)):
            tg = [st.target]
        for t in tg:
            for x in ast.walk(t):
                if isinstance(x, ast.Attribute) and isinstance(x.value, ast.Name) and x.value.id == 'self' and x.attr in fields:
                    writes.append(st)
    if not writes:
        return True, 'no direct write'
    last = max(w.lineno for w in writes)
    first = min(w.lineno for w in writes)
    calls = [c for c in ast.walk(fn) if isinstance(c, ast.Call) and is_refresh(c)]
    if not calls:
        return False, 'no refresh call'
    params = {a.arg for a in fn.args.args[1:]}
    why = 'the refresh precedes the assignment: dependants are rebuilt from the old value'
    for c in calls:
        if c.lineno <= last:
            continue
        conds = enclosing_conditions(fn, c)
        ok = True
        for e, pol in conds:
            if pol == 'in-loop':
                continue
            changed = False
            if isinstance(e, ast.Name):
                # a flag computed before the write: flag = value != self._field
                ds = [s for s in ast.walk(fn) if isinstance(s, ast.Assign) and any(isinstance(t, ast.Name) and t.id == e.id for t in s.targets)]
                if len(ds) == 1 and ds[0].lineno < first and pol is True and _is_changed_compare(ds[0].value, params, fields):
                    changed = True
            if not changed:
                ok = False
                why = 'the refresh after the assignment only happens when %s%s' % ('' if pol else 'not ', norm(e) if isinstance(e, ast.AST) else e)
        if ok:
            return True, 'refresh after the write'
    return False, why


def _is_changed_compare(e, params, fields):
    if isinstance(e, ast.Compare) and len(e.ops) == 1 and isinstance(e.ops[0], (ast.NotEq, ast.IsNot)):
        sides = [e.left, e.comparators[0]]
        return any(isinstance(x, ast.Name) and x.id in params for x in sides) and \
            any(isinstance(x, ast.Attribute) and isinstance(x.value, ast.Name) and x.value.id == 'self' and x.attr in fields for x in sides)
    return False


def implied_atoms(guards, atoms):
    """guards: [(test expr, polarity)], atoms: normalised texts of comparison atoms. Returns {atom: True/False} for the atoms whose
    truth value is the same in every assignment of the atoms that satisfies all guards (propositional reasoning over and/or/not)."""
    import itertools

    def ev(e, asg):
        if isinstance(e, ast.UnaryOp) and isinstance(e.op, ast.Not):
            v = ev(e.operand, asg)
            return None if v is None else (not v)
        if isinstance(e, ast.BoolOp):
            vs = [ev(v, asg) for v in e.values]
            if isinstance(e.op, ast.And):
                if any(v is False for v in vs):
                    return False
                return None if any(v is None for v in vs) else True
            if any(v is True for v in vs):
                return True
            return None if any(v is None for v in vs) else False
        t = norm(e)
        if t in asg:
            return asg[t]
        # the negated spelling of an atom
        if isinstance(e, ast.Compare) and len(e.ops) == 1 and type(e.ops[0]) in NEG:
            neg = ast.Compare(left=e.left, ops=[NEG[type(e.ops[0])]()], comparators=e.comparators)
            tn = norm(neg)
            if tn in asg:
                return not asg[tn]
        return None
    atoms = list(atoms)
    sat = []
    for vals in itertools.product((True, False), repeat=len(atoms)):
        asg = dict(zip(atoms, vals))
        ok = True
        for e, pol in guards:
            if pol == 'in-loop' or not isinstance(e, ast.AST):
                continue
            v = ev(e, asg)
            if v is not None and v != bool(pol):
                ok = False
                break
        if ok:
            sat.append(asg)
    out = {}
    for a in atoms:
        vs = {s[a] for s in sat}
        if len(vs) == 1:
            out[a] = vs.pop()
    return out


def copy_kind(e, names):
    """How the array expression e relates to the caller-owned arrays named in `names`:
    'copy' (a new array), 'alias' (may be the caller's array or a view of it), None (does not involve them / unknown source)."""
    if isinstance(e, ast.Name):
        return 'alias' if e.id in names else None
    if isinstance(e, ast.Subscript):
        return 'alias' if copy_kind(e.value, names) == 'alias' else copy_kind(e.value, names)
    if isinstance(e, ast.Attribute):
        if e.attr in ('T', 'real', 'imag', 'flat', 'base'):
            return copy_kind(e.value, names)
        return None
    if isinstance(e, ast.BinOp):
        ks = [copy_kind(e.left, names), copy_kind(e.right, names)]
        return 'copy' if any(ks) else None
    if isinstance(e, ast.Call):
        d = dotted(e.func) or ''
        kw = {k.arg: k.value for k in e.keywords}
        nocopy = 'copy' in kw and isinstance(kw['copy'], ast.Constant) and kw['copy'].value is False
        if d in ('np.array', 'numpy.array', 'np.copy', 'numpy.copy', 'np.float64', 'copy.deepcopy', 'copy.copy', 'list', 'tuple') and e.args:
            inner = copy_kind(e.args[0], names)
            return ('alias' if nocopy else 'copy') if inner else None
        if d in ('np.asarray', 'np.asanyarray', 'np.ascontiguousarray', 'np.asfortranarray', 'np.require', 'np.atleast_1d', 'np.atleast_2d',
                 'np.ravel', 'np.reshape', 'np.squeeze', 'np.transpose', 'np.swapaxes', 'memoryview') and e.args:
            return copy_kind(e.args[0], names)
        if isinstance(e.func, ast.Attribute):
            inner = copy_kind(e.func.value, names)
            if inner:
                if e.func.attr in ('copy', 'tolist', 'flatten'):
                    return 'copy'
                if e.func.attr == 'astype':
                    return 'alias' if nocopy else 'copy'
                if e.func.attr in ('reshape', 'ravel', 'view', 'squeeze', 'transpose', 'swapaxes'):
                    return inner
                return 'copy'
        return None
    return None
