"""Per-method effects on `self` and their transitive closure relative to a concrete class.

Chains are written relative to self: ``self._a.b`` -> ``_a.b``.
"""
import ast

from .program import dotted, norm


class Summary:
    def __init__(self):
        self.reads = set()       # chains read
        self.writes = {}         # chain -> list of stmt nodes
        self.selfcalls = {}      # method name -> list of call nodes
        self.calls = []          # (receiver chain or None, method name, call node)
        self.notifies = {}       # notifier owner chain ('' = self.notifier) -> nodes
        self.regs = []           # (op, owner chain, callback name, node)
        self.subwrites = {}      # 'a.b' attribute stores on sub objects: chain -> nodes

    def merge(self, o):
        self.reads |= o.reads
        for k, v in o.writes.items():
            self.writes.setdefault(k, []).extend(v)
        for k, v in o.selfcalls.items():
            self.selfcalls.setdefault(k, []).extend(v)
        self.calls.extend(o.calls)
        for k, v in o.notifies.items():
            self.notifies.setdefault(k, []).extend(v)
        self.regs.extend(o.regs)
        for k, v in o.subwrites.items():
            self.subwrites.setdefault(k, []).extend(v)


def self_chain(n, selfname='self'):
    d = dotted(n)
    if d is None:
        return None
    if d == selfname:
        return ''
    if d.startswith(selfname + '.'):
        return d[len(selfname) + 1:]
    return None


def summarise(fn):
    s = Summary()
    selfname = fn.args.args[0].arg if fn.args.args else 'self'
    # local aliases of self fields:  x = self._a  (single assignment)
    alias = {}
    for st in ast.walk(fn):
        if isinstance(st, ast.Assign) and len(st.targets) == 1 and isinstance(st.targets[0], ast.Name):
            c = self_chain(st.value, selfname)
            if c:
                alias.setdefault(st.targets[0].id, set()).add(c)
        elif isinstance(st, ast.AnnAssign) and st.value is not None and isinstance(st.target, ast.Name):
            c = self_chain(st.value, selfname)          # a typed local: cdef T x = self._a
            if c:
                alias.setdefault(st.target.id, set()).add(c)

    def chain_of(n):
        c = self_chain(n, selfname)
        if c is not None:
            return c
        d = dotted(n)
        if d:
            head = d.split('.')[0]
            if head in alias and len(alias[head]) == 1:
                return '.'.join([next(iter(alias[head]))] + d.split('.')[1:])
        return None

    written_nodes = set()
    for st in ast.walk(fn):
        targets = []
        if isinstance(st, ast.Assign):
            targets = st.targets
        elif isinstance(st, (ast.AugAssign, ast.AnnAssign)):
            targets = [st.target]
        flat = []
        for t in targets:
            flat.extend(_flat(t))
        for t in flat:
            base = t
            sub = False
            while isinstance(base, ast.Subscript):
                base = base.value
                sub = True
            c = chain_of(base) if not isinstance(base, ast.Name) else None
            if c:
                written_nodes.add(id(base))
                if '.' in c:
                    s.subwrites.setdefault(c, []).append(st)
                    s.reads.add(c.rsplit('.', 1)[0])
                else:
                    s.writes.setdefault(c, []).append(st)
                    if sub or isinstance(st, ast.AugAssign):
                        s.reads.add(c)
    for n in ast.walk(fn):
        if isinstance(n, ast.Call):
            f = n.func
            if isinstance(f, ast.Attribute):
                rc = chain_of(f.value)
                if rc is not None:
                    if rc == '':
                        s.selfcalls.setdefault(f.attr, []).append(n)
                    else:
                        s.calls.append((rc, f.attr, n))
                        s.reads.add(rc)
                        # mutating container methods count as writes of the field
                        if f.attr in ('append', 'extend', 'clear', 'pop', 'remove', 'insert', 'update', 'add', 'sort', 'set') and '.' not in rc \
                                and not rc.endswith('notifier'):
                            s.writes.setdefault(rc, []).append(n)
                        if f.attr == 'notify' and (rc == 'notifier' or rc.endswith('.notifier')):
                            s.notifies.setdefault(rc[:-len('notifier')].rstrip('.'), []).append(n)
                        if f.attr in ('add', 'remove') and (rc == 'notifier' or rc.endswith('.notifier')) and n.args:
                            cb = chain_of(n.args[0])
                            s.regs.append((f.attr, rc[:-len('notifier')].rstrip('.'), cb, n))
                else:
                    s.calls.append((None, dotted(f) or norm(f), n))
                    # <local>.notifier.add/remove(cb) where the local is what the function assigns to self.<field>:
                    # a registration on the *new* object of that field, wherever it stands relative to the assignment
                    d = dotted(f.value)
                    if f.attr in ('add', 'remove') and d and d.endswith('.notifier') and d.count('.') == 1 and n.args:
                        loc = d.split('.')[0]
                        for st in ast.walk(fn):
                            if isinstance(st, ast.Assign) and isinstance(st.value, ast.Name) and st.value.id == loc:
                                for t in st.targets:
                                    c = chain_of(t)
                                    if c and '.' not in c:
                                        n._on_new = True
                                        s.regs.append((f.attr, c, chain_of(n.args[0]), n))
            else:
                s.calls.append((None, dotted(f) or norm(f), n))
        elif isinstance(n, ast.Attribute) and isinstance(n.ctx, ast.Load):
            c = chain_of(n)
            if c and id(n) not in written_nodes:
                s.reads.add(c)
    # reads: keep maximal chains and their prefixes of length 1
    extra = set()
    for c in s.reads:
        extra.add(c.split('.')[0])
    s.reads |= extra
    s.reads.discard('')
    return s


def _flat(t):
    if isinstance(t, (ast.Tuple, ast.List)):
        for e in t.elts:
            yield from _flat(e)
    elif isinstance(t, ast.Starred):
        yield from _flat(t.value)
    else:
        yield t


class Effects:
    def __init__(self, prog):
        self.prog = prog
        self._sum = {}
        self._clo = {}

    def summary(self, fn):
        if id(fn) not in self._sum:
            self._sum[id(fn)] = summarise(fn)
        return self._sum[id(fn)]

    def resolve(self, ci, name):
        """Virtual dispatch: method / getter named `name` seen from concrete class ci."""
        c, m = self.prog.find_method(ci, name)
        return m

    def closure(self, ci, fn, stop=(), _seen=None):
        """Transitive effects of fn executed on an instance of ci (self-calls, property getters and setters followed).
        `stop`: method names not to descend into (their call is recorded in selfcalls only)."""
        key = (ci.qual, id(fn), tuple(sorted(stop)))
        if _seen is None and key in self._clo:
            return self._clo[key]
        seen = _seen if _seen is not None else set()
        out = Summary()
        if id(fn) in seen:
            return out
        seen.add(id(fn))
        s = self.summary(fn)
        out.merge(s)
        for name in list(s.selfcalls):
            if name in stop:
                continue
            m = self.resolve(ci, name)
            if m is not None:
                out.merge(self.closure(ci, m, stop, seen))
        # property reads / writes on self
        for c in list(s.reads):
            head = c.split('.')[0]
            gc, g = self.prog.find_getter(ci, head)
            if g is not None and g is not fn:
                out.merge(self.closure(ci, g, stop, seen))
        for c in list(s.writes):
            sc, st = self.prog.find_setter(ci, c)
            if st is not None and st is not fn:
                out.selfcalls.setdefault('@' + c + '.setter', []).extend(s.writes[c])
                out.merge(self.closure(ci, st, stop, seen))
        if _seen is None:
            self._clo[key] = out
        return out

    def public_mutators(self, ci, own_only=False):
        """(kind, name, fn, defining class) for property setters and public def/cpdef methods over the MRO."""
        out, seen = [], set()
        for c in self.prog.mro(ci):
            for name, fn in c.setters.items():
                if ('s', name) not in seen:
                    seen.add(('s', name))
                    out.append(('setter', name, fn, c))
            for name, fn in c.methods.items():
                if name.startswith('_') or ('m', name) in seen:
                    continue
                seen.add(('m', name))
                if c.method_kind(name) == 'cdef':
                    continue
                out.append(('method', name, fn, c))
            if own_only:
                break
        return out
