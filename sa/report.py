"""Obligation bookkeeping, known findings, evidence and exit codes (DESIGN 1.3, 3.4)."""
import json
import os
import sys
import time

VERIF = os.path.dirname(os.path.dirname(os.path.abspath(__file__)))
REPO = os.environ.get('VERIF_REPO', '/repo')
EVIDENCE_DIR = os.environ.get('VERIF_EVIDENCE_DIR') or os.path.join(VERIF, 'evidence')
KNOWN = os.path.join(VERIF, 'known_findings.json')


class AnalysisError(Exception):
    """Front end failed, an anchored subject vanished, or a rule fell under its floor."""


def load_known():
    try:
        with open(KNOWN) as f:
            d = json.load(f)
    except FileNotFoundError:
        return []
    return d.get('findings', [])


class Run:
    def __init__(self, pid, tier='quick'):
        self.pid = pid
        self.tier = tier
        self.t0 = time.time()
        self.rules = {}          # rule -> dict(counts)
        self.samples = []
        self.findings = []       # dict(rule,key,file,line,what,detail)
        self.files = set()
        self.functions = 0
        self.notes = []
        self.explanation = ''
        self.assumptions = []
        self.extra = {}
        self.floors = {}

    # ------------------------------------------------------------------
    def _r(self, rule):
        return self.rules.setdefault(rule, dict(subjects=0, obligations=0, discharged=0, undecided=0,
                                                known=0, violations=0))

    def describe(self, rule, text):
        self._r(rule)['rule'] = text

    def subject(self, rule, n=1):
        self._r(rule)['subjects'] += n

    def ok(self, rule, construct, detail=None, sample=True):
        r = self._r(rule)
        r['obligations'] += 1
        r['discharged'] += 1
        if sample and sum(1 for s in self.samples if s['rule'] == rule) < 4:
            self.samples.append(dict(rule=rule, construct=construct, verdict='discharged', evidence=detail))

    def undecided(self, rule, construct, why):
        r = self._r(rule)
        r['obligations'] += 1
        r['undecided'] += 1
        self.notes.append('UNDECIDED %s %s: %s' % (rule, construct, why))

    def fail(self, rule, key, file, line, what, detail=None):
        """key: stable construct key (module/class/function/construct) -- never a line number."""
        r = self._r(rule)
        r['obligations'] += 1
        self.findings.append(dict(rule=rule, key='%s|%s' % (rule, key), file=file, line=line, what=what,
                                  detail=detail))

    def floor(self, rule, minimum, what='subjects'):
        self.floors[rule] = minimum
        got = self._r(rule)[what]
        if got < minimum:
            msg = 'rule %s matched %d %s, below the floor %d confirmed by hand' % (rule, got, what, minimum)
            # a shortfall that is explained -- the rule already reported a violation or an undecided construct and stopped
            # early -- is not a vanished anchor; only a silent shortfall means the analysis no longer sees the code
            if any(f['rule'] == rule for f in self.findings) or self._r(rule)['undecided'] > 0:
                self.notes.append('NOTE: ' + msg + ' (explained by the reported findings / undecided constructs of the rule)')
                return
            raise AnalysisError(msg)

    def use_file(self, relpath):
        self.files.add(relpath)

    def include(self, other_pid, files, why):
        """Apply the rules of another property's check to the files this property is anchored in: a change there that breaks one of those
        rules breaks this property's behaviour as well (e.g. a stale cache behind the beam density).  Findings located in `files`
        are reported under this property with the rule id '<this>-via-<other rule>'; everything else is left to the other check."""
        import importlib
        if getattr(Run, '_nested', 0):
            return                      # an included check does not pull in further checks (two checks may include each other)
        mod = importlib.import_module('sa.rules.' + other_pid.lower())
        sub = Run(other_pid, self.tier)
        Run._nested = getattr(Run, '_nested', 0) + 1
        try:
            mod.check(sub)
        except AnalysisError as e:
            self.notes.append('NOTE: included rules of %s could not run: %s' % (other_pid, e))
            return
        finally:
            Run._nested -= 1
        rule = '%s-via-%s' % (self.pid, other_pid)
        self.describe(rule, 'rules of %s applied to %s (%s)' % (other_pid, ', '.join(sorted(files)), why))
        known = {k['key'] for k in load_known() if 'key' in k}
        hit = [f for f in sub.findings if f['file'] in files and f['key'] not in known]
        nob = sum(r['obligations'] for r in sub.rules.values())
        self.subject(rule)
        for f in hit:
            self.fail(rule, f['key'], f['file'], f['line'], f['what'] + ' [%s]' % f['rule'])
        if not hit:
            self.ok(rule, 'rules of %s' % other_pid, '%d obligations of %s evaluated; none violated in the files of this property' % (nob, other_pid))
        for f in files:
            self.use_file(f)

    # ------------------------------------------------------------------
    def finish(self):
        known = [k for k in load_known() if k.get('property') == self.pid and 'key' in k]
        known_keys = {k['key']: k for k in known}
        new = []
        seen_known = set()
        for f in self.findings:
            if f['key'] in known_keys:
                if f['key'] not in seen_known:
                    seen_known.add(f['key'])
                    print('KNOWN-FINDING: property=%s %s -- %s' % (self.pid, f['key'], f['what']))
                self._r(f['rule'])['known'] += 1
            else:
                new.append(f)
                self._r(f['rule'])['violations'] += 1
        os.makedirs(os.path.join(EVIDENCE_DIR, 'replay'), exist_ok=True)
        seenkeys = {}
        for f in new:
            n = seenkeys.setdefault(f['key'], len(seenkeys))
            path = os.path.join(EVIDENCE_DIR, 'replay', '%s_%d.json' % (self.pid, n))
            with open(path, 'w') as fh:
                json.dump(dict(property=self.pid, **f), fh, indent=1, default=str)
            print('%s:%s: %s: %s' % (f['file'], f['line'], f['rule'], f['what']))
            print('VIOLATION property=%s replay=%s' % (self.pid, path))
        for k in known:
            if k['key'] not in seen_known:
                print('NOTE: known finding no longer reported (repaired?): %s' % k['key'])
        obligations = sum(r['obligations'] for r in self.rules.values())
        discharged = sum(r['discharged'] for r in self.rules.values())
        cov = dict(
            explanation=self.explanation,
            obligations=obligations,
            discharged=discharged,
            evaluations=max(obligations, 1),
            distinct_nontrivial=len({(s['rule'], json.dumps(s['construct'], default=str)) for s in self.samples}) if False else obligations,
            rule='one evaluation = one obligation (rule instance x construct) decided from the parsed '
                 'source of /repo; all are distinct constructs; see rules{}',
            samples=self.samples[:40] or [dict(note='no obligations')],
            files_analysed=sorted(self.files),
            functions_analysed=self.functions,
            rules=self.rules,
            floors=self.floors,
            known_findings_reported=sorted(seen_known),
            violations=[dict(key=f['key'], file=f['file'], line=f['line'], what=f['what']) for f in new],
            undecided=[n for n in self.notes if n.startswith('UNDECIDED')][:50],
            renamings_undone=_renamings(),
            exhaustive=True,
            trusted_base=['Cython %s parser' % _cyver(), 'CPython ast', '/verif/sa analyses and frozen tables'],
        )
        cov.update(self.extra)
        ev = dict(property_id=self.pid, tier=self.tier, seed=int(os.environ.get('VERIF_SEED', '0') or 0),
                  level='other', coverage=cov, assumptions=self.assumptions,
                  wall_s=round(time.time() - self.t0, 3), violations=len(new))
        os.makedirs(EVIDENCE_DIR, exist_ok=True)
        with open(os.path.join(EVIDENCE_DIR, '%s.json' % self.pid), 'w') as fh:
            json.dump(ev, fh, indent=1, default=str)
        print('%s %s: files=%d obligations=%d discharged=%d known=%d violations=%d undecided=%d wall=%.2fs' % (
            self.pid, self.tier, len(self.files), obligations, discharged, len(seen_known), len(new),
            sum(r['undecided'] for r in self.rules.values()), time.time() - self.t0))
        for rule, r in sorted(self.rules.items()):
            print('  %-10s subjects=%-4d obligations=%-4d discharged=%-4d known=%d violations=%d undecided=%d' % (
                rule, r['subjects'], r['obligations'], r['discharged'], r['known'], r['violations'], r['undecided']))
        return 1 if new else 0


def _renamings():
    try:
        from . import alpha
        return ['%s: %s' % (k, '; '.join(v)) for k, v in sorted(alpha.UNDONE.items())][:60]
    except Exception:
        return []


def _cyver():
    try:
        import Cython
        return Cython.__version__
    except Exception:
        return '?'


def write_error_evidence(pid, tier, msg):
    os.makedirs(EVIDENCE_DIR, exist_ok=True)
    ev = dict(property_id=pid, tier=tier, seed=0, level='other',
              coverage=dict(explanation='ANALYSIS-ERROR: ' + msg, obligations=0, discharged=0),
              assumptions=[], wall_s=0.0, violations=0)
    with open(os.path.join(EVIDENCE_DIR, '%s.json' % pid), 'w') as fh:
        json.dump(ev, fh, indent=1)
