"""Name normalisation against the reference tree (alpha-renaming).

A pure renaming of a private attribute, a private method / helper, a module-level constant, a parameter of a private function or a
local variable changes no behaviour, yet the rules of the checks are anchored in those names.  Before a module is analysed it is
compared, function by function, with the copy of that module kept under /verif/baseline (the pinned reference the rules were written
against).  Statements are aligned on their *shape* (identifiers abstracted away); from the aligned statements a renaming is inferred and
undone, so that the rules see the names they know.  The decision is still taken on the current tree: only identifiers are rewritten, and
only when the evidence is unambiguous --

  * the new name occurs nowhere in the reference version of that scope, and the old name occurs nowhere in the current version
    (a renaming replaces a name everywhere; an edit that merely uses another existing variable is *not* a renaming and is left alone);
  * every aligned occurrence of the new name corresponds to the same old name, and no two new names map to one old name.

Renamings that were undone are listed in the evidence (Run.notes) by the caller.
"""
import ast
import copy
import difflib
import os

from .report import VERIF

BASE = os.path.join(VERIF, 'baseline')
_cache = {}
UNDONE = {}      # relpath -> what was renamed back (reported in the evidence)


def record(relpath, done):
    if done:
        UNDONE[relpath] = done


def _is_private(n):
    return n.startswith('_') and not (n.startswith('__') and n.endswith('__'))


# ------------------------------------------------------------------------------------------------- shapes
class _Abstract(ast.NodeTransformer):
    """identifiers -> placeholders; nested statement blocks dropped (a statement's shape is its header)"""

    def visit_Name(self, n):
        return ast.copy_location(ast.Name(id='N', ctx=n.ctx), n)

    def visit_arg(self, n):
        return ast.arg(arg='P', annotation=None)

    def visit_Attribute(self, n):
        self.generic_visit(n)
        if _is_private(n.attr):
            return ast.Attribute(value=n.value, attr='A', ctx=n.ctx)
        return n

    def visit_Constant(self, n):
        # messages and docstrings are reworded freely: strings count as 'a string'
        if isinstance(n.value, str):
            return ast.Constant(value='S')
        return n

    def visit_keyword(self, n):
        self.generic_visit(n)
        return n


def _header(st):
    """copy of a statement without its nested blocks"""
    h = copy.copy(st)
    for f in ('body', 'orelse', 'finalbody', 'handlers'):
        if hasattr(h, f) and isinstance(getattr(h, f), list):
            setattr(h, f, [])
    if isinstance(h, (ast.FunctionDef, ast.AsyncFunctionDef, ast.ClassDef)):
        h.decorator_list = []
    return h


def _shape(st):
    try:
        return type(st).__name__ + ':' + ast.dump(_Abstract().visit(copy.deepcopy(_header(st))), annotate_fields=False)
    except Exception:
        return type(st).__name__


def _statements(fn):
    """statements of a scope in source order, nested blocks included, nested function / class definitions excluded"""
    out = []

    def go(stmts):
        for st in stmts:
            if isinstance(st, (ast.FunctionDef, ast.AsyncFunctionDef, ast.ClassDef)):
                continue
            if isinstance(st, ast.Expr) and isinstance(st.value, ast.Constant) and isinstance(st.value.value, str):
                continue                      # docstrings
            out.append(st)
            for f in ('body', 'orelse', 'finalbody'):
                b = getattr(st, f, None)
                if isinstance(b, list) and b and isinstance(b[0], ast.stmt):
                    go(b)
            if isinstance(st, ast.Try):
                for h in st.handlers:
                    go(h.body)
    go(fn.body)
    return out


# ------------------------------------------------------------------------------------------------- scopes
def _key(fn):
    decos = [ast.unparse(d) if hasattr(ast, 'unparse') else '' for d in fn.decorator_list]
    kind = 'setter' if any(d.endswith('.setter') for d in decos) else ('getter' if 'property' in decos else 'def')
    return fn.name, kind


def _scopes(tree):
    """{(class name or '', function name, kind): FunctionDef} plus {class name: ClassDef}"""
    fns, classes = {}, {}
    for st in tree.body:
        if isinstance(st, (ast.FunctionDef, ast.AsyncFunctionDef)):
            fns[('',) + _key(st)] = st
        elif isinstance(st, ast.ClassDef):
            classes[st.name] = st
            for m in st.body:
                if isinstance(m, (ast.FunctionDef, ast.AsyncFunctionDef)):
                    fns[(st.name,) + _key(m)] = m
    return fns, classes


def _names_in(node, private_attrs=False):
    out = set()
    for n in ast.walk(node):
        if isinstance(n, ast.Name):
            out.add(n.id)
        elif isinstance(n, ast.arg):
            out.add(n.arg)
        elif private_attrs and isinstance(n, ast.Attribute) and _is_private(n.attr):
            out.add('.' + n.attr)
    return out


def _pairs(hb, hc, votes):
    """parallel walk of two headers of the same shape: (category, current identifier) -> {reference identifier: count}"""
    sb, sc = [hb], [hc]
    while sb and sc:
        b, c = sb.pop(), sc.pop()
        if type(b) is not type(c):
            continue
        if isinstance(b, ast.Name):
            votes.setdefault(('name', c.id), {}).setdefault(b.id, 0)
            votes[('name', c.id)][b.id] += 1
        elif isinstance(b, ast.arg):
            votes.setdefault(('name', c.arg), {}).setdefault(b.arg, 0)
            votes[('name', c.arg)][b.arg] += 1
        elif isinstance(b, ast.Attribute) and _is_private(b.attr) and _is_private(c.attr):
            votes.setdefault(('attr', c.attr), {}).setdefault(b.attr, 0)
            votes[('attr', c.attr)][b.attr] += 1
            if isinstance(b.value, ast.Name) and isinstance(c.value, ast.Name) and b.value.id == 'self' and c.value.id == 'self':
                votes.setdefault(('sattr', c.attr), {}).setdefault(b.attr, 0)
                votes[('sattr', c.attr)][b.attr] += 1
        kb, kc = list(ast.iter_child_nodes(b)), list(ast.iter_child_nodes(c))
        if len(kb) == len(kc):
            sb.extend(kb)
            sc.extend(kc)


def _align(fb, fc, votes):
    sb, sc = _statements(fb), _statements(fc)
    a, b = [_shape(s) for s in sb], [_shape(s) for s in sc]
    # parameters first (same arity)
    ab = [x.arg for x in fb.args.posonlyargs + fb.args.args + fb.args.kwonlyargs]
    ac = [x.arg for x in fc.args.posonlyargs + fc.args.args + fc.args.kwonlyargs]
    if len(ab) == len(ac):
        for x, y in zip(ab, ac):
            votes.setdefault(('name', y), {}).setdefault(x, 0)
            votes[('name', y)][x] += 2
    for blk in difflib.SequenceMatcher(a=a, b=b, autojunk=False).get_matching_blocks():
        for k in range(blk.size):
            _pairs(_header(sb[blk.a + k]), _header(sc[blk.b + k]), votes)
    return len(a), len(b)


def _similar(fb, fc):
    a, b = [_shape(s) for s in _statements(fb)], [_shape(s) for s in _statements(fc)]
    if not a or not b:
        return 0.0
    return difflib.SequenceMatcher(a=a, b=b, autojunk=False).ratio()


def _decide(votes, new, old):
    """new identifier -> old identifier, for unanimous, injective correspondences between vanished and new identifiers"""
    out, taken = {}, {}
    for (cat, c), vs in votes.items():
        if c not in new:
            continue
        cands = {b: k for b, k in vs.items() if b in old}
        if len(vs) != 1 or len(cands) != 1:
            continue                      # not unanimous: this is not a renaming
        b = next(iter(cands))
        if b in taken:
            out.pop(taken[b], None)       # two new names for one old name: neither
            continue
        taken[b] = c
        out[c] = b
    return out


class _Apply(ast.NodeTransformer):
    def __init__(self, names, attrs):
        self.names, self.attrs = names, attrs

    def visit_Name(self, n):
        if n.id in self.names:
            n.id = self.names[n.id]
        return n

    def visit_arg(self, n):
        if n.arg in self.names:
            n.arg = self.names[n.arg]
        return n

    def visit_Attribute(self, n):
        self.generic_visit(n)
        if n.attr in self.attrs:
            n.attr = self.attrs[n.attr]
        return n

    def visit_keyword(self, n):
        self.generic_visit(n)
        return n

    def visit_FunctionDef(self, n):
        self.generic_visit(n)
        if n.name in self.attrs:
            n.name = self.attrs[n.name]
        elif n.name in self.names:
            n.name = self.names[n.name]
        return n


class _ApplySelf(ast.NodeTransformer):
    """renames the private members of one class: self.<name>, the declared fields and the method definitions"""

    def __init__(self, m):
        self.m, self.depth = m, 0

    def visit_Attribute(self, n):
        self.generic_visit(n)
        if n.attr in self.m and isinstance(n.value, ast.Name) and n.value.id == 'self':
            n.attr = self.m[n.attr]
        return n

    def visit_ClassDef(self, n):
        if self.depth:
            return n
        self.depth += 1
        for st in n.body:
            if isinstance(st, ast.AnnAssign) and isinstance(st.target, ast.Name) and st.target.id in self.m:
                st.target.id = self.m[st.target.id]
            elif isinstance(st, ast.FunctionDef) and st.name in self.m:
                st.name = self.m[st.name]
        self.generic_visit(n)
        self.depth -= 1
        return n


def infer_and_apply(base_tree, cur_tree):
    """Rewrites cur_tree in place; returns the list of renamings undone, as text."""
    done = []
    fb, cb = _scopes(base_tree)
    fc, cc = _scopes(cur_tree)
    # ---- match functions: same key, else private functions of the same container by shape
    matched = {k: k for k in fc if k in fb}
    ub = [k for k in fb if k not in fc]
    uc = [k for k in fc if k not in fb]
    fn_ren = {}
    for kc in uc:
        if not _is_private(kc[1]):
            continue
        cands = [(kb, _similar(fb[kb], fc[kc])) for kb in ub if kb[0] == kc[0] and kb[2] == kc[2] and _is_private(kb[1])]
        cands = sorted([c for c in cands if c[1] >= 0.6], key=lambda c: -c[1])
        if cands and (len(cands) == 1 or cands[0][1] - cands[1][1] > 0.15):
            kb = cands[0][0]
            if kb not in matched.values():
                matched[kc] = kb
                fn_ren[kc[1]] = kb[1]
    # ---- module-level statements (constants, imports are not touched)
    mod_votes = {}
    mb = ast.Module(body=[s for s in base_tree.body if not isinstance(s, (ast.FunctionDef, ast.ClassDef, ast.Import, ast.ImportFrom))], type_ignores=[])
    mc = ast.Module(body=[s for s in cur_tree.body if not isinstance(s, (ast.FunctionDef, ast.ClassDef, ast.Import, ast.ImportFrom))], type_ignores=[])
    fake_b = ast.FunctionDef(name='m', args=ast.arguments(posonlyargs=[], args=[], kwonlyargs=[], kw_defaults=[], defaults=[]), body=mb.body or [ast.Pass()], decorator_list=[])
    fake_c = ast.FunctionDef(name='m', args=ast.arguments(posonlyargs=[], args=[], kwonlyargs=[], kw_defaults=[], defaults=[]), body=mc.body or [ast.Pass()], decorator_list=[])
    _align(fake_b, fake_c, mod_votes)
    # class bodies (field declarations of a pxd / cdef class)
    class_votes = {}
    for cn in cc:
        if cn in cb:
            hb = ast.FunctionDef(name='c', args=fake_b.args, body=[s for s in cb[cn].body if not isinstance(s, ast.FunctionDef)] or [ast.Pass()], decorator_list=[])
            hc = ast.FunctionDef(name='c', args=fake_b.args, body=[s for s in cc[cn].body if not isinstance(s, ast.FunctionDef)] or [ast.Pass()], decorator_list=[])
            cv = {}
            _align(hb, hc, cv)
            for (cat, c), vs in cv.items():
                # a declared field 'cdef T _x' is a Name in the class body: it is an attribute of the instances
                if cat == 'name' and _is_private(c):
                    for b, k in vs.items():
                        mod_votes.setdefault(('attr', c), {}).setdefault(b, 0)
                        mod_votes[('attr', c)][b] += k
                        class_votes.setdefault(cn, {}).setdefault(('sattr', c), {}).setdefault(b, 0)
                        class_votes[cn][('sattr', c)][b] += k
    attr_votes = {k: dict(v) for k, v in mod_votes.items() if k[0] == 'attr'}
    glob_votes = {k: dict(v) for k, v in mod_votes.items() if k[0] == 'name'}
    per_fn = {}
    for kc, kb in matched.items():
        v = {}
        _align(fb[kb], fc[kc], v)
        per_fn[kc] = v
        for (cat, c), vs in v.items():
            if cat == 'attr':
                for b, k in vs.items():
                    attr_votes.setdefault(('attr', c), {}).setdefault(b, 0)
                    attr_votes[('attr', c)][b] += k
    # ---- attributes / private methods of one class (self.<name>, declared fields, method names)
    def own(cnode):
        return {n.attr for n in ast.walk(cnode) if isinstance(n, ast.Attribute) and _is_private(n.attr)
                and isinstance(n.value, ast.Name) and n.value.id == 'self'} | \
               {m.name for m in cnode.body if isinstance(m, ast.FunctionDef) and _is_private(m.name)} | \
               {s.target.id for s in cnode.body if isinstance(s, ast.AnnAssign) and isinstance(s.target, ast.Name) and _is_private(s.target.id)}
    for cn in cc:
        if cn not in cb:
            continue
        cv = {}
        for kc, v in per_fn.items():
            if kc[0] != cn:
                continue
            for (cat, c), vs in v.items():
                if cat == 'sattr':
                    for b, k in vs.items():
                        cv.setdefault(('sattr', c), {}).setdefault(b, 0)
                        cv[('sattr', c)][b] += k
        for (cat, c), vs in class_votes.get(cn, {}).items():
            for b, k in vs.items():
                cv.setdefault(('sattr', c), {}).setdefault(b, 0)
                cv[('sattr', c)][b] += k
        oc, ob = own(cc[cn]), own(cb[cn])
        cmap = _decide(cv, oc - ob, ob - oc)
        for kc, kb in matched.items():
            if kc[0] == cn and kc[1] != kb[1] and kc[1] in oc - ob and kb[1] in ob - oc:
                cmap.setdefault(kc[1], kb[1])
        if cmap:
            _ApplySelf(cmap).visit(cc[cn])
            done.append('%s: private members %s' % (cn, ', '.join('%s->%s' % (c, b) for c, b in sorted(cmap.items()))))
    # ---- attributes / private methods: module-wide
    cur_attrs = {n.attr for n in ast.walk(cur_tree) if isinstance(n, ast.Attribute) and _is_private(n.attr)} | \
                {k[1] for k in fc if k[0] and _is_private(k[1])} | \
                {t.id for c in cc.values() for s in c.body if isinstance(s, ast.AnnAssign) and isinstance(s.target, ast.Name) for t in [s.target]}
    base_attrs = {n.attr for n in ast.walk(base_tree) if isinstance(n, ast.Attribute) and _is_private(n.attr)} | \
                 {k[1] for k in fb if k[0] and _is_private(k[1])} | \
                 {t.id for c in cb.values() for s in c.body if isinstance(s, ast.AnnAssign) and isinstance(s.target, ast.Name) for t in [s.target]}
    amap = _decide(attr_votes, cur_attrs - base_attrs, base_attrs - cur_attrs)
    for kc, kb in matched.items():
        if kc[0] and kc[1] != kb[1] and kc[1] not in base_attrs and kb[1] not in cur_attrs:
            amap.setdefault(kc[1], kb[1])          # a renamed private method: its call sites are self.<name>
    # ---- module-level names (constants, private functions)
    cur_glob = {t.id for s in cur_tree.body if isinstance(s, (ast.Assign, ast.AnnAssign)) for t in ast.walk(s) if isinstance(t, ast.Name) and isinstance(t.ctx, ast.Store)} | \
               {k[1] for k in fc if not k[0]}
    base_glob = {t.id for s in base_tree.body if isinstance(s, (ast.Assign, ast.AnnAssign)) for t in ast.walk(s) if isinstance(t, ast.Name) and isinstance(t.ctx, ast.Store)} | \
                {k[1] for k in fb if not k[0]}
    for kc, v in per_fn.items():
        for (cat, c), vs in v.items():
            if cat == 'name' and c in cur_glob:
                for b, k in vs.items():
                    glob_votes.setdefault(('name', c), {}).setdefault(b, 0)
                    glob_votes[('name', c)][b] += k
    gmap = _decide(glob_votes, cur_glob - base_glob, base_glob - cur_glob)
    for c, b in fn_ren.items():
        if c in cur_glob and b not in cur_glob and b in base_glob:
            gmap.setdefault(c, b)
    # ---- locals and parameters, per function
    for kc, kb in matched.items():
        fcur, fbase = fc[kc], fb[kb]
        nc, nb = _names_in(fcur), _names_in(fbase)
        lmap = _decide({k: v for k, v in per_fn[kc].items() if k[0] == 'name'}, (nc - nb) - cur_glob, (nb - nc) - base_glob)
        # parameters of public functions are part of the interface (keyword arguments): never renamed back
        if not _is_private(kc[1]) and kc[2] == 'def':
            pub = {a.arg for a in fcur.args.posonlyargs + fcur.args.args + fcur.args.kwonlyargs}
            lmap = {c: b for c, b in lmap.items() if c not in pub}
        if lmap:
            _Apply(lmap, {}).visit(fcur)
            done.append('%s%s: locals %s' % ((kc[0] + '.') if kc[0] else '', kc[1], ', '.join('%s->%s' % (c, b) for c, b in sorted(lmap.items()))))
    if amap or gmap:
        _Apply(gmap, amap).visit(cur_tree)
        if amap:
            done.append('private attributes / methods %s' % ', '.join('%s->%s' % (c, b) for c, b in sorted(amap.items())))
        if gmap:
            done.append('module-level names %s' % ', '.join('%s->%s' % (c, b) for c, b in sorted(gmap.items())))
    ast.fix_missing_locations(cur_tree)
    return done


# ------------------------------------------------------------------------------------------------- import style
def _imports(tree, relpath):
    from .program import ModuleInfo
    name = relpath.rsplit('.', 1)[0].replace(os.sep, '.')
    if name.endswith('.__init__'):
        name = name[:-9]
    return ModuleInfo(relpath, tree, name).imports


def _chain(n):
    parts = []
    while isinstance(n, ast.Attribute):
        parts.append(n.attr)
        n = n.value
    if isinstance(n, ast.Name):
        parts.append(n.id)
        return list(reversed(parts))
    return None


def unify_imports(base_tree, cur_tree, relpath):
    """`import pkg.mod as m; m.f(...)` and `from pkg.mod import f; f(...)` name the same object.  Where the current module reaches an
    object through another spelling than the reference module did, the reference spelling is restored (and the import added), so the
    rules, which look for the call `f(...)` / `np.f(...)`, see it.  Only names whose *qualified* target is identical are touched."""
    bi, ci = _imports(base_tree, relpath), _imports(cur_tree, relpath)
    if bi == ci:
        return []
    by_qual = {}
    for local, qual in bi.items():
        by_qual.setdefault(qual, local)
    bound = {n.id for n in ast.walk(cur_tree) if isinstance(n, ast.Name) and isinstance(n.ctx, ast.Store)} | \
            {a.arg for a in ast.walk(cur_tree) if isinstance(a, ast.arg)} | \
            {s.name for s in ast.walk(cur_tree) if isinstance(s, (ast.FunctionDef, ast.ClassDef))}
    added, done = {}, []

    def usable(local, qual):
        return local not in bound and ci.get(local, qual) == qual

    class T(ast.NodeTransformer):
        def visit_Attribute(self, n):
            ch = _chain(n)
            if ch and ch[0] in ci and ch[0] not in bound:
                full = ci[ch[0]].split('.') + ch[1:]
                # longest prefix of the chain that the reference module imported under a simple name
                for k in range(len(full), 0, -1):
                    qual = '.'.join(full[:k])
                    rest = full[k:]
                    consumed = len(ch) - len(rest)
                    if consumed < 2 and not (consumed == 1 and by_qual.get(qual) != ch[0]):
                        continue
                    local = by_qual.get(qual)
                    if local and '.' not in local and usable(local, qual) and local != ch[0]:
                        added[local] = qual
                        new = ast.Name(id=local, ctx=ast.Load())
                        for a in rest:
                            new = ast.Attribute(value=new, attr=a, ctx=ast.Load())
                        new.ctx = n.ctx
                        return ast.copy_location(new, n)
            self.generic_visit(n)
            return n

        def visit_Name(self, n):
            if isinstance(n.ctx, ast.Load) and n.id in ci and n.id not in bound and n.id not in bi:
                qual = ci[n.id]
                if qual in by_qual and usable(by_qual[qual], qual):
                    added[by_qual[qual]] = qual
                    return ast.copy_location(ast.Name(id=by_qual[qual], ctx=n.ctx), n)
                if '.' in qual:
                    mod, simple = qual.rsplit('.', 1)
                    local = by_qual.get(mod)
                    if local and usable(local, mod):
                        added[local] = mod
                        return ast.copy_location(ast.Attribute(value=ast.Name(id=local, ctx=ast.Load()), attr=simple, ctx=n.ctx), n)
            return n

    T().visit(cur_tree)
    pos = 0
    for k, st in enumerate(cur_tree.body):
        if isinstance(st, (ast.Import, ast.ImportFrom)):
            pos = k + 1
    for local, qual in sorted(added.items()):
        if ci.get(local) == qual:
            continue
        if '.' in qual:
            mod, simple = qual.rsplit('.', 1)
            st = ast.ImportFrom(module=mod, names=[ast.alias(name=simple, asname=None if simple == local else local)], level=0)
        else:
            st = ast.Import(names=[ast.alias(name=qual, asname=None if qual == local else local)])
        st.cy_cimport = False
        cur_tree.body.insert(pos, st)
        pos += 1
        done.append('%s = %s' % (local, qual))
    ast.fix_missing_locations(cur_tree)
    return ['import spelling restored: ' + ', '.join(done)] if done else []


# ------------------------------------------------------------------------------------------------- entry point
def _base_tree(relpath):
    if relpath in _cache:
        return _cache[relpath]
    full = os.path.join(BASE, relpath)
    tree = None
    if os.path.exists(full):
        try:
            if relpath.endswith('.py'):
                with open(full, encoding='utf-8') as fh:
                    tree = ast.parse(fh.read(), filename=relpath)
            else:
                from . import cy2ast
                tree = cy2ast.lower_file(BASE, relpath)
        except Exception:
            tree = None
    _cache[relpath] = tree
    return tree


def normalise(root, relpath, tree):
    """Called by Program.load: undo pure renamings relative to the reference copy of the module.  Returns the list of what was undone."""
    if os.environ.get('VERIF_NO_ALPHA'):
        return []
    bfile, cfile = os.path.join(BASE, relpath), os.path.join(root, relpath)
    if not os.path.exists(bfile):
        return []
    try:
        with open(bfile, 'rb') as a, open(cfile, 'rb') as b:
            if a.read() == b.read():
                return []
    except OSError:
        return []
    base = _base_tree(relpath)
    if base is None:
        return []
    out = []
    try:
        out += unify_imports(base, tree, relpath)
    except RecursionError:
        pass
    try:
        out += infer_and_apply(copy.deepcopy(base), tree)
    except RecursionError:
        pass
    return out
