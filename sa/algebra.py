"""Exact rational-function normal forms and a small symbolic interpreter over ast.

Expressions over + - * / **int and opaque leaves are normalised to quotients of
multivariate polynomials with Fraction coefficients.  Equality of A/B and C/D
is decided by A*D == C*B (exact polynomial identity; no solver, no sampling).
Float literals are read from their shortest decimal text (0.25 -> 1/4).
"""
import ast
from fractions import Fraction

from .program import dotted, norm


class Poly(dict):
    __slots__ = ()

    @staticmethod
    def const(c):
        c = Fraction(c)
        return Poly({(): c}) if c != 0 else Poly()

    @staticmethod
    def leaf(name):
        return Poly({((name, 1),): Fraction(1)})

    def __add__(a, b):
        r = Poly(a)
        for m, c in b.items():
            v = r.get(m, 0) + c
            if v == 0:
                r.pop(m, None)
            else:
                r[m] = v
        return r

    def __neg__(a):
        return Poly({m: -c for m, c in a.items()})

    def __sub__(a, b):
        return a + (-b)

    def __mul__(a, b):
        r = {}
        for m1, c1 in a.items():
            for m2, c2 in b.items():
                if not m1:
                    m = m2
                elif not m2:
                    m = m1
                else:
                    d = dict(m1)
                    for v, e in m2:
                        d[v] = d.get(v, 0) + e
                    m = tuple(sorted(d.items()))
                v = r.get(m, 0) + c1 * c2
                if v == 0:
                    r.pop(m, None)
                else:
                    r[m] = v
        return Poly(r)

    def scale(a, c):
        return Poly({m: v * c for m, v in a.items()}) if c != 0 else Poly()

    def is_const(a):
        return all(m == () for m in a)

    def const_value(a):
        return a.get((), Fraction(0))

    def leaves(a):
        return {v for m in a for v, e in m}

    def degree_in(a, leaf):
        return max([dict(m).get(leaf, 0) for m in a] or [0])

    def __str__(s):
        if not s:
            return '0'
        parts = []
        for m, c in sorted(s.items(), key=lambda kv: str(kv[0])):
            mon = '*'.join('%s%s' % (v, '^%d' % e if e != 1 else '') for v, e in m)
            if not m:
                parts.append(str(c))
            elif c == 1:
                parts.append(mon)
            else:
                parts.append('%s*%s' % (c, mon))
        return ' + '.join(parts)


ONE = Poly.const(1)


class Rat:
    __slots__ = ('n', 'd')

    def __init__(s, n, d=None):
        s.n = n
        s.d = d if d is not None else ONE
        if len(s.d) == 1:
            # monomial denominator: fold its coefficient, cancel common monomial powers
            (m, c), = s.d.items()
            if c != 1:
                s.n = s.n.scale(1 / c)
                s.d = Poly({m: Fraction(1)})
            if m and s.n:
                dm = dict(m)
                common = {}
                for v, e in dm.items():
                    k = min([dict(mm).get(v, 0) for mm in s.n])
                    k = min(k, e)
                    if k > 0:
                        common[v] = k
                if common:
                    def red(mm):
                        d2 = dict(mm)
                        for v, k in common.items():
                            d2[v] -= k
                            if d2[v] == 0:
                                del d2[v]
                        return tuple(sorted(d2.items()))
                    s.n = Poly({red(mm): c2 for mm, c2 in s.n.items()})
                    s.d = Poly({red(m): Fraction(1)})
        if not s.n:
            s.d = ONE

    def __add__(a, b):
        b = R(b)
        if a.d == b.d:
            return Rat(a.n + b.n, a.d)
        return Rat(a.n * b.d + b.n * a.d, a.d * b.d)

    __radd__ = __add__

    def __sub__(a, b):
        b = R(b)
        if a.d == b.d:
            return Rat(a.n - b.n, a.d)
        return Rat(a.n * b.d - b.n * a.d, a.d * b.d)

    def __rsub__(a, b):
        return R(b) - a

    def __mul__(a, b):
        b = R(b)
        return Rat(a.n * b.n, a.d * b.d)

    __rmul__ = __mul__

    def __truediv__(a, b):
        b = R(b)
        if not b.n:
            raise ZeroDivisionError('symbolic division by zero')
        return Rat(a.n * b.d, a.d * b.n)

    def __rtruediv__(a, b):
        return R(b) / a

    def __neg__(a):
        return Rat(-a.n, a.d)

    def __pow__(a, k):
        if k < 0:
            return (C(1) / a) ** (-k)
        r = C(1)
        for _ in range(k):
            r = r * a
        return r

    def eq(a, b):
        b = R(b)
        return not (a.n * b.d - b.n * a.d)

    def is_zero(a):
        return not a.n

    def is_const(a):
        return a.n.is_const() and a.d.is_const()

    def const_value(a):
        return a.n.const_value() / a.d.const_value()

    def leaves(a):
        return a.n.leaves() | a.d.leaves()

    def key(s):
        if s.d == ONE:
            return str(s.n)
        return '(%s)/(%s)' % (s.n, s.d)

    __str__ = key
    __repr__ = key

    def subst(s, mapping):
        """mapping: leaf name -> Rat. Exact substitution."""
        def sp(p):
            tot = C(0)
            for m, c in p.items():
                t = C(c)
                for v, e in m:
                    t = t * (mapping[v] if v in mapping else L(v)) ** e
                tot = tot + t
            return tot
        return sp(s.n) / sp(s.d)


def C(c):
    return Rat(Poly.const(c))


def L(name):
    return Rat(Poly.leaf(name))


def R(x):
    if isinstance(x, Rat):
        return x
    if isinstance(x, (int, Fraction)):
        return C(x)
    if isinstance(x, float):
        return C(Fraction(repr(x)))
    raise TypeError('cannot lift %r' % (x,))


def fraction_of_constant(node):
    v = node.value
    if isinstance(v, bool):
        return None
    if isinstance(v, int):
        return Fraction(v)
    if isinstance(v, float):
        txt = getattr(node, 'cy_text', None)
        if txt:
            t = txt.rstrip('fF')
            if t.endswith('.'):
                t += '0'
            if t.startswith('.'):
                t = '0' + t
            try:
                return Fraction(t)
            except ValueError:
                pass
        return Fraction(repr(v))
    return None


class Undecided(Exception):
    pass


class SymEval:
    """Expression evaluator: ast expr -> Rat.  Subclass hooks: call(), attribute(), name(), subscript()."""

    POW_FUNCS = {'sqrt': Fraction(1, 2)}

    def __init__(self, env=None):
        self.env = dict(env or {})
        self.sqrt_args = {}    # leaf name -> Rat argument (so sqrt(x)**2 can be reduced on request)

    def ev(self, n):
        if isinstance(n, ast.Constant):
            f = fraction_of_constant(n)
            if f is None:
                return L('const:%r' % (n.value,))
            return C(f)
        if isinstance(n, ast.Name):
            return self.name(n)
        if isinstance(n, ast.Attribute):
            return self.attribute(n)
        if isinstance(n, ast.UnaryOp):
            if isinstance(n.op, ast.USub):
                return -self.ev(n.operand)
            if isinstance(n.op, ast.UAdd):
                return self.ev(n.operand)
        if isinstance(n, ast.BinOp):
            if isinstance(n.op, ast.Pow):
                b = self.ev(n.left)
                e = self.ev(n.right)
                if e.is_const() and e.const_value().denominator == 1:
                    return b ** int(e.const_value())
                if e.is_const() and e.const_value() == Fraction(1, 2):
                    return self.sqrt(b)
                return L('pow(%s,%s)' % (b.key(), e.key()))
            a, b = self.ev(n.left), self.ev(n.right)
            if isinstance(n.op, ast.Add):
                return a + b
            if isinstance(n.op, ast.Sub):
                return a - b
            if isinstance(n.op, ast.Mult):
                return a * b
            if isinstance(n.op, ast.Div):
                return a / b
            return L('%s(%s,%s)' % (type(n.op).__name__, a.key(), b.key()))
        if isinstance(n, ast.Call):
            return self.call(n)
        if isinstance(n, ast.Subscript):
            return self.subscript(n)
        if isinstance(n, ast.IfExp):
            return self.ifexp(n)
        return L('?' + norm(n))

    def sqrt(self, arg):
        if arg.is_const():
            v = arg.const_value()
            import math
            for x in (v.numerator, v.denominator):
                if math.isqrt(x) ** 2 != x:
                    break
            else:
                return C(Fraction(math.isqrt(v.numerator), math.isqrt(v.denominator)))
        name = 'sqrt(%s)' % arg.key()
        self.sqrt_args[name] = arg
        return L(name)

    def name(self, n):
        if n.id in self.env:
            return R(self.env[n.id])
        return L(n.id)

    def attribute(self, n):
        d = dotted(n)
        if d is not None:
            if d in self.env:
                return R(self.env[d])
            return L(d)
        return L(norm(n))

    def args_key(self, n):
        parts = [self.ev(a).key() for a in n.args]
        parts += ['%s=%s' % (k.arg, self.ev(k.value).key()) for k in n.keywords]
        return ', '.join(parts)

    def call(self, n):
        f = dotted(n.func)
        if f == '__cast__':
            return self.ev(n.args[1])
        if f in ('sqrt', 'math.sqrt', 'np.sqrt', 'libc.math.sqrt') and len(n.args) == 1:
            return self.sqrt(self.ev(n.args[0]))
        if f in ('float', 'int') and len(n.args) == 1:
            return self.ev(n.args[0])
        fname = f if f is not None else norm(n.func)
        return L('%s(%s)' % (fname, self.args_key(n)))

    def subscript(self, n):
        base = self.ev(n.value).key()
        sl = n.slice
        idx = sl.elts if isinstance(sl, ast.Tuple) else [sl]
        return L('%s[%s]' % (base, ','.join(self.ev(i).key() if not isinstance(i, ast.Slice) else norm(i) for i in idx)))

    def ifexp(self, n):
        return L('ifexp(%s)' % norm(n))

    def reduce_sqrt(self, r):
        """Rewrite sqrt(x)^2 -> x inside a Rat (even powers only)."""
        def rp(p):
            tot = C(0)
            for m, c in p.items():
                t = C(c)
                for v, e in m:
                    if v in self.sqrt_args and e >= 2:
                        t = t * self.sqrt_args[v] ** (e // 2)
                        if e % 2:
                            t = t * L(v)
                    else:
                        t = t * L(v) ** e
                tot = tot + t
            return tot
        for _ in range(4):
            r2 = rp(r.n) / rp(r.d)
            if r2.key() == r.key():
                break
            r = r2
        return r


def deriv_poly(p, rules, const_leaves=()):
    """Formal derivative of a polynomial; rules: leaf -> Rat (its derivative).
    Leaves in const_leaves differentiate to 0; any other leaf raises Undecided."""
    tot = C(0)
    for m, c in p.items():
        for i, (v, e) in enumerate(m):
            if v in const_leaves:
                continue
            if v not in rules:
                raise Undecided('no derivation rule for leaf %s' % v)
            rest = C(c * e)
            for j, (v2, e2) in enumerate(m):
                rest = rest * L(v2) ** (e2 - 1 if j == i else e2)
            tot = tot + rest * rules[v]
    return tot


def deriv(r, rules, const_leaves=()):
    dn = deriv_poly(r.n, rules, const_leaves)
    dd = deriv_poly(r.d, rules, const_leaves)
    return (dn * Rat(r.d) - Rat(r.n) * dd) / (Rat(r.d) * Rat(r.d))


def coeff_of(r, leaf):
    """Coefficient of leaf^1 in r (r must be affine in leaf with leaf-free denominator)."""
    if leaf in r.d.leaves():
        raise Undecided('denominator depends on %s' % leaf)
    out = Poly()
    for m, c in r.n.items():
        d = dict(m)
        e = d.pop(leaf, 0)
        if e == 1:
            out = out + Poly({tuple(sorted(d.items())): c})
        elif e > 1:
            raise Undecided('not affine in %s' % leaf)
    return Rat(out, r.d)


def run_block(ev, stmts, records=None, follow_if=False):
    """Straight-line symbolic execution: assignments update ev.env (keys: names, dotted attributes and
    normalised subscript texts); loops are executed once with a symbolic loop variable; every store is
    appended to `records` as (target_text, Rat, stmt)."""
    for st in stmts:
        if isinstance(st, ast.Assign) and len(st.targets) == 1 and isinstance(st.targets[0], (ast.Tuple, ast.List)) \
                and isinstance(st.value, (ast.Tuple, ast.List)) and len(st.value.elts) == len(st.targets[0].elts):
            vals = [ev.ev(v) for v in st.value.elts]
            for t, v in zip(st.targets[0].elts, vals):
                _store(ev, t, v, st, records)
        elif isinstance(st, ast.Assign):
            try:
                val = ev.ev(st.value)
            except Exception:
                val = L('?' + norm(st.value))
            for t in st.targets:
                _store(ev, t, val, st, records)
        elif isinstance(st, ast.AnnAssign) and st.value is not None:
            _store(ev, st.target, ev.ev(st.value), st, records)
        elif isinstance(st, ast.AugAssign):
            key = dotted(st.target) or norm(st.target)
            cur = ev.ev(st.target)
            rhs = ev.ev(st.value)
            if isinstance(st.op, ast.Add):
                val = cur + rhs
            elif isinstance(st.op, ast.Sub):
                val = cur - rhs
            elif isinstance(st.op, ast.Mult):
                val = cur * rhs
            elif isinstance(st.op, ast.Div):
                val = cur / rhs
            else:
                val = L('?aug')
            ev.env[key] = val
            if records is not None:
                records.append((key, val, st))
        elif isinstance(st, ast.For):
            run_block(ev, st.body, records, follow_if)
        elif isinstance(st, ast.If) and follow_if:
            run_block(ev, st.body, records, follow_if)
            run_block(ev, st.orelse, records, follow_if)
        elif isinstance(st, ast.Expr) and records is not None and isinstance(st.value, ast.Call):
            records.append(('call:' + (dotted(st.value.func) or norm(st.value.func)), st.value, st))


def _store(ev, t, val, st, records):
    if isinstance(t, (ast.Tuple, ast.List)):
        for i, e in enumerate(t.elts):
            _store(ev, e, L('%s#%d' % (val.key(), i)), st, records)
        return
    key = dotted(t)
    if key is None and isinstance(t, ast.Subscript):
        sl = t.slice
        idx = sl.elts if isinstance(sl, ast.Tuple) else [sl]
        key = '%s[%s]' % (dotted(t.value) or norm(t.value), ','.join(ev.ev(i).key() if not isinstance(i, ast.Slice) else norm(i) for i in idx))
    if key is None:
        key = norm(t)
    ev.env[key] = val
    if records is not None:
        records.append((key, val, st))
