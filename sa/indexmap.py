"""Affine index maps: which element of a sequential value stream ends up at which index of an array.

An array is (stream id, dims, offset) where offset is an exact polynomial in the index leaves i0, i1, ... giving the
position in the stream of the element at that index.  Slicing, reshape (row-major), transposition and element-wise
conversions are interpreted; anything else makes the value unknown.  Used to decide axis order clauses
("rates[density, temperature]") independently of how the code spells them.
"""
import ast

from .program import dotted, norm
from .algebra import SymEval, C, L, Rat

ELEMENTWISE = ('np.array', 'np.asarray', 'numpy.array', 'numpy.asarray', 'np.float64', 'np.ascontiguousarray', 'list', 'tuple', 'np.copy')


class Arr:
    def __init__(self, stream, dims, off):
        self.stream, self.dims, self.off = stream, list(dims), off

    def key(self):
        return '%s dims=(%s) off=%s' % (self.stream, ', '.join(d.key() if d is not None else '?' for d in self.dims), self.off.key())


def I(k):
    return L('i%d' % k)


class ArrEval:
    """count(expr) -> Rat for sizes; value(expr) -> Arr | None"""

    def __init__(self, count_leaf=None, elementwise=()):
        self.env = {}            # name -> Arr
        self.counts = {}         # name -> Rat
        self.count_leaf = count_leaf or (lambda e: None)
        self.elementwise = tuple(elementwise)
        self.fresh = 0

    # ---- sizes
    def count(self, e):
        ev = self

        class CE(SymEval):
            def name(self, n):
                if n.id in ev.counts:
                    return ev.counts[n.id]
                return L(n.id)

            def call(self, n):
                r = ev.count_leaf(n)
                if r is not None:
                    return r
                if dotted(n.func) == 'int' and len(n.args) == 1:
                    return self.ev(n.args[0])
                if dotted(n.func) == 'len' and len(n.args) == 1:
                    a = ev.value(n.args[0])
                    if a is not None and len(a.dims) >= 1 and a.dims[0] is not None:
                        return a.dims[0]
                return L('?%s' % norm(n))

            def subscript(self, n):
                r = ev.count_leaf(n)
                if r is not None:
                    return r
                return L('?%s' % norm(n))

            def attribute(self, n):
                if n.attr == 'size':
                    a = ev.value(n.value)
                    if a is not None and all(d is not None for d in a.dims):
                        out = C(1)
                        for d in a.dims:
                            out = out * d
                        return out
                return L('?%s' % norm(n))
        return CE().ev(e)

    def new_stream(self, tag, n=None):
        self.fresh += 1
        return Arr('%s#%d' % (tag, self.fresh), [n], I(0))

    # ---- arrays
    def value(self, e):
        if isinstance(e, ast.Name):
            return self.env.get(e.id)
        if isinstance(e, ast.Call):
            d = dotted(e.func) or ''
            f = e.func
            if (d in ELEMENTWISE or d in self.elementwise or d.endswith(('.to', '.inv'))) and e.args:
                return self.value(e.args[0])
            if isinstance(f, ast.Attribute) and f.attr in ('copy', 'astype', 'tolist') :
                return self.value(f.value)
            if isinstance(f, ast.Attribute) and f.attr == 'reshape':
                return self._reshape(self.value(f.value), e.args[0] if len(e.args) == 1 else ast.Tuple(elts=list(e.args), ctx=ast.Load()))
            if d in ('np.reshape', 'numpy.reshape') and len(e.args) == 2:
                return self._reshape(self.value(e.args[0]), e.args[1])
            if d in ('np.swapaxes', 'numpy.swapaxes') and len(e.args) == 3 and sorted(norm(a) for a in e.args[1:]) == ['0', '1']:
                return self._swap(self.value(e.args[0]))
            if d in ('np.transpose', 'numpy.transpose') and len(e.args) == 1:
                return self._swap(self.value(e.args[0]))
            if isinstance(f, ast.Attribute) and f.attr in ('transpose', 'swapaxes'):
                if f.attr == 'transpose' and not e.args or f.attr == 'swapaxes' and sorted(norm(a) for a in e.args) == ['0', '1']:
                    return self._swap(self.value(f.value))
            return None
        if isinstance(e, ast.Attribute) and e.attr == 'T':
            return self._swap(self.value(e.value))
        if isinstance(e, ast.BinOp) and isinstance(e.op, (ast.Mult, ast.Div)):
            # scaling by a scalar keeps the index map
            a, b = self.value(e.left), self.value(e.right)
            if a is not None and b is None:
                return a
            if b is not None and a is None and isinstance(e.op, ast.Mult):
                return b
            return None
        if isinstance(e, ast.Subscript):
            a = self.value(e.value)
            if a is None or len(a.dims) != 1 or not isinstance(e.slice, ast.Slice) or e.slice.step is not None:
                return None
            lo = C(0) if e.slice.lower is None else self.count(e.slice.lower)
            hi = a.dims[0] if e.slice.upper is None else self.count(e.slice.upper)
            n = (hi - lo) if hi is not None else None
            return Arr(a.stream, [n], a.off.subst({'i0': I(0) + lo}))
        return None

    def _reshape(self, a, shape):
        if a is None or len(a.dims) != 1 or not isinstance(shape, (ast.Tuple, ast.List)):
            return None
        ds = [self.count(x) for x in shape.elts]
        lin = C(0)
        for k, dk in enumerate(ds):
            lin = lin * dk + I(k)
        return Arr(a.stream, ds, a.off.subst({'i0': lin}))

    def _swap(self, a):
        if a is None or len(a.dims) != 2:
            return a if a is not None and len(a.dims) == 1 else None
        return Arr(a.stream, [a.dims[1], a.dims[0]], a.off.subst({'i0': I(1), 'i1': I(0)}))
