"""Abstract tracer for the JSON rate repository code (dict shapes, path templates, file events).

A function is *traced* (abstractly executed once, all branches, loops once per
abstract entry) with its parameters bound to symbols or to abstract values
supplied by the caller.  Nothing from /repo is executed: this is an interpreter
over ast with a small abstract domain.  It records events:

  ('open', path, mode, node)             ('dump', value, path, node)
  ('mkdir', path, node)                  ('store', container, keychain, record_keys, node)
  ('load-key', container, keychain, node)('record-read', container, keychain, key, node)
  ('iterate-opaque', what, node)         ('leaf-subscript', what, key, node)
  ('raise', exc, node)                   ('call', fname, bound, node)
"""
import ast

from .program import dotted, norm


class V:
    syms = frozenset()

    def txt(self):
        return '?'

    def __repr__(self):
        return self.txt()


class Const(V):
    def __init__(self, value):
        self.value = value

    def txt(self):
        return repr(self.value)


class Sym(V):
    def __init__(self, name):
        self.name = name
        self.syms = frozenset([name])

    def txt(self):
        return self.name


class Ex(V):
    def __init__(self, text, syms=()):
        self.text = text
        self.syms = frozenset(syms)

    def txt(self):
        return self.text


class DictV(V):
    def __init__(self, entries=None, recursive=False):
        self.entries = list(entries or [])
        self.recursive = recursive
        self.syms = frozenset()

    def get(self, key, vivify=False):
        for k, v in self.entries:
            if k.txt() == key.txt():
                return v
        if vivify:
            d = DictV(recursive=True)
            self.entries.append((key, d))
            return d
        return None

    def set(self, key, val):
        for i, (k, v) in enumerate(self.entries):
            if k.txt() == key.txt():
                self.entries[i] = (k, val)
                return
        self.entries.append((key, val))

    def txt(self):
        return '{%s}' % ', '.join('%s: %s' % (k.txt(), v.txt()) for k, v in self.entries)

    def const_keys(self):
        return [k.value for k, v in self.entries if isinstance(k, Const)]


class Tree(V):
    """Unknown nested mapping handed to a consumer (parameter of update_*)."""

    def __init__(self, root, depth=0):
        self.root = root
        self.depth = depth
        self.syms = frozenset([root])

    def txt(self):
        return '%s@%d' % (self.root, self.depth)


class TreeKey(V):
    def __init__(self, root, depth, name):
        self.root = root
        self.depth = depth
        self.name = name
        self.syms = frozenset([name])

    def txt(self):
        return self.name


class Fmt(V):
    def __init__(self, fmt, args):
        self.fmt = fmt
        self.args = args
        s = set()
        for a in args:
            s |= a.syms
        self.syms = frozenset(s)

    def resolved(self):
        """Substitute constant arguments into the template; returns (template, remaining args)."""
        out, rest = '', []
        parts = _split_fmt(self.fmt)
        auto = 0
        for lit, field in parts:
            out += lit
            if field is None:
                continue
            if field == '':
                idx = auto
                auto += 1
            else:
                try:
                    idx = int(field)
                except ValueError:
                    idx = None
            a = self.args[idx] if idx is not None and idx < len(self.args) else None
            if isinstance(a, Const):
                out += str(a.value)
            else:
                out += '{}'
                rest.append(a)
        return out, rest

    def txt(self):
        t, rest = self.resolved()
        return "'%s'.format(%s)" % (t, ', '.join(a.txt() if a is not None else '?' for a in rest))


def _split_fmt(fmt):
    import string
    out = []
    for lit, field, spec, conv in string.Formatter().parse(fmt):
        out.append((lit, field))
    return out


class Join(V):
    def __init__(self, parts):
        self.parts = parts
        s = set()
        for a in parts:
            s |= a.syms
        self.syms = frozenset(s)

    def txt(self):
        return 'join(%s)' % ', '.join(p.txt() for p in self.parts)


class FileH(V):
    def __init__(self, path, mode):
        self.path = path
        self.mode = mode

    def txt(self):
        return 'file(%s,%s)' % (self.path.txt(), self.mode)


class Content(V):
    """Content of a JSON file: loaded from `path` and/or starting empty."""

    def __init__(self, path=None, loaded=False, empty=False):
        self.path = path
        self.loaded = loaded
        self.empty = empty
        self.syms = path.syms if path is not None else frozenset()

    def txt(self):
        return 'content(%s%s%s)' % ('loaded ' if self.loaded else '', 'or-empty ' if self.empty else '',
                                    self.path.txt() if self.path is not None else '')


class Item(V):
    """An item reached inside a loaded file by a key chain."""

    def __init__(self, content, chain):
        self.content = content
        self.chain = chain
        s = set(content.syms)
        for c in chain:
            s |= c.syms
        self.syms = frozenset(s)

    def txt(self):
        return '%s[%s]' % (self.content.txt(), ']['.join(c.txt() for c in self.chain))


class Tracer:
    def __init__(self, resolver, max_depth=6):
        """resolver(name, module) -> (FunctionDef, ModuleInfo) or None for package functions."""
        self.resolver = resolver
        self.events = []
        self.max_depth = max_depth
        self.stack = []

    # ---------------------------------------------------------------- API
    def trace(self, fn, mod, bindings=None, depth=0):
        env = {}
        params = [a.arg for a in fn.args.posonlyargs + fn.args.args + fn.args.kwonlyargs]
        defaults = {}
        pos = fn.args.posonlyargs + fn.args.args
        for a, d in zip(pos[len(pos) - len(fn.args.defaults):], fn.args.defaults):
            defaults[a.arg] = d
        for p in params:
            if bindings and p in bindings:
                env[p] = bindings[p]
            elif bindings is not None and p in defaults:
                env[p] = self.ev(defaults[p], {}, mod)
            else:
                env[p] = Sym(p)
        frame = dict(fn=fn, mod=mod, ret=None, locals={}, depth=depth)
        self.stack.append(frame)
        try:
            self.block(fn.body, env, frame)
        finally:
            self.stack.pop()
        return frame['ret'] if frame['ret'] is not None else Const(None)

    def emit(self, *e):
        self.events.append(e)

    # ---------------------------------------------------------------- statements
    def block(self, stmts, env, fr):
        for st in stmts:
            self.stmt(st, env, fr)

    def stmt(self, st, env, fr):
        mod = fr['mod']
        if isinstance(st, ast.Expr):
            if isinstance(st.value, ast.Constant):
                return
            self.ev(st.value, env, mod, fr)
        elif isinstance(st, ast.Assign):
            val = self.ev(st.value, env, mod, fr)
            for t in st.targets:
                self.assign(t, val, env, fr, st)
        elif isinstance(st, ast.AugAssign):
            self.ev(st.value, env, mod, fr)
        elif isinstance(st, ast.AnnAssign):
            if st.value is not None:
                self.assign(st.target, self.ev(st.value, env, mod, fr), env, fr, st)
        elif isinstance(st, ast.FunctionDef):
            fr['locals'][st.name] = st
        elif isinstance(st, ast.Return):
            v = self.ev(st.value, env, mod, fr) if st.value is not None else Const(None)
            if fr['ret'] is None:
                fr['ret'] = v
        elif isinstance(st, ast.Raise):
            exc = st.exc.func if isinstance(st.exc, ast.Call) else st.exc
            self.emit('raise', dotted(exc) if exc is not None else None, st)
        elif isinstance(st, ast.If):
            self.ev(st.test, env, mod, fr)
            self.block(st.body, env, fr)
            self.block(st.orelse, env, fr)
        elif isinstance(st, ast.For):
            self.loop(st, env, fr)
        elif isinstance(st, ast.While):
            self.block(st.body, env, fr)
        elif isinstance(st, ast.With):
            for item in st.items:
                v = self.ev(item.context_expr, env, mod, fr)
                if item.optional_vars is not None:
                    self.assign(item.optional_vars, v, env, fr, st)
            self.block(st.body, env, fr)
        elif isinstance(st, ast.Try):
            before = dict(env)
            self.block(st.body, env, fr)
            body_env = dict(env)
            for h in st.handlers:
                henv = dict(before)
                self.block(h.body, henv, fr)
                hname = dotted(h.type) if h.type is not None and not isinstance(h.type, ast.Tuple) else None
                for k in set(body_env) | set(henv):
                    b, hv = body_env.get(k), henv.get(k)
                    if isinstance(b, Content) and b.loaded and isinstance(hv, DictV) and not hv.entries:
                        env[k] = Content(b.path, loaded=True, empty=True)
                    elif k not in body_env and hv is not None:
                        env[k] = hv
            self.block(st.orelse, env, fr)
            self.block(st.finalbody, env, fr)
        elif isinstance(st, (ast.Pass, ast.Break, ast.Continue, ast.Import, ast.ImportFrom, ast.Global, ast.Assert, ast.Delete)):
            pass

    def assign(self, t, val, env, fr, st):
        if isinstance(t, ast.Name):
            env[t.id] = val
        elif isinstance(t, (ast.Tuple, ast.List)):
            for i, e in enumerate(t.elts):
                if isinstance(val, _Pair) and i < len(val.items):
                    self.assign(e, val.items[i], env, fr, st)
                else:
                    self.assign(e, Ex('%s#%d' % (val.txt(), i), val.syms), env, fr, st)
        elif isinstance(t, ast.Subscript):
            base = self.ev(t.value, env, fr['mod'], fr, vivify=True)
            key = self.ev(t.slice, env, fr['mod'], fr)
            if isinstance(base, DictV):
                base.set(key, val)
            elif isinstance(base, Content):
                self.emit('store', base, [key], _record_keys(val), st)
            elif isinstance(base, Item):
                self.emit('store', base.content, base.chain + [key], _record_keys(val), st)
            else:
                pass
        elif isinstance(t, ast.Attribute):
            pass

    def loop(self, st, env, fr):
        mod = fr['mod']
        it = st.iter
        mode = 'keys'
        base_e = it
        if isinstance(it, ast.Call) and isinstance(it.func, ast.Attribute) and it.func.attr in ('items', 'keys', 'values') and not it.args:
            mode = it.func.attr
            base_e = it.func.value
        base = self.ev(base_e, env, mod, fr)
        tnames = [n.id for n in ast.walk(st.target) if isinstance(n, ast.Name)]

        def bind(k, v):
            if mode == 'items':
                self.assign(st.target, _Pair([k, v]), env, fr, st)
            elif mode == 'keys':
                self.assign(st.target, k, env, fr, st)
            else:
                self.assign(st.target, v, env, fr, st)

        if isinstance(base, _Pair) and mode == 'keys':
            # literal tuple / list: one pass per element
            for item in base.items:
                self.assign(st.target, item, env, fr, st)
                self.block(st.body, env, fr)
            self.block(st.orelse, env, fr)
            return
        if isinstance(base, DictV):
            if not base.entries:
                return
            if len(base.entries) > 2 and len(base.const_keys()) == len(base.entries) and all(isinstance(k, str) for k in base.const_keys()):
                # a data record (literal string keys) is being iterated as if it were a mapping level
                self.emit('iterate-record', sorted(base.const_keys()), st)
            for k, v in list(base.entries):
                bind(k, v)
                self.block(st.body, env, fr)
        elif isinstance(base, Tree):
            kname = tnames[0] if tnames else 'k'
            bind(TreeKey(base.root, base.depth + 1, kname), Tree(base.root, base.depth + 1))
            self.block(st.body, env, fr)
        elif isinstance(base, (Content, Item)):
            kname = tnames[0] if tnames else 'k'
            chain = base.chain if isinstance(base, Item) else []
            content = base.content if isinstance(base, Item) else base
            k = Sym(kname)
            bind(k, Item(content, chain + [k]))
            self.block(st.body, env, fr)
        else:
            if mode in ('items', 'values') or (isinstance(base, Sym) and mode == 'keys' and isinstance(base_e, ast.Name)):
                self.emit('iterate-opaque', base.txt(), st)
            ks = [Sym(n) for n in tnames] or [Sym('k')]
            bind(ks[0], ks[1] if len(ks) > 1 else Ex('%s[%s]' % (base.txt(), ks[0].txt()), base.syms | ks[0].syms))
            self.block(st.body, env, fr)
        self.block(st.orelse, env, fr)

    # ---------------------------------------------------------------- expressions
    def ev(self, n, env, mod, fr=None, vivify=False):
        if n is None:
            return Const(None)
        if isinstance(n, ast.Constant):
            return Const(n.value)
        if isinstance(n, ast.Name):
            if n.id in env:
                return env[n.id]
            return Sym(n.id)
        if isinstance(n, ast.Dict):
            return DictV([(self.ev(k, env, mod, fr), self.ev(v, env, mod, fr)) for k, v in zip(n.keys, n.values) if k is not None])
        if isinstance(n, (ast.Tuple, ast.List)):
            return _Pair([self.ev(e, env, mod, fr) for e in n.elts])
        if isinstance(n, ast.BoolOp):
            vals = [self.ev(v, env, mod, fr) for v in n.values]
            s = set()
            for v in vals:
                s |= v.syms
            return Ex((' or ' if isinstance(n.op, ast.Or) else ' and ').join(v.txt() for v in vals), s)
        if isinstance(n, ast.Attribute):
            b = self.ev(n.value, env, mod, fr)
            return Ex('%s.%s' % (b.txt(), n.attr), b.syms)
        if isinstance(n, ast.Subscript):
            return self.subscript(n, env, mod, fr, vivify)
        if isinstance(n, ast.Call):
            return self.call(n, env, mod, fr)
        if isinstance(n, ast.BinOp):
            a, b = self.ev(n.left, env, mod, fr), self.ev(n.right, env, mod, fr)
            return Ex('(%s %s %s)' % (a.txt(), type(n.op).__name__, b.txt()), a.syms | b.syms)
        if isinstance(n, (ast.Compare, ast.UnaryOp, ast.IfExp, ast.JoinedStr)):
            s = set()
            for c in ast.iter_child_nodes(n):
                if isinstance(c, ast.expr):
                    s |= self.ev(c, env, mod, fr).syms
            return Ex(norm(n), s)
        if isinstance(n, (ast.ListComp, ast.GeneratorExp, ast.DictComp, ast.SetComp, ast.Lambda)):
            return Ex(norm(n), {x.id for x in ast.walk(n) if isinstance(x, ast.Name)})
        return Ex(norm(n))

    def subscript(self, n, env, mod, fr, vivify):
        base = self.ev(n.value, env, mod, fr, vivify=vivify)
        key = self.ev(n.slice, env, mod, fr)
        if isinstance(base, DictV):
            v = base.get(key, vivify=vivify or base.recursive)
            if v is not None:
                return v
            if isinstance(key, Const) and base.entries and not base.const_keys():
                self.emit('leaf-subscript', base.txt(), key.value, n)
            elif isinstance(key, Const) and base.entries and len(base.const_keys()) == len(base.entries) and not base.recursive:
                self.emit('missing-key', sorted(map(str, base.const_keys())), key.value, n)
            return Ex('%s[%s]' % (base.txt(), key.txt()), base.syms | key.syms)
        if isinstance(base, Tree):
            if isinstance(key, TreeKey):
                return Tree(base.root, base.depth + 1)
            if isinstance(key, Const):
                self.emit('tree-leaf', base.root, base.depth, key.value, n)
                return Ex('%s[%s]' % (base.txt(), key.txt()), base.syms)
            return Tree(base.root, base.depth + 1)
        if isinstance(base, Content):
            self.emit('load-key', base, [key], n)
            return Item(base, [key])
        if isinstance(base, Item):
            if isinstance(key, Const):
                self.emit('record-read', base.content, base.chain, key.value, n)
                return Ex('%s[%s]' % (base.txt(), key.txt()), base.syms)
            return Item(base.content, base.chain + [key])
        if isinstance(key, Const) and isinstance(key.value, str):
            self.emit('leaf-subscript', base.txt(), key.value, n)
        return Ex('%s[%s]' % (base.txt(), key.txt()), base.syms | key.syms)

    def call(self, n, env, mod, fr):
        f = dotted(n.func)
        args = []
        for a in n.args:
            if isinstance(a, ast.Starred):
                sv = self.ev(a.value, env, mod, fr)      # f(*t) with t a tuple built in this function: its elements are the arguments
                if isinstance(sv, _Pair):
                    args.extend(sv.items)
                continue
            args.append(self.ev(a, env, mod, fr))
        kws = {k.arg: self.ev(k.value, env, mod, fr) for k in n.keywords if k.arg}
        allsyms = set()
        for a in list(args) + list(kws.values()):
            allsyms |= a.syms
        # str.format on a constant
        if isinstance(n.func, ast.Attribute) and n.func.attr == 'format':
            b = self.ev(n.func.value, env, mod, fr)
            if isinstance(b, Const) and isinstance(b.value, str):
                return Fmt(b.value, args)
        if f in ('os.path.join',):
            return Join(args)
        if f == 'open':
            mode = args[1].value if len(args) > 1 and isinstance(args[1], Const) else (kws['mode'].value if 'mode' in kws and isinstance(kws['mode'], Const) else 'r')
            self.emit('open', args[0], mode, n)
            return FileH(args[0], mode)
        if f in ('json.load',) and args and isinstance(args[0], FileH):
            return Content(args[0].path, loaded=True)
        if f in ('json.dump',) and len(args) >= 2:
            self.emit('dump', args[0], args[1].path if isinstance(args[1], FileH) else args[1], n)
            return Const(None)
        if f == 'json.dumps' and args:
            return _Dumps(args[0])
        if isinstance(n.func, ast.Attribute) and n.func.attr == 'write' and len(args) == 1 and isinstance(args[0], _Dumps):
            fh = self.ev(n.func.value, env, mod, fr)          # fh.write(json.dumps(x)) is json.dump(x, fh)
            if isinstance(fh, FileH):
                self.emit('dump', args[0].value, fh.path, n)
                return Const(None)
        if f in ('os.makedirs', 'os.mkdir') and args:
            self.emit('mkdir', args[0], n)
            return Const(None)
        if f == 'os.path.dirname' and args:
            return Ex('dirname(%s)' % args[0].txt(), args[0].syms)
        if f in ('RecursiveDict.from_dict',) and args:
            return args[0]
        if f == 'RecursiveDict':
            if args:
                return args[0] if isinstance(args[0], (DictV, Content, Item)) else Ex('RecursiveDict(%s)' % args[0].txt(), args[0].syms)
            return DictV(recursive=True)
        if isinstance(n.func, ast.Attribute) and n.func.attr in ('freeze', 'copy') and not n.args:
            return self.ev(n.func.value, env, mod, fr)
        if isinstance(n.func, ast.Attribute) and n.func.attr in ('lower', 'upper', 'strip') and not n.args:
            b = self.ev(n.func.value, env, mod, fr)
            if isinstance(b, Const) and isinstance(b.value, str):
                return Const(getattr(b.value, n.func.attr)())
        # package / local function
        target = None
        if fr is not None and f in fr['locals']:
            target = (fr['locals'][f], mod)
        elif f is not None:
            target = self.resolver(f, mod)
        if target is not None and (fr is None or fr['depth'] < self.max_depth):
            fn2, mod2 = target
            bound = _bind(n, fn2, args, kws)
            if bound is not None:
                self.emit('call', fn2.name, bound, n)
                return self.trace(fn2, mod2, bound, depth=(fr['depth'] + 1 if fr else 1))
        if isinstance(n.func, ast.Attribute):
            b = self.ev(n.func.value, env, mod, fr)
            return Ex('%s.%s(%s)' % (b.txt(), n.func.attr, ', '.join(a.txt() for a in args)), b.syms | allsyms)
        return Ex('%s(%s)' % (f or norm(n.func), ', '.join(a.txt() for a in args)), allsyms)


class _Dumps(V):
    """json.dumps(value): the serialised text of value"""
    def __init__(self, value):
        self.value = value
        self.syms = value.syms

    def txt(self):
        return 'dumps(%s)' % self.value.txt()


class _Pair(V):
    def __init__(self, items):
        self.items = items
        s = set()
        for i in items:
            s |= i.syms
        self.syms = frozenset(s)

    def txt(self):
        return '(%s)' % ', '.join(i.txt() for i in self.items)


def _record_keys(val):
    if isinstance(val, DictV):
        ks = val.const_keys()
        return sorted(ks) if len(ks) == len(val.entries) else None
    return None


def _bind(call, fn, args, kws):
    ps = [a.arg for a in fn.args.posonlyargs + fn.args.args]
    if any(isinstance(a, ast.Starred) for a in call.args):
        return None
    if len(args) > len(ps):
        return None
    out = dict(zip(ps, args))
    allp = set(ps) | {a.arg for a in fn.args.kwonlyargs}
    for k, v in kws.items():
        if k in allp:
            out[k] = v
        elif fn.args.kwarg is None:
            return None
    return out
