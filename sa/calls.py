"""Call binding and the generic forwarding rule (T5b)."""
import ast

from .program import dotted, norm


def params_of(fn):
    a = fn.args
    return [x.arg for x in a.posonlyargs + a.args] + [x.arg for x in a.kwonlyargs]


def defaults_of(fn):
    a = fn.args
    pos = a.posonlyargs + a.args
    out = {}
    for arg, d in zip(pos[len(pos) - len(a.defaults):], a.defaults):
        out[arg.arg] = d
    for arg, d in zip(a.kwonlyargs, a.kw_defaults):
        if d is not None:
            out[arg.arg] = d
    return out


def bind_call(call, fn, skip_self=False):
    """Bind call arguments to fn's parameters: dict param -> expr (omitted params absent); None if not bindable."""
    ps = [x.arg for x in fn.args.posonlyargs + fn.args.args]
    if skip_self and ps and ps[0] in ('self', 'cls'):
        ps = ps[1:]
    out = {}
    i = 0
    for a in call.args:
        if isinstance(a, ast.Starred):
            return None
        if i < len(ps):
            out[ps[i]] = a
        elif fn.args.vararg is None:
            return None
        i += 1
    allp = set(params_of(fn))
    for k in call.keywords:
        if k.arg is None:
            return None
        if k.arg in allp:
            out[k.arg] = k.value
        elif fn.args.kwarg is None:
            return None
    return out


def names_in(e):
    return {n.id for n in ast.walk(e) if isinstance(n, ast.Name)}


def local_closure(fn):
    """name -> set of names it is (flow-insensitively) computed from."""
    edges = {}
    for st in ast.walk(fn):
        if isinstance(st, ast.Assign):
            for t in st.targets:
                for b in _bases(t):
                    edges.setdefault(b, set()).update(names_in(st.value))
        elif isinstance(st, ast.For):
            for b in _bases(st.target):
                edges.setdefault(b, set()).update(names_in(st.iter))
    return edges


def _bases(t):
    if isinstance(t, (ast.Tuple, ast.List)):
        for e in t.elts:
            yield from _bases(e)
        return
    while isinstance(t, (ast.Subscript, ast.Attribute)):
        t = t.value
    if isinstance(t, ast.Name):
        yield t.id


def depends_on(fn, expr, name, edges=None):
    edges = edges if edges is not None else local_closure(fn)
    seen, work = set(), list(names_in(expr))
    while work:
        n = work.pop()
        if n == name:
            return True
        if n in seen:
            continue
        seen.add(n)
        work.extend(edges.get(n, ()))
    return False
