"""Finite-guard partial evaluation of a function body (DESIGN 3.3).

Conditions over the *valuation* variables (a small set of names compared with
constants) are decided; every other condition is an oracle decision: the body is
re-run once per combination of oracle answers (enumeration of a finite abstract
domain, no solver).  Calls to the designated sink functions are recorded with
their arguments in exact normal form.
"""
import ast
from fractions import Fraction

from .program import dotted, norm
from .algebra import SymEval, C, L, Rat


import copy as _copy


class _SubstName(ast.NodeTransformer):
    def __init__(self, name, node):
        self.name, self.node = name, node

    def visit_Name(self, n):
        return _copy.deepcopy(self.node) if n.id == self.name and isinstance(n.ctx, ast.Load) else n


class _Return(Exception):
    def __init__(self, value):
        self.value = value


class _NeedOracle(Exception):
    pass


class _Continue(Exception):
    pass


class _Break(Exception):
    pass


class Path:
    def __init__(self):
        self.decisions = []     # (condition text, bool)
        self.sinks = []         # (name, [Rat], loop tag tuple, node)
        self.returned = None
        self.stores = []        # (target text, Rat, loop tags, node)
        self.value_tests = []   # (normal form of a value compared with 0, path knows it is >= 0)

    def key(self):
        return dict(self.decisions)

    def compatible(self, other):
        a, b = self.key(), other.key()
        return all(b[k] == v for k, v in a.items() if k in b)


NZ = 'nonzero'


class PathInterp:
    def __init__(self, fn, sinks, valuation=None, evaluator=SymEval, max_paths=256, store_prefixes=(), inline=None, resolve_keys=False):
        self.fn = fn
        self.resolve_keys = resolve_keys      # spell decision keys with locals replaced by their values
        self.inline = dict(inline or {})     # callee text ('helper' or 'self.helper') -> FunctionDef interpreted in place
        self._depth = 0
        self.sinks = set(sinks)
        self.valuation = dict(valuation or {})
        self.evaluator = evaluator
        self.max_paths = max_paths
        self.store_prefixes = tuple(store_prefixes)

    # ------------------------------------------------------------------ driver
    def run(self):
        paths, work = [], [[]]
        while work:
            prefix = work.pop()
            if len(paths) >= self.max_paths:
                raise RuntimeError('more than %d paths through %s' % (self.max_paths, self.fn.name))
            p = Path()
            self._oracle = list(prefix)
            self._k = 0
            self._path = p
            self._forks = []
            self._tags = []
            ev = self._make_eval()
            feasible = True
            try:
                self._block(self.fn.body, ev)
            except _Return as r:
                p.returned = r.value
            except (_Continue, _Break):
                # the interpreted body is a loop body: the iteration ends here with what it stored so far
                pass
            except ZeroDivisionError:
                # contradictory oracle answers (e.g. a width folded to zero, then assumed to be the larger one)
                feasible = False
            if feasible:
                paths.append(p)
            for alt in self._forks:
                work.append(alt)
        return paths

    def _make_eval(self):
        interp = self

        class E(self.evaluator):
            def call(self, n):
                f = dotted(n.func)
                if f in interp.sinks:
                    args = [self.ev(a) for a in n.args]
                    interp._path.sinks.append((f, args, tuple(interp._tags), n))
                    return L('%s@%d' % (f, len(interp._path.sinks)))
                if f in interp.inline and interp._depth < 4:
                    return interp._inline_call(f, n, self)
                return super().call(n)

            def ifexp(self, n):
                d = interp._decide(n.test, self)
                return self.ev(n.body) if d else self.ev(n.orelse)

            def subscript(self, n):
                tp = self.__dict__.get('_tuples', {})
                if isinstance(n.value, ast.Name) and n.value.id in tp and isinstance(n.slice, ast.Constant) and isinstance(n.slice.value, int) \
                        and -len(tp[n.value.id]) <= n.slice.value < len(tp[n.value.id]):
                    return tp[n.value.id][n.slice.value]          # an element of a name bound to a literal tuple
                r = super().subscript(n)
                # an element stored earlier on this path (a[k] = v with a concrete k) is read back as its value
                try:
                    k = r.key()
                except Exception:
                    return r
                if isinstance(n.ctx, ast.Load) and k in self.env and isinstance(n.value, ast.Name):
                    return self.env[k]
                return r
        return E()

    def _inline_call(self, f, n, ev):
        """Interpret a helper in place: its sink calls, decisions and loop tags belong to the caller's path."""
        callee = self.inline[f]
        params = [a.arg for a in callee.args.args]
        if f.startswith('self.') and params and params[0] == 'self':
            params = params[1:]
        if len(n.args) > len(params) or any(k.arg not in params for k in n.keywords):
            return L('?call(%s)' % norm(n))
        frame = type(ev)()
        frame.env = {k: v for k, v in ev.env.items() if k.startswith('self.')}
        dflt = callee.args.defaults
        for prm, d in zip(params[len(params) - len(dflt):], dflt):
            frame.env[prm] = frame.ev(d)
        for prm, a in zip(params, n.args):
            frame.env[prm] = ev.ev(a)
        for k in n.keywords:
            frame.env[k.arg] = ev.ev(k.value)
        self._depth += 1
        try:
            self._block(callee.body, frame)
            ret = None
        except _Return as r:
            ret = r.value
        finally:
            self._depth -= 1
        for k, v in frame.env.items():
            if k.startswith('self.'):
                ev.env[k] = v
        return ret if ret is not None else L('None')

    # ------------------------------------------------------------------ conditions
    def _const(self, e, ev):
        try:
            v = ev.ev(e)
        except Exception:
            return None
        if v.is_const():
            return v.const_value()
        return None

    def _atom(self, t, ev):
        """True/False if decidable from the valuation or by constant folding, else None."""
        if isinstance(t, (ast.Name, ast.Attribute)) and dotted(t) in self.valuation and self.valuation[dotted(t)] != NZ:
            return bool(self.valuation[dotted(t)])          # truth value of a flag pinned by the caller
        if isinstance(t, ast.Compare) and len(t.ops) == 1:
            l, r = t.left, t.comparators[0]
            ln = dotted(l)
            rn = dotted(r)
            op = type(t.ops[0])
            for name, other, flip in ((ln, r, False), (rn, l, True)):
                if name in self.valuation:
                    val = self.valuation[name]
                    k = self._const(other, ev)
                    if k is None:
                        continue
                    if val == NZ:
                        if k == 0 and op in (ast.Eq, ast.NotEq):
                            return op is ast.NotEq
                        continue
                    a, b = (Fraction(val), k) if not flip else (k, Fraction(val))
                    return {ast.Eq: a == b, ast.NotEq: a != b, ast.Lt: a < b, ast.LtE: a <= b, ast.Gt: a > b, ast.GtE: a >= b}.get(op)
            a, b = self._const(l, ev), self._const(r, ev)
            if a is not None and b is not None:
                return {ast.Eq: a == b, ast.NotEq: a != b, ast.Lt: a < b, ast.LtE: a <= b, ast.Gt: a > b, ast.GtE: a >= b}.get(op)
        return None

    def _decide(self, t, ev):
        if isinstance(t, ast.UnaryOp) and isinstance(t.op, ast.Not):
            return not self._decide(t.operand, ev)
        if isinstance(t, ast.BoolOp):
            if isinstance(t.op, ast.And):
                for v in t.values:
                    if not self._decide(v, ev):
                        return False
                return True
            for v in t.values:
                if self._decide(v, ev):
                    return True
            return False
        d = self._atom(t, ev)
        if d is not None:
            return d
        # oracle decision, keyed by the condition's normal text
        key = self._cond_key(t, ev)
        for c, b in self._path.decisions:
            if c == key:
                return b
        if self._k < len(self._oracle):
            b = self._oracle[self._k]
        else:
            b = True
            self._forks.append(self._oracle[:self._k] + [False])
            self._oracle.append(True)
        self._k += 1
        self._path.decisions.append((key, b))
        # sign tests: remember the tested value in normal form and whether this path knows it to be non-negative
        if isinstance(t, ast.Compare) and len(t.ops) == 1:
            try:
                rhs = ev.ev(t.comparators[0])
                if rhs.is_const() and rhs.const_value() == 0:
                    lhs = ev.ev(t.left).key()
                    op = type(t.ops[0])
                    nonneg = (op in (ast.Lt,) and not b) or (op in (ast.GtE, ast.Gt) and b)
                    self._path.value_tests.append((lhs, nonneg))
            except Exception:
                pass
        return b

    def _cond_key(self, t, ev):
        if self.resolve_keys and isinstance(t, ast.Compare) and len(t.ops) == 1:
            from .flow import OPTXT
            try:
                return '%s %s %s' % (ev.ev(t.left).key(), OPTXT.get(type(t.ops[0]), '?'), ev.ev(t.comparators[0]).key())
            except Exception:
                pass
        return norm(t)

    # ------------------------------------------------------------------ statements
    def _block(self, stmts, ev):
        for st in stmts:
            self._stmt(st, ev)

    def _stmt(self, st, ev):
        if isinstance(st, ast.Return):
            v = None
            if st.value is not None:
                v = ev.ev(st.value)
            raise _Return(v)
        if isinstance(st, ast.Assign):
            if len(st.targets) == 1 and isinstance(st.targets[0], (ast.Tuple, ast.List)) and isinstance(st.value, (ast.Tuple, ast.List)) \
                    and len(st.targets[0].elts) == len(st.value.elts):
                vals = [ev.ev(v) for v in st.value.elts]
                for t, v in zip(st.targets[0].elts, vals):
                    self._store(t, v, ev, st)
                return
            v0 = st.value
            tuples = ev.__dict__.setdefault('_tuples', {})
            # a name bound to a literal tuple (an expanded helper's tuple parameter): remembered element-wise
            if len(st.targets) == 1 and isinstance(st.targets[0], ast.Name) and isinstance(v0, (ast.Tuple, ast.List)) \
                    and not any(isinstance(e_, ast.Starred) for e_ in v0.elts):
                tuples[st.targets[0].id] = [ev.ev(e_) for e_ in v0.elts]
                return
            if len(st.targets) == 1 and isinstance(st.targets[0], (ast.Tuple, ast.List)) and isinstance(v0, ast.Name) and v0.id in tuples \
                    and len(tuples[v0.id]) == len(st.targets[0].elts):
                for t, v in zip(st.targets[0].elts, tuples[v0.id]):
                    self._store(t, v, ev, st)
                return
            if len(st.targets) == 1 and isinstance(st.targets[0], (ast.Tuple, ast.List)) and isinstance(v0, (ast.ListComp, ast.GeneratorExp)) \
                    and len(v0.generators) == 1 and not v0.generators[0].ifs and isinstance(v0.generators[0].iter, ast.Name) \
                    and v0.generators[0].iter.id in tuples and len(tuples[v0.generators[0].iter.id]) == len(st.targets[0].elts) \
                    and isinstance(v0.generators[0].target, ast.Name):
                g = v0.generators[0]
                saved = ev.env.get(g.target.id)
                vals = []
                for val_ in tuples[g.iter.id]:
                    ev.env[g.target.id] = val_
                    vals.append(ev.ev(v0.elt))
                if saved is None:
                    ev.env.pop(g.target.id, None)
                else:
                    ev.env[g.target.id] = saved
                for t, v in zip(st.targets[0].elts, vals):
                    self._store(t, v, ev, st)
                return
            if len(st.targets) == 1 and isinstance(st.targets[0], (ast.Tuple, ast.List)) and isinstance(v0, (ast.ListComp, ast.GeneratorExp)) \
                    and len(v0.generators) == 1 and not v0.generators[0].ifs and isinstance(v0.generators[0].iter, (ast.Tuple, ast.List)) \
                    and len(v0.generators[0].iter.elts) == len(st.targets[0].elts) and isinstance(v0.generators[0].target, ast.Name):
                # a, b, c = [f(k) for k in (ka, kb, kc)]: one evaluation of the element per literal key
                g = v0.generators[0]
                saved = ev.env.get(g.target.id)
                vals = []
                for e in g.iter.elts:
                    if isinstance(e, ast.Constant):
                        vals.append(ev.ev(_SubstName(g.target.id, e).visit(_copy.deepcopy(v0.elt))))
                    else:
                        ev.env[g.target.id] = ev.ev(e)
                        vals.append(ev.ev(v0.elt))
                if saved is None:
                    ev.env.pop(g.target.id, None)
                else:
                    ev.env[g.target.id] = saved
                for t, v in zip(st.targets[0].elts, vals):
                    self._store(t, v, ev, st)
                return
            val = ev.ev(st.value)
            for t in st.targets:
                self._store(t, val, ev, st)
        elif isinstance(st, ast.AnnAssign):
            if st.value is not None:
                self._store(st.target, ev.ev(st.value), ev, st)
        elif isinstance(st, ast.AugAssign):
            cur = ev.ev(st.target)
            rhs = ev.ev(st.value)
            if isinstance(st.op, ast.Add):
                val = cur + rhs
            elif isinstance(st.op, ast.Sub):
                val = cur - rhs
            elif isinstance(st.op, ast.Mult):
                val = ev.mul(cur, rhs) if hasattr(ev, 'mul') else cur * rhs
            elif isinstance(st.op, ast.Div):
                val = cur / rhs
            else:
                val = L('?aug(%s)' % norm(st))
            self._store(st.target, val, ev, st, aug=(type(st.op).__name__, rhs))
        elif isinstance(st, ast.Expr):
            if isinstance(st.value, ast.Constant):
                return
            ev.ev(st.value)
        elif isinstance(st, ast.If):
            if self._decide(st.test, ev):
                self._block(st.body, ev)
            else:
                self._block(st.orelse, ev)
        elif isinstance(st, ast.For):
            self._for(st, ev)
        elif isinstance(st, ast.Raise):
            raise _Return(L('raise'))
        elif isinstance(st, ast.Pass):
            return
        elif isinstance(st, ast.Continue):
            raise _Continue()
        elif isinstance(st, ast.Break):
            raise _Break()
        elif isinstance(st, ast.Try):
            self._block(st.body, ev)
        elif isinstance(st, ast.With):
            self._block(st.body, ev)

    def _store(self, t, val, ev, st, aug=None):
        if isinstance(t, (ast.Tuple, ast.List)):
            for i, e in enumerate(t.elts):
                self._store(e, L('%s#%d' % (val.key(), i)), ev, st)
            return
        key = dotted(t)
        if key is None and isinstance(t, ast.Subscript):
            sl = t.slice
            idx = sl.elts if isinstance(sl, ast.Tuple) else [sl]
            key = '%s[%s]' % (dotted(t.value) or norm(t.value), ','.join(ev.ev(i).key() if not isinstance(i, ast.Slice) else norm(i) for i in idx))
        if key is None:
            key = norm(t)
        ev.env[key] = val
        if self.store_prefixes and key.startswith(self.store_prefixes):
            self._path.stores.append((key, val, tuple(self._tags), st, aug))

    def _for(self, st, ev):
        it = st.iter
        if isinstance(it, ast.Call) and dotted(it.func) == 'range' and isinstance(st.target, ast.Name):
            vals = [self._const(a, ev) for a in it.args]
            if all(v is not None and v.denominator == 1 for v in vals):
                ints = [int(v) for v in vals]
                rng = range(*ints)
                if len(rng) <= 64:
                    for i in rng:
                        ev.env[st.target.id] = C(i)
                        try:
                            self._block(st.body, ev)
                        except _Continue:
                            continue
                        except _Break:
                            break
                    return
        if isinstance(it, (ast.Tuple, ast.List)) and len(it.elts) <= 16 and not any(isinstance(e, ast.Starred) for e in it.elts):
            # a literal sequence: one concrete pass per element (pairs are unpacked onto a tuple target)
            for e in it.elts:
                if isinstance(st.target, (ast.Tuple, ast.List)) and isinstance(e, (ast.Tuple, ast.List)) and len(e.elts) == len(st.target.elts):
                    vals = [ev.ev(x) for x in e.elts]
                    for t, v in zip(st.target.elts, vals):
                        self._store(t, v, ev, st)
                else:
                    self._store(st.target, ev.ev(e), ev, st)
                try:
                    self._block(st.body, ev)
                except _Continue:
                    continue
                except _Break:
                    break
            return
        # symbolic loop: one pass with a symbolic index, sinks tagged as summed over the loop
        if isinstance(st.target, ast.Name):
            ev.env[st.target.id] = L(st.target.id)
        elif isinstance(st.target, ast.Tuple):
            for e in st.target.elts:
                if isinstance(e, ast.Name):
                    ev.env[e.id] = L(e.id)
        self._tags.append('loop@%s' % norm(it))
        try:
            self._block(st.body, ev)
        except (_Continue, _Break):
            # one symbolic pass stands for every iteration: the rest of the body is not reached under this path's decisions
            pass
        finally:
            self._tags.pop()
