"""Shape / index semantics of a handful of numpy constructions, decided by applying the *library* functions themselves to small arrays of
symbols (object dtype).  Nothing of the analysed repository is executed: the interpreter walks the repository's expression tree and calls
numpy's tile / repeat / reshape / stack / broadcasting on token arrays, so that e.g. `np.tile(t, 2).reshape(n, m, 2)` and
`np.repeat(t, 2).reshape(n, m, 2)` are told apart by what numpy does, not by a table of spellings."""
import ast

import numpy as np

from .program import dotted, norm


class Unknown(Exception):
    pass


def tokens(name, shape):
    a = np.empty(shape, dtype=object)
    for idx in np.ndindex(*shape):
        a[idx] = name + ''.join(str(i) for i in idx)
    return a


_FUNCS = {'np.tile': np.tile, 'np.repeat': np.repeat, 'np.stack': np.stack, 'np.dstack': np.dstack, 'np.vstack': np.vstack, 'np.hstack': np.hstack,
          'np.broadcast_to': np.broadcast_to, 'np.transpose': np.transpose, 'np.swapaxes': np.swapaxes, 'np.expand_dims': np.expand_dims,
          'np.moveaxis': np.moveaxis, 'np.concatenate': np.concatenate, 'np.reshape': np.reshape, 'np.ravel': np.ravel, 'np.atleast_3d': np.atleast_3d}
_IDENT = ('np.array', 'np.asarray', 'np.ascontiguousarray', 'np.copy', 'np.float64', 'numpy.array')
_METHODS = ('reshape', 'transpose', 'swapaxes', 'ravel', 'flatten', 'repeat', 'copy', 'astype', 'squeeze')


class NpEval:
    def __init__(self, env=None, leaf=None):
        self.env = dict(env or {})          # name / normalised text -> ndarray(object) or int
        self.leaf = leaf or (lambda e: None)

    def ev(self, e):
        r = self.leaf(e)
        if r is not None:
            return r
        t = norm(e)
        if t in self.env:
            return self.env[t]
        if isinstance(e, ast.Constant):
            if isinstance(e.value, (int, float)) or e.value is None:
                return e.value
            raise Unknown(t)
        if isinstance(e, ast.Name):
            raise Unknown('name ' + e.id)
        if isinstance(e, (ast.Tuple, ast.List)):
            v = [self.ev(x) for x in e.elts]
            return tuple(v) if isinstance(e, ast.Tuple) else v
        if isinstance(e, ast.UnaryOp) and isinstance(e.op, ast.USub):
            v = self.ev(e.operand)
            if isinstance(v, (int, float)):
                return -v
            raise Unknown(t)
        if isinstance(e, ast.BinOp) and all(isinstance(x, int) for x in (self._try(e.left), self._try(e.right))):
            a, b = self.ev(e.left), self.ev(e.right)
            ops = {ast.Add: lambda: a + b, ast.Sub: lambda: a - b, ast.Mult: lambda: a * b, ast.FloorDiv: lambda: a // b}
            if type(e.op) in ops:
                return ops[type(e.op)]()
            raise Unknown(t)
        if isinstance(e, ast.Attribute):
            if e.attr == 'T':
                return self._arr(e.value).T
            if e.attr == 'shape':
                return self._arr(e.value).shape
            if e.attr == 'size':
                return self._arr(e.value).size
            raise Unknown(t)
        if isinstance(e, ast.Subscript):
            base = self.ev(e.value)
            idx = self._index(e.slice)
            if isinstance(base, tuple):
                return base[idx]
            return base[idx]
        if isinstance(e, ast.Call):
            d = dotted(e.func) or ''
            d = d.replace('numpy.', 'np.')
            kw = {}
            for k in e.keywords:
                if k.arg in ('dtype', 'order', 'copy'):
                    continue
                kw[k.arg] = self.ev(k.value)
            if d == 'len' and len(e.args) == 1:
                return len(self._arr(e.args[0]))
            if d in _IDENT and e.args:
                v = self.ev(e.args[0])
                return np.array(v, dtype=object) if isinstance(v, (list, tuple)) else v
            if d in ('np.empty', 'np.zeros', 'np.ones') and e.args:
                shp = self.ev(e.args[0])
                a = np.empty(shp, dtype=object)
                a[...] = {'np.empty': '?uninitialised', 'np.zeros': 0, 'np.ones': 1}[d]
                return a
            if d in ('np.empty_like', 'np.zeros_like') and e.args:
                a = np.empty(self._arr(e.args[0]).shape, dtype=object)
                a[...] = '?uninitialised' if d.endswith('empty_like') else 0
                return a
            if d in _FUNCS:
                return _FUNCS[d](*[self.ev(a) for a in e.args], **kw)
            if isinstance(e.func, ast.Attribute) and e.func.attr in _METHODS:
                recv = self._arr(e.func.value)
                if e.func.attr in ('copy', 'astype'):
                    return recv.copy()
                return getattr(recv, e.func.attr)(*[self.ev(a) for a in e.args], **kw)
            raise Unknown(t[:50])
        raise Unknown(t[:50])

    def _try(self, e):
        try:
            return self.ev(e)
        except Unknown:
            return None
        except Exception:
            return None

    def _arr(self, e):
        v = self.ev(e)
        if not isinstance(v, np.ndarray):
            raise Unknown('not an array: ' + norm(e)[:40])
        return v

    def _index(self, sl):
        if isinstance(sl, ast.Tuple):
            return tuple(self._index(x) for x in sl.elts)
        if isinstance(sl, ast.Slice):
            return slice(self.ev(sl.lower) if sl.lower is not None else None, self.ev(sl.upper) if sl.upper is not None else None,
                         self.ev(sl.step) if sl.step is not None else None)
        if isinstance(sl, ast.Constant) and sl.value is Ellipsis:
            return Ellipsis
        if norm(sl) in ('np.newaxis', 'numpy.newaxis'):
            return None
        return self.ev(sl)

    def run(self, stmts):
        """plain and slice assignments in order; anything else raises Unknown"""
        for st in stmts:
            if isinstance(st, ast.Expr) and isinstance(st.value, ast.Constant):
                continue
            if isinstance(st, ast.Assign) and len(st.targets) == 1:
                t = st.targets[0]
                v = self.ev(st.value)
                if isinstance(t, ast.Name):
                    self.env[t.id] = v
                    continue
                if isinstance(t, ast.Subscript) and isinstance(t.value, ast.Name) and isinstance(self.env.get(t.value.id), np.ndarray):
                    self.env[t.value.id][self._index(t.slice)] = v
                    continue
            raise Unknown(norm(st)[:50])
