"""C07 -- OpenADAS provider policy and rate classes (DESIGN section 5, C07)."""
import ast
from fractions import Fraction
import re

from ..program import Program, dotted, norm
from ..report import AnalysisError
from ..flow import guards_of, facts, stores, always_exits
from ..calls import params_of, defaults_of, bind_call
from ..algebra import SymEval, C, L, Rat

OA = 'cherab/openadas/openadas.py'
RATES = ['cherab/openadas/rates/atomic.pyx', 'cherab/openadas/rates/pec.pyx', 'cherab/openadas/rates/beam.pyx',
         'cherab/openadas/rates/cx.pyx', 'cherab/openadas/rates/radiated_power.pyx']
CORE = 'cherab/core/atomic/rates.pyx'
REPO = ['cherab/openadas/repository/atomic.py', 'cherab/openadas/repository/pec.py', 'cherab/openadas/repository/radiated_power.py',
        'cherab/openadas/repository/wavelength.py', 'cherab/openadas/repository/beam/cx.py', 'cherab/openadas/repository/beam/stopping.py',
        'cherab/openadas/repository/beam/population.py', 'cherab/openadas/repository/beam/emission.py']

# accessors that attach a wavelength (photon emission coefficients): accessor -> (species param, charge expression)
PHOTON = {'beam_cx_pec', 'beam_emission_pec', 'impact_excitation_pec', 'recombination_pec', 'thermal_cx_pec'}
INTERP = {'Interpolator1DArray': 1, 'Interpolator2DArray': 2, 'Interpolator3DArray': 3}
# evaluate() parameters that are not densities, temperatures or energies (statement: zero for non-positive n, T, E only)
UNGUARDED_OK = re.compile(r'z_eff|b_field|zeff')


def kind_of(name):
    n = name.lower()
    if 'dens' in n or n in ('ne', 'ni', 'n'):
        return 'density'
    if 'temp' in n or n in ('te', 'ti', 't', 'td'):
        return 'temperature'
    if 'energy' in n or n in ('e', 'eb'):
        return 'energy'
    if 'z' in n:
        return 'zeff'
    if n.startswith('b'):
        return 'bfield'
    return n


def check(run):
    prog = Program()
    prog.load_many([OA] + RATES + [CORE] + REPO + ['cherab/core/atomic/interface.pyx'])
    for f in [OA] + RATES + [CORE]:
        run.use_file(f)
    # shape normalisation: code hoisted into private helpers (module-level or methods) is read where it is called
    for c_ in sorted(prog.classes.values(), key=lambda c_: c_.qual):
        if c_.mod.relpath in [OA] + RATES + [CORE]:
            try:
                prog.normalise_class(c_, propagate=False)
            except Exception:
                pass
    run.explanation = (
        'Decides structural necessary conditions of C07 on all accessors of OpenADAS and all rate classes: (R1) each accessor '
        'catches exactly what its repository getter raises for missing data (computed from the getter) and returns the family '
        'Null rate iff missing_rates_return_null, else re-raises; (R2) every rate / Null constructor call matches the __init__ '
        'signature resolved through the Cython class hierarchy; (R3) rates are requested with the isotope-stripped element on '
        'all paths while wavelengths of the five photon-coefficient accessors are requested for the un-stripped species, and '
        'wavelength() strips only as the documented fallback; (R4) every density/temperature/energy parameter of every '
        'interpolating evaluate() is guarded "<= 0 -> return 0" before any interpolator or log10; (R5) the interpolators get '
        "extrapolation type 'none' exactly when the constructor's extrapolate flag is false and accessors pass "
        'extrapolate=permit_extrapolation; (R6) unit wiring: photon tables pass through PhotonToJ.to(table, wavelength) before '
        'log10, beam tables use sen and st/sref, beam CX q_x/qref, evaluate returns 10**(interpolants in log10 of the '
        'parameters) with interpolator axis kinds matching evaluate argument kinds. Does not decide that the interpolant passes '
        'through grid points or finiteness under extrapolation.')
    run.assumptions = ['raysect Interpolator*Array(x.., f, interpolation_type, extrapolation_type, ranges) argument order',
                       "extrapolation_type 'none' raises outside the grid (raysect)"]
    oa = None
    for c in prog.classes.values():
        if c.name == 'OpenADAS' and c.mod.relpath == OA:
            oa = c
    if oa is None:
        raise AnalysisError('anchored class vanished: OpenADAS')
    getters = {}
    for p in REPO:
        mi = prog.modules[p[:-3].replace('/', '.')]
        for n, f in mi.functions.items():
            if n.startswith('get_'):
                getters[n] = (f, mi)
    run.functions = len(oa.methods)
    _accessors(run, prog, oa, getters)
    _rate_classes(run, prog)
    from ..cachekey import check_caches
    check_caches(run, [m for k, m in prog.modules.items() if k.startswith('cherab.openadas') and not k.endswith('#pxd')], 'C07-K', prog=prog)


def _raise_set(getter, mi):
    """Exception types a repository getter raises for missing data (its own raise statements)."""
    fn = getter
    # follow one level of delegation
    for c in ast.walk(getter):
        if isinstance(c, ast.Call) and dotted(c.func) in mi.functions and dotted(c.func).startswith('_get'):
            fn = mi.functions[dotted(c.func)]
    out = set()
    for r in ast.walk(fn):
        if isinstance(r, ast.Raise) and r.exc is not None:
            out.add(dotted(r.exc.func if isinstance(r.exc, ast.Call) else r.exc))
    return out


def _rate_class(prog, name):
    cands = [c for c in prog.by_simple.get(name, []) if c.mod.relpath.startswith('cherab/openadas/rates/')]
    if not cands:
        cands = prog.by_simple.get(name, [])
    return cands[0] if cands else None


def _wavelength_family(oa):
    """wavelength() and the private methods it delegates to (self-calls, transitively)."""
    out, work = [], ['wavelength']
    while work:
        n = work.pop()
        f = oa.methods.get(n)
        if f is None or any(n == x for x, _ in out):
            continue
        out.append((n, f))
        for c in ast.walk(f):
            if isinstance(c, ast.Call) and (dotted(c.func) or '').startswith('self.') and dotted(c.func).count('.') == 1:
                m = dotted(c.func)[5:]
                if m != 'wavelength' and m in oa.methods:
                    work.append(m)
    return out


def _accessors(run, prog, oa, getters):
    run.describe('C07-R1', "try around repository.get_* catches the getter's missing-data exception; handler returns Null iff missing_rates_return_null else re-raises")
    run.describe('C07-R2', 'constructor calls match the resolved __init__ signature')
    run.describe('C07-R3', 'get_* receives isotope-stripped elements on all paths; wavelength() receives the un-stripped species')
    run.describe('C07-R5a', 'rate constructors receive extrapolate=self._permit_extrapolation')
    K = 'cherab.openadas.openadas|OpenADAS.'
    n_acc = 0
    wfamily = {n for n, f in _wavelength_family(oa)}
    for mname, m in sorted(oa.methods.items()):
        calls = [c for c in ast.walk(m) if isinstance(c, ast.Call) and (dotted(c.func) or '').startswith('repository.get_')]
        if not calls or mname in wfamily:
            continue
        n_acc += 1
        where = lambda n: (OA, getattr(n, 'lineno', m.lineno))
        gcall = calls[0]
        gname = dotted(gcall.func).split('.')[-1]
        if gname not in getters:
            raise AnalysisError('OpenADAS.%s calls unknown getter %s' % (mname, gname))
        gfn, gmi = getters[gname]
        # ---- R1
        run.subject('C07-R1')
        tries = [t for t in ast.walk(m) if isinstance(t, ast.Try) and any(x is gcall for b in t.body for x in ast.walk(b))]
        raised = _raise_set(gfn, gmi)
        if not tries:
            run.fail('C07-R1', K + mname + '|no-try', *where(gcall), what='%s does not guard %s with a try' % (mname, gname))
        else:
            t = tries[0]
            caught = set()
            for h in t.handlers:
                if h.type is None:
                    caught.add('BaseException')
                elif isinstance(h.type, ast.Tuple):
                    caught |= {dotted(x) for x in h.type.elts}
                else:
                    caught.add(dotted(h.type))
            covers = raised <= caught or caught & {'Exception', 'BaseException'}
            if not covers:
                run.fail('C07-R1', K + mname + '|handler-types', *where(t),
                         what='%s catches %s but %s signals missing data with %s: missing_rates_return_null is never honoured'
                              % (mname, sorted(caught), gname, sorted(raised)))
            else:
                run.ok('C07-R1', mname + ' handler types', '%s covers %s' % (sorted(caught), sorted(raised)))
            for h in t.handlers:
                run.subject('C07-R1')
                # handler: if self._missing_rates_return_null: return Null ; raise
                rets = [r for r in ast.walk(h) if isinstance(r, ast.Return)]
                ok = True
                for r in rets:
                    f = facts(guards_of(m, r) or [])
                    if ('self._missing_rates_return_null', 'true', '') not in f:
                        run.fail('C07-R1', K + mname + '|null-unconditional', *where(r),
                                 what='%s returns a null rate without testing missing_rates_return_null' % mname)
                        ok = False
                    txt = norm(r.value)
                    if 'Null' not in txt:
                        run.fail('C07-R1', K + mname + '|null-kind', *where(r), what='%s returns %s for missing data' % (mname, txt))
                        ok = False
                reraise = [r for r in ast.walk(h) if isinstance(r, ast.Raise) and r.exc is None]
                rr_ok = False
                for r in reraise:
                    f = facts(guards_of(m, r) or [])
                    if ('self._missing_rates_return_null', 'true', '') not in f:
                        rr_ok = True
                if not rr_ok:
                    run.fail('C07-R1', K + mname + '|no-reraise', *where(h),
                             what='%s does not re-raise when null rates were not requested' % mname)
                    ok = False
                if not rets:
                    run.fail('C07-R1', K + mname + '|no-null', *where(h), what='%s never returns a null rate' % mname)
                    ok = False
                if ok:
                    run.ok('C07-R1', mname + ' handler body', 'null iff flag, else re-raise')
        # ---- R2 / R5a constructor calls
        for c in [c for c in ast.walk(m) if isinstance(c, ast.Call) and isinstance(c.func, ast.Name)]:
            ci = _rate_class(prog, c.func.id)
            if ci is None or not ci.mod.relpath.endswith('.pyx'):
                continue
            run.subject('C07-R2')
            ic, init = prog.find_method(ci, '__init__')
            if init is None:
                if c.args or c.keywords:
                    run.fail('C07-R2', K + mname + '|ctor|' + c.func.id, *where(c), what='%s has no __init__ but is called with arguments' % c.func.id)
                else:
                    run.ok('C07-R2', '%s: %s' % (mname, norm(c)[:50]), 'no __init__, no arguments')
                continue
            b = bind_call(c, init, skip_self=True)
            ps = params_of(init)[1:]
            dfl = defaults_of(init)
            if b is None:
                run.fail('C07-R2', K + mname + '|ctor|' + c.func.id, *where(c),
                         what='%s(...) does not match %s.__init__(%s): too many or unknown arguments' % (c.func.id, ic.name, ', '.join(ps)))
                continue
            missing = [p for p in ps if p not in b and p not in dfl]
            if missing:
                run.fail('C07-R2', K + mname + '|ctor|' + c.func.id, *where(c),
                         what="%s raises TypeError: %s.__init__ requires %s (called as %s)" % (mname, ic.name, missing, norm(c)[:60]))
            else:
                run.ok('C07-R2', '%s: %s' % (mname, norm(c)[:50]), '%s.__init__(%s)' % (ic.name, ', '.join(ps)))
            if 'extrapolate' in ps:
                run.subject('C07-R5a')
                ex = b.get('extrapolate')
                if isinstance(ex, ast.Name):
                    # a local alias: every definition of the name in the accessor decides
                    defs = [v for t, v, st in stores(m) if isinstance(t, ast.Name) and t.id == ex.id]
                    if defs and all(norm(v) == norm(defs[0]) for v in defs):
                        ex = defs[0]
                if ex is not None and norm(ex) == 'self._permit_extrapolation':
                    run.ok('C07-R5a', '%s: %s' % (mname, c.func.id), 'extrapolate=self._permit_extrapolation')
                elif ex is not None and not isinstance(ex, ast.Constant):
                    run.undecided('C07-R5a', '%s: %s' % (mname, c.func.id), 'extrapolate=%s: not a constant and not the provider setting' % norm(ex))
                else:
                    run.fail('C07-R5a', K + mname + '|extrapolate|' + c.func.id, *where(c),
                             what='%s builds %s with extrapolate=%s instead of the provider setting'
                                  % (mname, c.func.id, norm(b['extrapolate']) if 'extrapolate' in b else 'default False'))
            # wavelength argument of photon coefficient classes comes from self.wavelength(...)
            if 'wavelength' in ps:
                run.subject('C07-R2')
                w = b.get('wavelength')
                src = None
                if isinstance(w, ast.Name):
                    defs = [v for t, v, st in stores(m) if isinstance(t, ast.Name) and t.id == w.id]
                    src = defs[-1] if defs else None
                if src is not None and isinstance(src, ast.Call) and dotted(src.func) == 'self.wavelength':
                    run.ok('C07-R2', '%s: %s wavelength argument' % (mname, c.func.id), norm(src))
                else:
                    run.fail('C07-R2', K + mname + '|wavelength-arg|' + c.func.id, *where(c),
                             what='%s passes %s as the wavelength of %s' % (mname, norm(w), c.func.id))
            if 'data' in ps:
                run.subject('C07-R2')
                if norm(b.get('data')) in ('data', 'rate_data'):
                    run.ok('C07-R2', '%s: %s data argument' % (mname, c.func.id), norm(b['data']), sample=False)
                else:
                    run.fail('C07-R2', K + mname + '|data-arg|' + c.func.id, *where(c),
                             what='%s passes %s as the data of %s' % (mname, norm(b.get('data')), c.func.id))
        # ---- R3 isotope policy
        gb = bind_call(gcall, gfn)
        elem_params = [p for p in params_of(gfn) if re.search(r'element|(^|_)ion$|species', p)]
        if gb is None:
            run.undecided('C07-R3', mname, 'cannot bind %s' % norm(gcall))
        else:
            stripped_params = set()
            for p in elem_params:
                run.subject('C07-R3')
                e = gb.get(p)
                st = _stripped(m, gcall, e)
                if st:
                    run.ok('C07-R3', '%s: %s of %s' % (mname, p, gname), st)
                    if st.startswith('param:'):
                        stripped_params.add(st[6:])
                else:
                    run.fail('C07-R3', K + mname + '|unstripped|' + p, *where(gcall),
                             what="%s passes '%s' as %s of %s without reducing an isotope to its element on every path: "
                                  "a request for an isotope does not use its element's rates" % (mname, norm(e), p, gname))
            if mname in PHOTON:
                wcalls = [c for c in ast.walk(m) if isinstance(c, ast.Call) and dotted(c.func) == 'self.wavelength']
                run.subject('C07-R3')
                if not wcalls:
                    run.fail('C07-R3', K + mname + '|no-wavelength', *where(m), what='%s never looks up the wavelength' % mname)
                for wc in wcalls:
                    a0 = wc.args[0] if wc.args else None
                    txt = norm(a0)
                    mparams = params_of(m)
                    if isinstance(a0, ast.Name) and a0.id in mparams and a0.id not in stripped_params and not _reassigned_before(m, a0.id, wc):
                        run.ok('C07-R3', '%s: wavelength species' % mname, txt)
                    else:
                        run.fail('C07-R3', K + mname + '|wavelength-species', *where(wc),
                                 what="%s requests the wavelength for '%s', which is isotope-stripped: the photon energy hc/lambda "
                                      "is that of the element, not of the requested isotope" % (mname, txt))
                    # ... of the emitting ion: after charge exchange the receiver has one charge less; beam emission is from the neutral
                    # beam atom; excitation / recombination lines belong to the charge state the coefficient is requested for
                    if len(wc.args) >= 3:
                        run.subject('C07-R3')
                        ctxt = norm(wc.args[1]).replace(' ', '')
                        mp = params_of(m)
                        chp = [p_ for p_ in mp if 'charge' in p_]
                        if mname in ('beam_cx_pec', 'thermal_cx_pec'):
                            wantc = [p_ + '-1' for p_ in chp if 'receiver' in p_]
                        elif mname == 'beam_emission_pec':
                            wantc = ['0']
                        else:
                            wantc = [p_ for p_ in chp if p_ == 'charge'] or chp[:1]
                        ttxt = norm(wc.args[2])
                        if ctxt in wantc and ttxt == 'transition':
                            run.ok('C07-R3', '%s: wavelength of the emitting ion' % mname, 'charge %s' % ctxt, sample=False)
                        elif wantc:
                            run.fail('C07-R3', K + mname + '|wavelength-charge', *where(wc),
                                     what="%s requests the wavelength for charge '%s', transition '%s'; the line is emitted by charge state %s "
                                          "(the photon energy hc/lambda converts the coefficient)" % (mname, norm(wc.args[1]), ttxt, wantc[0]))
    # wavelength(): strips only as documented fallback
    w = oa.methods.get('wavelength')
    if w is None:
        raise AnalysisError('anchored method vanished: OpenADAS.wavelength')
    fam = _wavelength_family(oa)
    wl_fns = [(n, f) for n, f in fam if any(isinstance(c, ast.Call) and dotted(c.func) == 'repository.get_wavelength' for c in ast.walk(f))]
    if not wl_fns:
        raise AnalysisError('OpenADAS.wavelength never reaches repository.get_wavelength')
    hs = []
    for wname, wf in wl_fns:
        p = params_of(wf)[1]
        if wf is not w:
            # the private helper must receive the requested species itself
            run.subject('C07-R3')
            cs = [c for n, f in fam for c in ast.walk(f) if isinstance(c, ast.Call) and dotted(c.func) == 'self.' + wname]
            p0 = params_of(w)[1]
            if cs and all(c.args and norm(c.args[0]) == p0 for c in cs) and any(f is w for n, f in fam):
                run.ok('C07-R3', 'wavelength: helper %s receives the requested species' % wname, p0)
            else:
                run.undecided('C07-R3', 'wavelength helper %s' % wname, 'species argument not recognised: %s' % [norm(c)[:60] for c in cs])
                continue
        for c in [c for c in ast.walk(wf) if isinstance(c, ast.Call) and dotted(c.func) == 'repository.get_wavelength']:
            run.subject('C07-R3')
            a0 = norm(c.args[0])
            f = facts(guards_of(wf, c) or [])
            in_handler = any(isinstance(t, ast.Try) and any(x is c for h in t.handlers for x in ast.walk(h)) for t in ast.walk(wf))
            if a0 == p:
                run.ok('C07-R3', 'wavelength: direct lookup', norm(c)[:70])
            elif a0 == p + '.element' and in_handler and any('self._wavelength_element_fallback' in a[0] and a[1] == 'true' for a in f):
                run.ok('C07-R3', 'wavelength: element fallback', 'inside RuntimeError handler under _wavelength_element_fallback')
            else:
                run.fail('C07-R3', K + 'wavelength|strip', OA, c.lineno,
                         "wavelength() looks up '%s' outside the documented fallback (guards %s, in handler %s)" % (a0, sorted(f), in_handler))
        hs += [h for t in ast.walk(wf) if isinstance(t, ast.Try) for h in t.handlers]
    run.subject('C07-R3')
    if hs and all(dotted(h.type) == 'RuntimeError' for h in hs):
        run.ok('C07-R3', 'wavelength: fallback handler', 'except RuntimeError')
    else:
        run.fail('C07-R3', K + 'wavelength|fallback-handler', OA, w.lineno,
                 'wavelength() fallback does not catch the RuntimeError raised by get_wavelength: %s' % [norm(h.type) for h in hs])
    if n_acc < 13:
        raise AnalysisError('only %d rate accessors found in OpenADAS (floor 13)' % n_acc)
    run.floor('C07-R1', 13)
    run.floor('C07-R2', 26, 'obligations')
    run.floor('C07-R3', 20, 'obligations')


def _stripped(m, gcall, e):
    """Is expression e isotope-free at gcall on every path? Returns a description or None."""
    if not isinstance(e, ast.Name):
        return None
    name = e.id
    # (b) local defined by conditional expression "p.element if isinstance(p, Isotope) else p"
    defs = [(v, st) for t, v, st in stores(m) if isinstance(t, ast.Name) and t.id == name]
    for v, st in defs:
        if isinstance(v, ast.IfExp) and isinstance(v.test, ast.Call) and dotted(v.test.func) == 'isinstance' \
                and norm(v.test.args[1]) == 'Isotope' and norm(v.body) == norm(v.test.args[0]) + '.element' \
                and norm(v.orelse) == norm(v.test.args[0]) and st.lineno < gcall.lineno and not guards_of(m, st):
            return 'local:%s = %s' % (name, norm(v))
    # (a) parameter re-bound under "if isinstance(p, Isotope): p = p.element" at top level before the call
    for st in m.body:
        if getattr(st, 'lineno', 0) >= gcall.lineno:
            break
        if isinstance(st, ast.If) and isinstance(st.test, ast.Call) and dotted(st.test.func) == 'isinstance' \
                and norm(st.test.args[0]) == name and norm(st.test.args[1]) == 'Isotope' and not st.orelse:
            for s in st.body:
                if isinstance(s, ast.Assign) and norm(s.targets[0]) == name and norm(s.value) == name + '.element':
                    return 'param:' + name
    return None


def _reassigned_before(m, name, node):
    for t, v, st in stores(m):
        if isinstance(t, ast.Name) and t.id == name and st.lineno < node.lineno:
            return True
    return False


# ------------------------------------------------------------------------------------------------
def _rate_classes(run, prog):
    run.describe('C07-R4', 'evaluate(): every density/temperature/energy parameter guarded "<= 0 -> return 0" before interpolators/log10')
    run.describe('C07-R5', "Interpolator*Array extrapolation type is 'none' exactly when extrapolate is false")
    run.describe('C07-R6', 'unit wiring and axis/argument kind agreement')
    run.describe('C07-R7', 'single-point axes: the degenerate branches of an interpolant agree with the full-grid branch (axis, argument position, table slice, length test)')
    n_interp = 0
    for ci in sorted(prog.classes.values(), key=lambda c: c.qual):
        if not ci.mod.relpath.startswith('cherab/openadas/rates/'):
            continue
        ev = ci.methods.get('evaluate')
        init = ci.methods.get('__init__')
        if ev is None:
            continue
        run.functions += 1
        K = '%s|%s|' % (ci.mod.name, ci.name)
        where = lambda n: (ci.mod.relpath, getattr(n, 'lineno', ev.lineno))
        params = params_of(ev)[1:]
        if ci.name.startswith('Null'):
            run.subject('C07-R4')
            rets = [r for r in ast.walk(ev) if isinstance(r, ast.Return)]
            if rets and all(norm(r.value) in ('0.0', '0') for r in rets):
                run.ok('C07-R4', ci.name + '.evaluate', 'zero everywhere', sample=False)
            else:
                run.fail('C07-R4', K + 'evaluate|null-not-zero', *where(ev), what='%s.evaluate does not return zero everywhere' % ci.name)
            continue
        n_interp += 1
        # ---- R4 guards
        sinks = [c for c in ast.walk(ev) if isinstance(c, ast.Call) and (
            (isinstance(c.func, ast.Attribute) and c.func.attr == 'evaluate') or dotted(c.func) in ('log10', 'log', 'np.log10'))]
        for p in params:
            if UNGUARDED_OK.search(p):
                continue
            run.subject('C07-R4')
            bad = None
            for s in sinks:
                f = facts(guards_of(ev, s) or [])
                if (p, '>', '0') not in f:
                    bad = s
                    break
            # the guard must return zero
            guard_ret_ok = False
            for st in ast.walk(ev):
                if isinstance(st, ast.If) and always_exits(st.body):
                    tests = st.test.values if isinstance(st.test, ast.BoolOp) and isinstance(st.test.op, ast.Or) else [st.test]
                    if any(norm(t) in ('%s <= 0' % p, '%s <= 0.0' % p, '0 >= %s' % p) for t in tests):
                        rets = [r for r in st.body if isinstance(r, ast.Return)]
                        if rets and norm(rets[0].value) in ('0', '0.0'):
                            guard_ret_ok = True
            if bad is None and guard_ret_ok and sinks:
                run.ok('C07-R4', '%s.evaluate(%s)' % (ci.name, p), '%s <= 0 -> return 0 dominates %d sinks' % (p, len(sinks)))
            elif not sinks:
                run.undecided('C07-R4', '%s.evaluate' % ci.name, 'no interpolator call found')
            else:
                run.fail('C07-R4', K + 'evaluate|unguarded|' + p, *where(bad or ev),
                         what="%s.evaluate: '%s' reaches %s without a '%s <= 0 -> return 0' guard: non-positive %s does not give zero"
                              % (ci.name, p, norm(bad)[:50] if bad is not None else 'the result', p, kind_of(p)))
        if init is None:
            continue
        # ---- R5 extrapolation wiring
        ldefs = {}
        for t, v, st in stores(init):
            if isinstance(t, ast.Name):
                ldefs.setdefault(t.id, []).append(v)
        field_axes = {}
        for c in [c for c in ast.walk(init) if isinstance(c, ast.Call) and dotted(c.func) in INTERP]:
            nd = INTERP[dotted(c.func)]
            run.subject('C07-R5')
            if len(c.args) < nd + 3:
                run.undecided('C07-R5', ci.name, 'interpolator with unexpected arguments: ' + norm(c)[:60])
                continue
            ex = c.args[nd + 2]
            v = ex
            if isinstance(ex, ast.Name) and len(ldefs.get(ex.id, [])) == 1:
                v = ldefs[ex.id][0]
            elif isinstance(ex, ast.Name) and len(ldefs.get(ex.id, [])) == 2 and all(isinstance(d, ast.Constant) for d in ldefs[ex.id]):
                # the same choice written as a statement: if extrapolate: t = 'nearest' else: t = 'none'
                arms = {}
                for t_, d_, st_ in stores(init):
                    if isinstance(t_, ast.Name) and t_.id == ex.id:
                        ff = facts(guards_of(init, st_) or [])
                        if ('extrapolate', 'true', '') in ff:
                            arms[True] = d_
                        elif ('extrapolate', 'false', '') in ff:
                            arms[False] = d_
                if set(arms) == {True, False}:
                    v = ast.IfExp(test=ast.Name(id='extrapolate', ctx=ast.Load()), body=arms[True], orelse=arms[False])
            if isinstance(v, ast.IfExp) and norm(v.test) == 'extrapolate' and isinstance(v.orelse, ast.Constant) and v.orelse.value == 'none' \
                    and isinstance(v.body, ast.Constant) and v.body.value in ('nearest', 'linear', 'quadratic'):
                run.ok('C07-R5', '%s %s' % (ci.name, dotted(c.func)), norm(v), sample=False)
            else:
                run.fail('C07-R5', K + '__init__|extrapolation|' + norm(c.args[0])[:30], ci.mod.relpath, c.lineno,
                         "%s: interpolator extrapolation type is %s; it must be a real type when extrapolate is true and 'none' otherwise"
                         % (ci.name, norm(v)))
        # ---- R6 unit wiring
        _units(run, prog, ci, init, ev, ldefs, K)
        _degenerate_axes(run, ci, init, K)
        _nonneg(run, ci, ev, K)
    _degenerate_1d(run, prog)
    _photon_conversion(run, prog)
    run.include('C06', set(REPO), 'every rate the provider returns is what the repository getter read: stored record for the stored key, RuntimeError when missing')
    _call_forwards(run, prog)
    if n_interp < 13:
        raise AnalysisError('only %d interpolating rate classes found (floor 13)' % n_interp)
    run.floor('C07-R4', 40, 'obligations')
    run.floor('C07-R5', 20, 'obligations')


def _inner(a):
    """axis expression -> (array text, logged)"""
    if isinstance(a, ast.Call) and dotted(a.func) in ('np.log10', 'log10') and a.args:
        return norm(a.args[0]), True
    return norm(a), False


def _len1_facts(f):
    return {l[4:-1] for (l, op, r) in f if op == '==' and r == '1' and l.startswith('len(') and l.endswith(')')}


def _subst_bool_locals(guards, fn):
    """Replace local names that have exactly one definition (a comparison or boolean expression) inside guard tests."""
    defs = {}
    for t, v, st in stores(fn):
        if isinstance(t, ast.Name):
            defs.setdefault(t.id, []).append(v)

    class Sub(ast.NodeTransformer):
        def visit_Name(self, n):
            d = defs.get(n.id)
            if d and len(d) == 1 and isinstance(d[0], (ast.Compare, ast.BoolOp, ast.UnaryOp)):
                return d[0]
            return n
    out = []
    for e, pol in guards:
        if isinstance(e, ast.expr):
            import copy
            e = Sub().visit(copy.deepcopy(e))
        out.append((e, pol))
    return out


def _degenerate_axes(run, ci, init, K):
    """R7: the single-point branches of a 2D interpolant agree with the full-grid branch: the remaining axis is mapped to the
    same argument position, uses the same axis array and the matching slice of the table, under the matching length test."""
    by_field = {}
    for t, v, st in stores(init):
        if isinstance(t, ast.Attribute) and norm(t.value) == 'self' and isinstance(v, ast.Call):
            by_field.setdefault(t.attr, []).append((v, st))
    for fld, vs in sorted(by_field.items()):
        ref = [v for v, st in vs if dotted(v.func) == 'Interpolator2DArray' and len(v.args) >= 3]
        if len(vs) < 2 or len(ref) != 1:
            continue
        X, Y, T = ref[0].args[0], ref[0].args[1], norm(ref[0].args[2])
        xa, ya = _inner(X)[0], _inner(Y)[0]
        for v, st in vs:
            if v is ref[0]:
                continue
            run.subject('C07-R7')
            gs = _subst_bool_locals(guards_of(init, st) or [], init)
            f = facts(gs)
            one = _len1_facts(f)
            from ..flow import implied_atoms
            imp = implied_atoms(gs, ['len(%s) == 1' % xa, 'len(%s) == 1' % ya])
            one |= {a[4:-6] for a, v in imp.items() if v}
            name = dotted(v.func)
            key = K + '__init__|degenerate:%s:' % fld
            if name == 'Constant2D' and len(v.args) == 1:
                if norm(v.args[0]) == '%s[0, 0]' % T and {xa, ya} <= one:
                    run.ok('C07-R7', '%s.%s single point' % (ci.name, fld), norm(v))
                else:
                    run.fail('C07-R7', key + 'constant', ci.mod.relpath, st.lineno,
                             '%s.%s: the constant branch uses %s under len()==1 of %s; expected %s[0, 0] when both %s and %s have one point'
                             % (ci.name, fld, norm(v.args[0]), sorted(one), T, xa, ya))
            elif name == 'IsoMapper2D' and len(v.args) == 2 and isinstance(v.args[0], ast.Call) and dotted(v.args[0].func) == 'Arg2D' \
                    and v.args[0].args and isinstance(v.args[0].args[0], ast.Constant) and isinstance(v.args[1], ast.Call) \
                    and dotted(v.args[1].func) == 'Interpolator1DArray' and len(v.args[1].args) >= 2:
                k = v.args[0].args[0].value
                A, S = v.args[1].args[0], norm(v.args[1].args[1])
                if k == 'x':
                    want_axis, want_slices, gone = norm(X), ('%s[:, 0]' % T,), ya
                elif k == 'y':
                    want_axis, want_slices, gone = norm(Y), ('%s[0]' % T, '%s[0, :]' % T), xa
                else:
                    run.undecided('C07-R7', '%s.%s' % (ci.name, fld), "Arg2D(%r)" % k)
                    continue
                probs = []
                if norm(A) != want_axis:
                    probs.append("interpolates over %s but feeds it the '%s' argument, which the full grid uses for %s" % (norm(A), k, want_axis))
                if S not in want_slices:
                    probs.append('uses the table slice %s, expected %s' % (S, want_slices[0]))
                if gone not in one:
                    probs.append('is not under len(%s) == 1' % gone)
                if probs:
                    run.fail('C07-R7', key + 'isomapper:' + k, ci.mod.relpath, st.lineno,
                             '%s.%s single-point branch %s: it does not reproduce the table the way the full-grid branch %s does'
                             % (ci.name, fld, '; '.join(probs), norm(ref[0])[:60]))
                else:
                    run.ok('C07-R7', "%s.%s one axis ('%s')" % (ci.name, fld, k), norm(v)[:80])
            else:
                run.undecided('C07-R7', '%s.%s' % (ci.name, fld), 'branch form not recognised: ' + norm(v)[:60])


def _call_forwards(run, prog):
    """R9: the Python call syntax of a rate is its evaluate(): __call__(self, a, b, ...) forwards exactly its own parameters, in order, to
    self.evaluate -- in the core base classes (which the OpenADAS rates inherit __call__ from) and in any rate class that overrides it."""
    run.describe('C07-R9', '__call__ of every rate class forwards its parameters to evaluate() in order')
    n = 0
    for ci in sorted(prog.classes.values(), key=lambda c: c.qual):
        if not (ci.mod.relpath == CORE or ci.mod.relpath in RATES):
            continue
        cf, evf = ci.methods.get('__call__'), ci.methods.get('evaluate')
        if cf is None:
            continue
        n += 1
        run.subject('C07-R9')
        ps = [a_.arg for a_ in cf.args.args[1:]]
        calls = [c for c in ast.walk(cf) if isinstance(c, ast.Call) and norm(c.func) == 'self.evaluate']
        rets = [r for r in ast.walk(cf) if isinstance(r, ast.Return) and r.value is not None]
        if len(calls) != 1 or len(rets) != 1 or rets[0].value is not calls[0]:
            run.undecided('C07-R9', ci.name + '.__call__', 'does not return a single self.evaluate(...) call')
            continue
        got = [norm(a_) for a_ in calls[0].args] + ['%s=%s' % (k.arg, norm(k.value)) for k in calls[0].keywords]
        eps = [a_.arg for a_ in evf.args.args[1:]] if evf is not None else ps
        bound = dict(zip(eps, [norm(a_) for a_ in calls[0].args]))
        bound.update({k.arg: norm(k.value) for k in calls[0].keywords if k.arg})
        if len(eps) == len(ps) and [bound.get(e_) for e_ in eps] == ps:
            run.ok('C07-R9', ci.name + '.__call__', 'evaluate(%s)' % ', '.join(got), sample=False)
        else:
            run.fail('C07-R9', '%s|%s|__call__|forwarding' % (ci.mod.name, ci.name), ci.mod.relpath, calls[0].lineno,
                     '%s.__call__(%s) calls evaluate(%s): rate(%s) does not evaluate the rate at those arguments (two of them are exchanged or dropped)'
                     % (ci.name, ', '.join(ps), ', '.join(got), ', '.join(ps)))
    run.floor('C07-R9', 8)


def _photon_conversion(run, prog):
    """R10: 'photon coefficients times hc/lambda': PhotonToJ.to(x, wavelength) = x * (h c 1e9) / wavelength with the wavelength in nm, and
    inv its inverse; the constants are scipy's Planck and speed_of_light."""
    from ..algebra import SymEval, L, C
    from ..inline import propagate, flatten, module_lookup
    run.describe('C07-R10', 'PhotonToJ: to(x, w) = x * Planck * speed_of_light * 1e9 / w (w in nm), inv(to(x, w), w) = x')
    rel = 'cherab/core/utility/conversion.py'
    cm = prog.load(rel, required=False)
    if cm is None:
        raise AnalysisError('anchored source file vanished: %s' % rel)
    run.use_file(rel)
    c = cm.classes.get('PhotonToJ')
    if c is None:
        raise AnalysisError('anchored class vanished: PhotonToJ')
    K = 'cherab.core.utility.conversion|PhotonToJ|'
    run.subject('C07-R10')
    # the constants are the ones scipy.constants names Planck and speed_of_light (under any local alias)
    consts = {}
    for local, qual in cm.imports.items():
        if qual in ('scipy.constants.Planck', 'scipy.constants.h'):
            consts[local] = L('h')
        elif qual in ('scipy.constants.speed_of_light', 'scipy.constants.c'):
            consts[local] = L('c')
        elif qual.startswith('scipy.constants.'):
            consts[local] = L('scipy:' + qual.rsplit('.', 1)[1])

    class E(SymEval):
        def name(self, n):
            if n.id in consts:
                return consts[n.id]
            if n.id in cm.assigns:
                return self.ev(cm.assigns[n.id])
            return super().name(n)
    fac = None
    for st in c.body:
        if isinstance(st, ast.Assign) and norm(st.targets[0]) == 'conversion_factor':
            try:
                fac = E().ev(st.value)
            except Exception:
                fac = None
    want = L('h') * L('c') * C(10 ** 9)
    if fac is None and not any(isinstance(n, (ast.Assign, ast.AnnAssign)) and 'conversion_factor' in norm(n.targets[0] if isinstance(n, ast.Assign) else n.target)
                               for n in ast.walk(c)):
        run.fail('C07-R10', K + 'factor', rel, c.lineno, 'PhotonToJ defines no conversion_factor: to / inv read the attribute of the base class '
                 '(None) instead of h c in J nm')
    elif fac is None:
        run.undecided('C07-R10', 'PhotonToJ.conversion_factor', 'not a recognised arithmetic expression')
    elif fac.eq(want):
        run.ok('C07-R10', 'PhotonToJ.conversion_factor', 'Planck * speed_of_light * 1e9')
    else:
        run.fail('C07-R10', K + 'factor', rel, c.lineno, 'PhotonToJ.conversion_factor is %s; documented: h c in J nm, i.e. Planck * speed_of_light * 1e9 '
                 '(every photon emission coefficient of the provider is scaled by it)' % fac.key()[:60])
    fs = {f.name: f for f in c.body if isinstance(f, ast.FunctionDef)}

    def value(f):
        try:
            f = flatten(f, module_lookup(cm))
        except Exception:
            pass
        g = propagate(f)
        rets = [r for r in ast.walk(g) if isinstance(r, ast.Return) and r.value is not None]
        if len(rets) != 1:
            return None
        try:
            return SymEval().ev(rets[0].value)
        except Exception:
            return None
    run.subject('C07-R10')
    if 'to' not in fs or 'inv' not in fs:
        raise AnalysisError('anchored method vanished: PhotonToJ.to / inv')
    vt, vi = value(fs['to']), value(fs['inv'])
    F = L('cls.conversion_factor')
    if vt is None or vi is None or any(l.startswith('?') for v in (vt, vi) for l in v.leaves()):
        run.undecided('C07-R10', 'PhotonToJ.to / inv', 'not in a recognised arithmetic form')
    else:
        xt, wt = [L(a.arg) for a in fs['to'].args.args[-2:]]
        xi, wi = [L(a.arg) for a in fs['inv'].args.args[-2:]]
        if not vt.eq(xt * F / wt):
            run.fail('C07-R10', K + 'to', rel, fs['to'].lineno, 'PhotonToJ.to returns %s; documented: x * conversion_factor / wavelength '
                     '(photon energy hc / lambda)' % vt.key()[:60])
        elif not vi.eq(xi * wi / F):
            run.fail('C07-R10', K + 'inv', rel, fs['inv'].lineno, 'PhotonToJ.inv returns %s, which is not the inverse of to '
                     '(x * wavelength / conversion_factor)' % vi.key()[:60])
        else:
            run.ok('C07-R10', 'PhotonToJ.to / inv', 'x * F / w and x * w / F')
    # the other conversions the rate classes and the provider use: value of every factor, and to / inv of the two base forms
    consts2 = dict(consts)
    for local, qual in cm.imports.items():
        if qual in ('scipy.constants.atomic_mass', 'scipy.constants.m_u', 'scipy.constants.u'):
            consts2[local] = L('m_u')
        elif qual in ('scipy.constants.elementary_charge', 'scipy.constants.e'):
            consts2[local] = L('e')

    class E2(SymEval):
        def name(self, n):
            if n.id in consts2:
                return consts2[n.id]
            return super().name(n)
    FACT = {'EvAmuToMS': C(2) * L('e') / L('m_u'), 'AmuToKg': L('m_u'), 'EvToJ': L('e'), 'Cm3ToM3': C(Fraction(1, 10 ** 6)), 'PerCm3ToPerM3': C(10 ** 6),
            'AngstromToNm': C(Fraction(1, 10))}
    for cname, wantf in FACT.items():
        cc = cm.classes.get(cname)
        if cc is None:
            continue
        run.subject('C07-R10')
        got = None
        for st in cc.body:
            if isinstance(st, ast.Assign) and norm(st.targets[0]) == 'conversion_factor':
                try:
                    got = E2().ev(st.value)
                except Exception:
                    got = None
        ok_ = False
        if got is not None:
            try:
                ok_ = got.eq(wantf) or (got.is_const() and wantf.is_const() and abs(float(got.const_value()) / float(wantf.const_value()) - 1) < 1e-12)
            except Exception:
                ok_ = False
        if ok_:
            run.ok('C07-R10', cname + '.conversion_factor', wantf.key(), sample=False)
        elif got is None:
            run.fail('C07-R10', K.replace('PhotonToJ', cname) + 'factor', rel, cc.lineno, '%s has no conversion_factor' % cname)
        else:
            run.fail('C07-R10', K.replace('PhotonToJ', cname) + 'factor', rel, cc.lineno, '%s.conversion_factor is %s; documented: %s' % (cname, got.key()[:60], wantf.key()))
    for cname, wt, wi in (('EvAmuToMS', 'sqrt', 'square'), ('BaseFactorConversion', 'mul', 'div')):
        cc = cm.classes.get(cname)
        if cc is None:
            continue
        fs2 = {f.name: f for f in cc.body if isinstance(f, ast.FunctionDef)}
        if 'to' not in fs2 or 'inv' not in fs2:
            continue
        run.subject('C07-R10')

        class E3(SymEval):
            def call(self, n):
                if (dotted(n.func) or '').split('.')[-1] == 'sqrt' and len(n.args) == 1:
                    return self.sqrt(self.ev(n.args[0]))
                return super().call(n)

        def val2(f):
            try:
                f = flatten(f, module_lookup(cm))
            except Exception:
                pass
            g = propagate(f)
            rets = [r for r in ast.walk(g) if isinstance(r, ast.Return) and r.value is not None]
            if len(rets) != 1:
                return None
            try:
                return E3().ev(rets[0].value)
            except Exception:
                return None
        vt, vi = val2(fs2['to']), val2(fs2['inv'])
        x1, x2 = L(fs2['to'].args.args[-1].arg), L(fs2['inv'].args.args[-1].arg)
        if vt is None or vi is None or any(l.startswith('?') or '(' in l for v in (vt, vi) for l in v.leaves() if not l.startswith('sqrt')):
            run.undecided('C07-R10', cname + '.to / inv', 'not in a recognised arithmetic form')
            continue
        if wt == 'sqrt':
            good = vt.eq(E3().sqrt(x1 * F)) and vi.eq(x2 * x2 / F)
            doc = 'to = sqrt(x F), inv = x^2 / F'
        else:
            good = vt.eq(x1 * F) and vi.eq(x2 / F)
            doc = 'to = x F, inv = x / F'
        if good:
            run.ok('C07-R10', cname + '.to / inv', doc, sample=False)
        else:
            run.fail('C07-R10', K.replace('PhotonToJ', cname) + 'to-inv', rel, cc.lineno, '%s: to = %s, inv = %s; documented: %s' % (cname, vt.key()[:50], vi.key()[:50], doc))
    run.floor('C07-R10', 2)


def _is_interp1(e):
    return isinstance(e, ast.Call) and (dotted(e.func) or '').split('.')[-1] == 'Interpolator1DArray' and len(e.args) >= 2


def _one_point_branches(fn):
    """(test, full-grid call, single-point value, full-grid branch taken when the test is true, line) for both spellings of the choice:
    the conditional expression and the if/else statement assigning the same target in both arms."""
    for e in ast.walk(fn):
        if isinstance(e, ast.IfExp):
            if _is_interp1(e.body):
                yield e.test, e.body, e.orelse, True, e.lineno
            elif _is_interp1(e.orelse):
                yield e.test, e.orelse, e.body, False, e.lineno
        elif isinstance(e, (ast.FunctionDef, ast.If, ast.For, ast.While, ast.With, ast.Try)):
            # the early-return spelling: 'if T: return Interpolator1DArray(...)' followed by 'return Constant1D(...)' (or the reverse)
            for blk in [getattr(e, f_, None) for f_ in ('body', 'orelse')]:
                if not isinstance(blk, list):
                    continue
                for k_, st in enumerate(blk[:-1]):
                    nxt = blk[k_ + 1]
                    if isinstance(st, ast.If) and not st.orelse and len(st.body) == 1 and isinstance(st.body[0], ast.Return) \
                            and st.body[0].value is not None and isinstance(nxt, ast.Return) and nxt.value is not None:
                        if _is_interp1(st.body[0].value):
                            yield st.test, st.body[0].value, nxt.value, True, st.lineno
                        elif _is_interp1(nxt.value):
                            yield st.test, nxt.value, st.body[0].value, False, st.lineno
        if isinstance(e, ast.If) and e.orelse:
            for full, other, pos in ((e.body, e.orelse, True), (e.orelse, e.body, False)):
                for st in full:
                    if isinstance(st, ast.Assign) and len(st.targets) == 1 and _is_interp1(st.value):
                        for st2 in other:
                            if isinstance(st2, ast.Assign) and len(st2.targets) == 1 and norm(st2.targets[0]) == norm(st.targets[0]):
                                yield e.test, st.value, st2.value, pos, st.lineno


def _more_than_one(test, names):
    """'the axis has more than one point' spelled as a comparison of len(x) / x.size / x.shape[0] with a constant, x one of `names`:
    True / False (its negation) / 'wrong' (a different threshold) / None (not recognised)."""
    if isinstance(test, ast.UnaryOp) and isinstance(test.op, ast.Not):
        r = _more_than_one(test.operand, names)
        return (not r) if isinstance(r, bool) else r
    if not (isinstance(test, ast.Compare) and len(test.ops) == 1):
        return None
    l, op, r = test.left, test.ops[0], test.comparators[0]
    flip = {ast.Gt: ast.Lt, ast.Lt: ast.Gt, ast.GtE: ast.LtE, ast.LtE: ast.GtE, ast.Eq: ast.Eq, ast.NotEq: ast.NotEq}
    if isinstance(l, ast.Constant):
        l, r, op = r, l, flip.get(type(op), type(None))()
    if not (isinstance(r, ast.Constant) and isinstance(r.value, int)):
        return None
    ln = norm(l)
    if not any(ln in ('len(%s)' % x, '%s.size' % x, '%s.shape[0]' % x) for x in names):
        return None
    k = r.value
    table = {(ast.Gt, 1): True, (ast.GtE, 2): True, (ast.NotEq, 1): True, (ast.Eq, 1): False, (ast.Lt, 2): False, (ast.LtE, 1): False}
    got = table.get((type(op), k))
    if got is None and isinstance(op, (ast.Gt, ast.GtE, ast.Lt, ast.LtE, ast.Eq, ast.NotEq)):
        return 'wrong'
    return got


def _degenerate_1d(run, prog):
    """R7 (1D): 'Interpolator1DArray(x, f, ..) if len(f) > 1 else Constant1D(f[0])' -- on a single-point axis the component is the
    constant function whose value is the single stored table value.  Decided on the value of each arm (locals resolved), for the
    conditional-expression and the statement spelling, either orientation of the test."""
    run.describe('C07-R7', 'single-point axes: the degenerate branches of an interpolant agree with the full-grid branch (axis, argument position, table slice, length test)')
    from ..inline import resolver
    for mi in prog.modules.values():
        if not mi.relpath.startswith('cherab/openadas/rates/') or mi.name.endswith('#pxd'):
            continue
        for fn in [n for n in ast.walk(mi.tree) if isinstance(n, (ast.FunctionDef, ast.AsyncFunctionDef))]:
            for test, full, single, pos, line in _one_point_branches(fn):
                run.subject('C07-R7')
                tab = norm(full.args[1])
                axis = _inner(full.args[0])[0]
                res = resolver(fn, stop=(tab, axis))
                key = '%s|degenerate-1d:%s' % (mi.name, tab)
                what = '%s 1D %s' % (mi.relpath.split('/')[-1], tab)
                base_ = ()
                if isinstance(full.args[1], ast.BinOp) and isinstance(full.args[1].op, (ast.Div, ast.Mult)):
                    base_ = (norm(full.args[1].left),)            # the table before a scalar normalisation has the same length
                m = _more_than_one(test, (tab, axis) + base_)
                if m is None:
                    m = _more_than_one(res(test), (tab, axis) + base_)
                if m == 'wrong' or (isinstance(m, bool) and m != pos):
                    run.fail('C07-R7', key, mi.relpath, line,
                             'the full-grid interpolant over %s is chosen under %s%s: the constant branch must be taken exactly when the axis has one point'
                             % (tab, '' if pos else 'not ', norm(test)))
                    continue
                if m is None:
                    # a recognisable length test, but on another array than the table / axis of this interpolant (a neighbouring component):
                    # the constant branch is then taken for the wrong component
                    others = set()
                    for st_ in ast.walk(fn):
                        if isinstance(st_, ast.Assign) and len(st_.targets) == 1 and isinstance(st_.targets[0], ast.Name):
                            others.add(st_.targets[0].id)
                    others |= {a_.arg for a_ in fn.args.args}
                    foreign = [o for o in sorted(others - {tab, axis} - set(base_)) if _more_than_one(test, (o,)) is not None]
                    if foreign:
                        run.fail('C07-R7', key + '|foreign-length', mi.relpath, line,
                                 'the choice between the interpolant over %s and its single-point constant is made on the length of %s, not of %s: with '
                                 'axes of different lengths the component is frozen at its first value, or the constructor fails on valid data'
                                 % (tab, foreign[0], tab))
                    else:
                        run.undecided('C07-R7', what, 'length test not recognised: ' + norm(test)[:50])
                    continue
                sv = single if not isinstance(single, ast.Name) else res(single)
                if not (isinstance(sv, ast.Call) and (dotted(sv.func) or '').split('.')[-1] == 'Constant1D' and len(sv.args) == 1):
                    run.undecided('C07-R7', what, 'single-point branch not recognised: ' + norm(sv)[:50])
                    continue
                arg = sv.args[0]
                if isinstance(arg, ast.Name):
                    arg = res(arg)
                while isinstance(arg, ast.Call) and dotted(arg.func) in ('float', 'np.float64') and len(arg.args) == 1:
                    arg = arg.args[0]
                scaled = full.args[1] if isinstance(full.args[1], ast.BinOp) and isinstance(full.args[1].op, (ast.Div, ast.Mult)) else None
                if scaled is not None and isinstance(arg, ast.Subscript) and norm(arg.slice) in ('0', '-1') \
                        and norm(arg.value) in (norm(scaled.left), norm(scaled.right)):
                    run.fail('C07-R7', key + '|scale', mi.relpath, line,
                             'the full-grid branch interpolates %s but the single-point branch is the constant %s: the factor applied to the table is '
                             'missing when the axis has one point, so the component is off by that factor' % (tab, norm(arg)))
                elif scaled is not None and isinstance(arg, ast.BinOp) and type(arg.op) is type(scaled.op) \
                        and isinstance(arg.left, ast.Subscript) and norm(arg.left.slice) in ('0', '-1') and norm(arg.left.value) == norm(scaled.left) \
                        and norm(arg.right) == norm(scaled.right):
                    run.ok('C07-R7', what, norm(test) + ' / ' + norm(sv)[:50], sample=False)
                elif isinstance(arg, ast.Subscript) and norm(arg.value) == tab and norm(arg.slice) in ('0', '-1'):
                    run.ok('C07-R7', what, norm(test) + ' / ' + norm(sv)[:50], sample=False)
                elif tab not in {norm(x) for x in ast.walk(arg) if isinstance(x, (ast.Name, ast.Attribute, ast.Subscript))}:
                    run.fail('C07-R7', key, mi.relpath, line,
                             'single-point branch is %s, which does not depend on the table %s; expected the constant %s[0] when the axis has one point'
                             % (norm(sv), tab, tab))
                else:
                    run.undecided('C07-R7', what, 'single-point value not recognised: ' + norm(arg)[:50])
    run.floor('C07-R7', 9)


def _nonneg(run, ci, ev, K):
    """R8: evaluate() is non-negative by construction: it returns 0, 10 ** (...), or a local that was tested '<= 0 -> return 0'
    after its last multiplication by a linear-space interpolant."""
    run.describe('C07-R8', 'evaluate() is non-negative by construction (0, 10**x, or a product clamped after its last linear-space factor)')

    def pos(e, state):
        if isinstance(e, ast.Constant) and isinstance(e.value, (int, float)):
            return e.value >= 0
        if isinstance(e, ast.BinOp) and isinstance(e.op, ast.Pow) and isinstance(e.left, ast.Constant) and e.left.value == 10:
            return True
        if isinstance(e, ast.BinOp) and isinstance(e.op, (ast.Mult, ast.Div, ast.Add)):
            return pos(e.left, state) and pos(e.right, state)
        if isinstance(e, ast.Name):
            return state.get(e.id, False)
        if isinstance(e, ast.Call) and dotted(e.func) in ('abs', 'fabs', 'exp', 'sqrt'):
            return True
        return False
    state = {}
    decided = True
    for st in ev.body:
        if isinstance(st, ast.Assign) and len(st.targets) == 1 and isinstance(st.targets[0], ast.Name):
            state[st.targets[0].id] = pos(st.value, state)
        elif isinstance(st, ast.AugAssign) and isinstance(st.target, ast.Name):
            state[st.target.id] = isinstance(st.op, (ast.Mult, ast.Add, ast.Div)) and state.get(st.target.id, False) and pos(st.value, state)
        elif isinstance(st, ast.If) and always_exits(st.body) and not st.orelse:
            tests = st.test.values if isinstance(st.test, ast.BoolOp) and isinstance(st.test.op, ast.Or) else [st.test]
            rets = [r for r in st.body if isinstance(r, ast.Return)]
            zero = rets and all(isinstance(r.value, ast.Constant) and r.value.value == 0 for r in rets)
            for t in tests:
                if isinstance(t, ast.Compare) and len(t.ops) == 1 and isinstance(t.left, ast.Name) and isinstance(t.ops[0], (ast.LtE, ast.Lt)) \
                        and norm(t.comparators[0]) in ('0', '0.0') and zero:
                    state[t.left.id] = True
            for r in rets:
                if not pos(r.value, state):
                    decided = False
        elif isinstance(st, ast.Return):
            run.subject('C07-R8')
            if st.value is not None and pos(st.value, state):
                run.ok('C07-R8', '%s.evaluate' % ci.name, 'returns %s' % norm(st.value)[:50], sample=False)
            elif isinstance(st.value, ast.Name) and st.value.id in state:
                run.fail('C07-R8', K + 'evaluate|may-be-negative', ci.mod.relpath, st.lineno,
                         "%s.evaluate returns '%s' after multiplying it by a linear-space interpolant without a final '<= 0 -> return 0' "
                         "test: a cubic spline that undershoots between grid points makes the rate negative" % (ci.name, st.value.id))
            else:
                run.undecided('C07-R8', '%s.evaluate' % ci.name, 'return form not recognised: %s' % norm(st.value)[:50])
        elif isinstance(st, (ast.Expr, ast.AnnAssign, ast.Pass)):
            continue
        else:
            decided = False
    if not decided:
        run.undecided('C07-R8', '%s.evaluate' % ci.name, 'statement forms outside the flat pattern')


def _resolve(e, ldefs, depth=0):
    """Inline single-assignment locals."""
    if depth > 6:
        return e
    if isinstance(e, ast.Name) and len(ldefs.get(e.id, [])) >= 1:
        return _resolve(ldefs[e.id][-1], ldefs, depth + 1)
    return e


class _UnitEval(SymEval):
    """tables as leaves data[key]; log10 and the photon conversion kept as named leaves; slices of a table are the table"""

    def subscript(self, n):
        if isinstance(n.value, ast.Name) and n.value.id == 'data' and isinstance(n.slice, ast.Constant):
            return L('data[%s]' % n.slice.value)
        return self.ev(n.value)

    def call(self, n):
        d = dotted(n.func) or ''
        if d in ('np.log10', 'log10', 'numpy.log10') and len(n.args) == 1:
            return L('log10(%s)' % self.ev(n.args[0]).key())
        if d == 'PhotonToJ.to' and len(n.args) == 2:
            return L('P2J(%s,%s)' % (self.ev(n.args[0]).key(), self.ev(n.args[1]).key()))
        if d in ('np.array', 'np.asarray', 'np.ascontiguousarray') and n.args:
            return self.ev(n.args[0])
        return super().call(n)


def _units(run, prog, ci, init, ev, ldefs, K):
    from ..inline import resolver
    iparams = params_of(init)
    has_w = 'wavelength' in iparams
    path = ci.mod.relpath
    res = resolver(init)
    ue = _UnitEval()
    tables = []        # (field, interpolator call, [axis Rat], table Rat)
    for t, v, st in stores(init):
        if isinstance(t, ast.Attribute) and norm(t.value) == 'self':
            for c in ast.walk(v):
                if isinstance(c, ast.Call) and dotted(c.func) in INTERP and len(c.args) > INTERP[dotted(c.func)]:
                    nd = INTERP[dotted(c.func)]
                    try:
                        tables.append((t.attr, c, [ue.ev(res(a)) for a in c.args[:nd]], ue.ev(res(c.args[nd]))))
                    except Exception:
                        pass
    EM = ('rate', 'sen', 'qeb')
    leaves = {l for f_, c_, ax_, tb in tables for l in tb.leaves()}
    run.subject('C07-R6')
    conv = [l for l in leaves if l.startswith('log10(P2J(')]
    raw = [l for l in leaves if any(l == 'log10(data[%s])' % k for k in EM)]
    anyp2j = [l for l in leaves if 'P2J(' in l]
    if not tables:
        run.undecided('C07-R6', ci.name + ' tables', 'no interpolator over a table recognised in __init__')
    elif has_w:
        good = [l for l in conv if any(l == 'log10(P2J(data[%s],wavelength))' % k for k in EM)]
        if good and not raw:
            run.ok('C07-R6', ci.name + ' photon -> J', good[0])
        elif raw or (conv and not good):
            run.fail('C07-R6', K + '__init__|photon-conversion', path, init.lineno,
                     '%s takes a wavelength but interpolates %s: the emission table is not converted with PhotonToJ.to(table, wavelength) before log10'
                     % (ci.name, (raw or conv)[0]))
        else:
            run.undecided('C07-R6', ci.name + ' photon -> J', 'emission table not recognised among %s' % sorted(leaves)[:4])
    else:
        if anyp2j:
            run.fail('C07-R6', K + '__init__|photon-conversion', path, init.lineno, '%s converts photons to J without being a photon coefficient' % ci.name)
        else:
            run.ok('C07-R6', ci.name + ' no photon conversion', 'rate in SI already', sample=False)
    # beam tables: log10(st / sref) and log10(sen)
    for fld, c, axes, tb in tables:
        if any('data[st]' in l for l in tb.leaves()):
            run.subject('C07-R6')
            want = L('log10(%s)' % (L('data[st]') / L('data[sref]')).key())
            if tb.eq(want):
                run.ok('C07-R6', ci.name + ' st/sref', tb.key())
            else:
                run.fail('C07-R6', K + '__init__|st-sref', path, c.lineno, '%s: the temperature factor table is %s, expected log10(st / sref)' % (ci.name, tb.key()[:100]))
        if any('data[sen]' in l for l in tb.leaves()):
            run.subject('C07-R6')
            want = L('log10(P2J(data[sen],wavelength))') if has_w else L('log10(data[sen])')
            if tb.eq(want):
                run.ok('C07-R6', ci.name + ' sen', tb.key(), sample=False)
            else:
                run.fail('C07-R6', K + '__init__|sen', path, c.lineno, '%s: the sen table is %s, expected %s' % (ci.name, tb.key()[:100], want.key()))
        for q, axk in (('qti', 'ti'), ('qni', 'ni'), ('qz', 'z'), ('qb', 'b')):
            if any(l == 'data[%s]' % q for l in tb.leaves()):
                run.subject('C07-R6')
                if tb.eq(L('data[%s]' % q) / L('data[qref]')) and len(axes) == 1 and axes[0].eq(L('data[%s]' % axk)):
                    run.ok('C07-R6', '%s %s/qref' % (ci.name, q), '%s over data[%s]' % (tb.key(), axk), sample=False)
                elif not tb.eq(L('data[%s]' % q) / L('data[qref]')):
                    run.fail('C07-R6', K + '__init__|' + q, path, c.lineno, '%s: the %s factor is %s, expected data[%s] / data[qref]' % (ci.name, q, tb.key()[:80], q))
                else:
                    run.fail('C07-R6', K + '__init__|' + q + '-axis', path, c.lineno,
                             '%s: the %s factor is tabulated over %s, expected data[%s]' % (ci.name, q, [a_.key()[:40] for a_ in axes], axk))
    # evaluate: axis kinds vs argument kinds, log10 pairing
    field_axes = {}
    for fld, c, axes, tb in tables:
        kinds = []
        for a_ in axes:
            k_ = a_.key()
            logged = k_.startswith('log10(')
            inner = k_[6:-1] if logged else k_
            m_ = re.match(r'^data\[(\w+)\]$', inner)
            kinds.append((kind_of(m_.group(1) if m_ else inner), logged))
        field_axes.setdefault(fld, []).append(kinds)
    eparams = params_of(ev)[1:]
    for c in [c for c in ast.walk(ev) if isinstance(c, ast.Call) and isinstance(c.func, ast.Attribute) and c.func.attr == 'evaluate'
              and norm(c.func.value).startswith('self.')]:
        fld = norm(c.func.value)[5:]
        if fld not in field_axes:
            continue
        run.subject('C07-R6')
        got = []
        own = _own_log10(ci.mod)
        if own is not None and any(isinstance(a, ast.Call) and dotted(a.func) == 'log10' for a in c.args):
            # the grid was built with numpy's log10; the evaluation coordinate must be the same function of the argument, else the
            # coordinate of an edge grid point can fall outside the interpolation range (and raise when extrapolation is off)
            if own[0] == 'differs':
                run.fail('C07-R6', K + 'evaluate|own-log10', path, own[1].lineno,
                         "%s.evaluate: log10 is the module's own function (%s), not the log10 the grids were built with: the coordinate of a "
                         "stored grid point is not reproduced exactly" % (ci.name, own[2]))
                continue
            if own[0] == 'unknown':
                run.undecided('C07-R6', '%s.%s axes' % (ci.name, fld), "module-level 'log10' is not the library function: " + own[2])
                continue
        for a in c.args:
            logged = isinstance(a, ast.Call) and dotted(a.func) in ('log10',)
            inner = a.args[0] if logged else a
            got.append((kind_of(norm(inner)), logged))
        cands = field_axes[fld]
        if any(len(ax) == len(got) and all(g == x for g, x in zip(got, ax)) for ax in cands) or \
                any(len(got) > len(ax) and all(x in got for x in ax) for ax in cands):
            run.ok('C07-R6', '%s.%s axes' % (ci.name, fld), '%s' % got, sample=False)
        else:
            run.fail('C07-R6', K + 'evaluate|axes|' + fld, path, c.lineno,
                     '%s.evaluate calls %s with %s but the interpolator was built over %s: arguments in the wrong order or scale'
                     % (ci.name, fld, got, cands))
    # result is 10 ** (...) when tables were logged
    rets = [r for r in ast.walk(ev) if isinstance(r, ast.Return) and r.value is not None and norm(r.value) not in ('0', '0.0')]
    run.subject('C07-R6')
    logged_table = any('np.log10(' in norm(v[-1]) for k, v in ldefs.items() if k in ('rate', 'sen', 'qeb'))
    if not logged_table:
        run.undecided('C07-R6', ci.name + ' result form', 'table not stored as log10')
    else:
        good = True
        for r in rets:
            v = r.value
            if isinstance(v, ast.Name):
                # accumulated product: first definition must be 10 ** ...
                first = [x for t, x, st in stores(ev) if isinstance(t, ast.Name) and t.id == v.id and isinstance(st, ast.Assign)]
                v = first[0] if first else v
            if not (isinstance(v, ast.BinOp) and isinstance(v.op, ast.Pow) and norm(v.left) == '10'):
                good = False
        if good and rets:
            run.ok('C07-R6', ci.name + ' result form', '10 ** (interpolant of the log10 table)', sample=False)
        else:
            run.fail('C07-R6', K + 'evaluate|result-form', path, ev.lineno,
                     '%s stores log10 of the table but evaluate() does not return 10 ** interpolant' % ci.name)


def _own_log10(mi):
    """None when 'log10' in the module is the library function (cimported / imported, or a module-level wrapper returning exactly the
    library log10 of its argument); ('differs', def, text) when the module defines it as another expression; ('unknown', def, text)."""
    for st in mi.tree.body:
        if isinstance(st, ast.FunctionDef) and st.name == 'log10':
            rets = [r for r in ast.walk(st) if isinstance(r, ast.Return) and r.value is not None]
            ps = [a.arg for a in st.args.args]
            if len(rets) == 1 and len(st.body) <= 2 and len(ps) == 1:
                v = rets[0].value
                if isinstance(v, ast.Call) and dotted(v.func) in ('np.log10', 'numpy.log10', 'math.log10', 'libc.math.log10', 'c_log10') \
                        and len(v.args) == 1 and norm(v.args[0]) == ps[0]:
                    return None
                calls = {dotted(c.func) for c in ast.walk(v) if isinstance(c, ast.Call)}
                if calls and calls <= {'log', 'log2', 'log1p', 'np.log', 'math.log', 'np.log2', 'math.log2'}:
                    return ('differs', st, norm(v)[:60])
            return ('unknown', st, 'def log10 at line %d' % st.lineno)
        if isinstance(st, ast.Assign) and any(isinstance(t, ast.Name) and t.id == 'log10' for t in st.targets):
            if dotted(st.value) in ('np.log10', 'numpy.log10', 'math.log10'):
                return None
            return ('unknown', st, norm(st.value)[:60])
    return None


_PEC = 'cherab/openadas/rates/pec.pyx'
_BEAM = 'cherab/openadas/rates/beam.pyx'
_CX = 'cherab/openadas/rates/cx.pyx'
_AT = 'cherab/openadas/rates/atomic.pyx'
MUTANTS = [
    dict(name='beam-cx-call-forwards-swapped', file='cherab/core/atomic/rates.pyx', find="        return self.evaluate(energy, temperature, density, z_effective, b_field)", replace="        return self.evaluate(energy, temperature, density, b_field, z_effective)", expect='C07-R9'),
    dict(name='cx-single-point-test-on-neighbouring-table', file='cherab/openadas/rates/cx.pyx', find="if len(qni) > 1 else Constant1D(qni[0])", replace="if len(qti) > 1 else Constant1D(qni[0])", expect='C07-R7'),
    dict(name='radiated-power-own-log10', file='cherab/openadas/rates/radiated_power.pyx',
         find="from libc.math cimport INFINITY, log10\n", replace="from libc.math cimport INFINITY, M_LOG10E, log\n\n\ncdef inline double log10(double x) noexcept nogil:\n    return M_LOG10E * log(x)\n", expect='C07-R6'),
    dict(name='single-density-branch-wrong-argument', file=_BEAM, find="IsoMapper2D(Arg2D('x'), Interpolator1DArray(np.log10(e), sen[:, 0]", replace="IsoMapper2D(Arg2D('y'), Interpolator1DArray(np.log10(e), sen[:, 0]", occurrence=0, of=3, expect='C07-R7'),
    dict(name='single-energy-branch-wrong-slice', file=_BEAM, find="Interpolator1DArray(np.log10(n), sen[0], ", replace="Interpolator1DArray(np.log10(n), sen[:, 0], ", occurrence=1, of=3, expect='C07-R7'),
    dict(name='cx-single-point-constant-one', file='cherab/openadas/rates/cx.pyx', find="else Constant1D(qni[0])", replace="else Constant1D(1.0)", expect='C07-R7'),
    dict(name='cx-single-point-threshold', file='cherab/openadas/rates/cx.pyx', find="if len(qzeff) > 1 else", replace="if len(qzeff) > 2 else", expect='C07-R7'),
    dict(name='cx-final-clamp-removed', file='cherab/openadas/rates/cx.pyx', find="        rate *= self._b.evaluate(b_field)\n        if rate <= 0:\n            return 0.0\n", replace="        rate *= self._b.evaluate(b_field)\n", expect='C07-R8'),
    dict(name='handler-type-changed', file=OA, find="            data = repository.get_ionisation_rate(ion, charge, repository_path=self._data_path)\n\n        except RuntimeError:",
         replace="            data = repository.get_ionisation_rate(ion, charge, repository_path=self._data_path)\n\n        except (FileNotFoundError, KeyError):", expect='C07-R1'),
    dict(name='null-returned-unconditionally', file=OA, find="            if self._missing_rates_return_null:\n                return NullThermalCXRate()\n            raise",
         replace="            return NullThermalCXRate()", expect='C07-R1'),
    dict(name='null-ctor-arity', file=OA, find="return NullLineRadiationPower(ion, charge)", replace="return NullLineRadiationPower(ion)", expect='C07-R2'),
    dict(name='D11-reintroduced', file=OA, find="return [NullBeamCXPEC(1)]", replace="return [NullBeamCXPEC()]", expect='C07-R2'),
    dict(name='wavelength-from-stripped-element', file=OA, find="        wavelength = self.wavelength(ion, charge, transition)\n\n        return ImpactExcitationPEC(",
         replace="        wavelength = self.wavelength(ion_element, charge, transition)\n\n        return ImpactExcitationPEC(", expect='C07-R3'),
    dict(name='rate-from-unstripped-isotope', file=OA, find="            data = repository.get_pec_excitation_rate(ion_element, charge, transition, repository_path=self._data_path)",
         replace="            data = repository.get_pec_excitation_rate(ion, charge, transition, repository_path=self._data_path)", expect='C07-R3'),
    dict(name='guard-or-to-and', file=_BEAM, find="        if energy <= 0 or density <= 0 or temperature <= 0:\n            return 0\n\n        # calculate rate and convert from log10 space to linear space\n        return 10 ** (self._npl_eb.evaluate(log10(energy), log10(density)) + self._tp.evaluate(log10(temperature)))\n\n\ncdef class NullBeamStoppingRate",
         replace="        if energy <= 0 and density <= 0 and temperature <= 0:\n            return 0\n\n        # calculate rate and convert from log10 space to linear space\n        return 10 ** (self._npl_eb.evaluate(log10(energy), log10(density)) + self._tp.evaluate(log10(temperature)))\n\n\ncdef class NullBeamStoppingRate", expect='C07-R4'),
    dict(name='D13-reintroduced', file=_CX, find="        if energy <= 0 or temperature <= 0 or density <= 0:", replace="        if energy <= 0:", expect='C07-R4'),
    dict(name='extrapolation-always-nearest', file=_PEC, find="        self.donor_temperature_range = td.min(), td.max()\n\n        # interpolate rate\n        # using nearest extrapolation to avoid infinite values at 0 for some rates\n        extrapolation_type = 'nearest' if extrapolate else 'none'",
         replace="        self.donor_temperature_range = td.min(), td.max()\n\n        # interpolate rate\n        # using nearest extrapolation to avoid infinite values at 0 for some rates\n        extrapolation_type = 'nearest' if extrapolate else 'nearest'", expect='C07-R5'),
    dict(name='accessor-extrapolate-true', file=OA, find="return IonisationRate(data, extrapolate=self._permit_extrapolation)", replace="return IonisationRate(data, extrapolate=True)", expect='C07-R5a'),
    dict(name='photon-conversion-dropped', file=_BEAM, find='sen = np.log10(PhotonToJ.to(data["sen"], wavelength))', replace='sen = np.log10(data["sen"])', expect='C07-R6'),
    dict(name='st-not-normalised', file=_BEAM, find="class BeamPopulationRate(CoreBeamPopulationRate):", replace="class BeamPopulationRate(CoreBeamPopulationRate):  # mutated below", expect=None),
    dict(name='evaluate-arguments-swapped', file=_AT, find="        return 10 ** self._rate.evaluate(log10(density), log10(temperature))\n\n\ncdef class NullIonisationRate",
         replace="        return 10 ** self._rate.evaluate(log10(temperature), log10(density))\n\n\ncdef class NullIonisationRate", expect='C07-R6'),
    dict(name='result-not-exponentiated', file=_AT, find="        return 10 ** self._rate.evaluate(log10(density), log10(temperature))\n\n\ncdef class NullRecombinationRate",
         replace="        return self._rate.evaluate(log10(density), log10(temperature))\n\n\ncdef class NullRecombinationRate", expect='C07-R6'),
    dict(name='null-rate-nonzero', file=_PEC, find="cdef class NullRecombinationPEC(CoreRecombinationPEC):", replace="cdef class NullRecombinationPEC(CoreRecombinationPEC):  # see evaluate", expect=None),
    dict(name='wavelength-fallback-unconditional', file=OA, find="        if isinstance(ion, Isotope) and self._wavelength_element_fallback:", replace="        if isinstance(ion, Isotope):", expect='C07-R3'),
]
MUTANTS = [m for m in MUTANTS if m['expect'] is not None]
TWINS = [
    dict(name='radiated-power-log10-wrapper', file='cherab/openadas/rates/radiated_power.pyx',
         find="from libc.math cimport INFINITY, log10\n", replace="from libc.math cimport INFINITY\nfrom libc cimport math as cmath\n\n\ncdef inline double log10(double x) noexcept nogil:\n    return np.log10(x)\n"),
    dict(name='cx-single-point-last-equals-first', file='cherab/openadas/rates/cx.pyx', find="else Constant1D(qni[0])", replace="else Constant1D(float(qni[-1]))"),
    dict(name='cx-single-point-statement-form', file='cherab/openadas/rates/cx.pyx',
         find="        self._b = Interpolator1DArray(bmag, qbmag, 'cubic', extrapolation_type, INFINITY) if len(qbmag) > 1 else Constant1D(qbmag[0])\n",
         replace="        if qbmag.shape[0] == 1:\n            only = qbmag[0]\n            self._b = Constant1D(only)\n        else:\n            self._b = Interpolator1DArray(bmag, qbmag, 'cubic', extrapolation_type, INFINITY)\n"),
    dict(name='guard-disjuncts-reordered', file=_BEAM, find="        if energy <= 0 or density <= 0 or temperature <= 0:\n            return 0\n\n        # calculate rate and convert from log10 space to linear space\n        return 10 ** (self._npl_eb.evaluate(log10(energy), log10(density)) + self._tp.evaluate(log10(temperature)))\n\n\ncdef class NullBeamStoppingRate",
         replace="        if temperature <= 0 or energy <= 0 or density <= 0:\n            return 0.0\n\n        return 10 ** (self._npl_eb.evaluate(log10(energy), log10(density)) + self._tp.evaluate(log10(temperature)))\n\n\ncdef class NullBeamStoppingRate"),
    dict(name='guards-split', file=_AT, find="        if density <= 0 or temperature <= 0:\n            return 0\n\n        # calculate rate and convert from log10 space to linear space\n        return 10 ** self._rate.evaluate(log10(density), log10(temperature))\n\n\ncdef class NullIonisationRate",
         replace="        if density <= 0:\n            return 0\n        if temperature <= 0:\n            return 0\n\n        return 10 ** self._rate.evaluate(log10(density), log10(temperature))\n\n\ncdef class NullIonisationRate"),
]
