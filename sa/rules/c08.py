"""C08 -- ADF parsers: structural clauses only (DESIGN section 5, C08).

The core of the property -- that fixed-column slicing and line counting recover every
number of every well-formed file -- is input-quantified text processing and is NOT decided.
"""
import ast
import re

from ..program import Program, dotted, norm
from ..report import AnalysisError
from ..flow import guards_of, facts, stores
from .. import shapes as S
from ..algebra import SymEval, C, L, Rat, run_block
from fractions import Fraction

PD = 'cherab/openadas/parse/'
FILES = [PD + 'adf11.py', PD + 'adf12.py', PD + 'adf15.py', PD + 'adf21.py', PD + 'adf22.py', PD + 'utility.py', 'cherab/openadas/install.py',
         'cherab/core/utility/conversion.py', PD + '__init__.py']
REPO = ['cherab/openadas/repository/atomic.py', 'cherab/openadas/repository/pec.py', 'cherab/openadas/repository/radiated_power.py',
        'cherab/openadas/repository/wavelength.py', 'cherab/openadas/repository/beam/cx.py', 'cherab/openadas/repository/beam/stopping.py',
        'cherab/openadas/repository/beam/population.py', 'cherab/openadas/repository/beam/emission.py', 'cherab/openadas/repository/utility.py']
# install route -> (parser, adf11 file type or None, [repository updaters])
ROUTES = {
    'install_adf11scd': ('parse_adf11', 'scd', ['update_ionisation_rates']),
    'install_adf11acd': ('parse_adf11', 'acd', ['update_recombination_rates']),
    'install_adf11ccd': ('parse_adf11', 'ccd', ['update_thermal_cx_rates']),
    'install_adf11plt': ('parse_adf11', 'plt', ['update_line_power_rates']),
    'install_adf11prb': ('parse_adf11', 'prb', ['update_continuum_power_rates']),
    'install_adf11prc': ('parse_adf11', 'prc', ['update_cx_power_rates']),
    'install_adf12': ('parse_adf12', None, ['update_beam_cx_rates']),
    'install_adf15': ('parse_adf15', None, ['update_pec_rates', 'update_wavelengths', 'update_pec_thermal_cx_rates']),
    'install_adf21': ('parse_adf21', None, ['update_beam_stopping_rates']),
    'install_adf22bmp': ('parse_adf22bmp', None, ['update_beam_population_rates']),
    'install_adf22bme': ('parse_adf22bme', None, ['update_beam_emission_rates']),
}


def check(run):
    prog = Program()
    prog.load_many(FILES + REPO)
    for f in FILES:
        run.use_file(f)
    run.explanation = (
        'Decides only the structural clauses of C08 (the statement that fixed-column slicing and line counting recover every number '
        'of every well-formed file is input-quantified text processing and is not decided): (R1) along each of the 11 install routes '
        'the nesting and record keys produced by the parser (and converter) are what the repository updater unpacks -- traced '
        'abstractly, nothing executed; (R2) the documented conversions per output key: ADF11 ne = 1e6 * 10^x, te = 10^x, rates = 1e-6 '
        '* 10^x with the charge offset -1 exactly for scd/plt/pls and each route passing its own file type; ADF12 ni, niref x 1e6 and '
        'all q* x 1e-6; ADF15 ne x 1e6, rate x 1e-6, wavelength / 10; ADF21/22 n, nref x 1e6 and sen, st, sref x normalisation with '
        'normalisation 1e-6 (21, 22-BME) and 1 (22-BMP); the conversion factors themselves; (R3) the three ADF15 header scrapers agree '
        'on block-type map, Angstrom-to-nm conversion and the two output tables, and use only regex groups their patterns define; (R4) '
        'reject paths: the ADF11 element check raises before any table is read, a missing ADF15 block falls through to an error, the '
        'ADF15 header line is validated; (R5) axis order: ADF11 reshape((n_te, n_ne)) then swapaxes(0, 1), ADF15 reshape((n_ne, n_te)), '
        'ADF2x sv[:, density index] filled per density.')
    run.assumptions = ['numpy reshape/swapaxes semantics', 'ADAS files list densities before temperatures and store ADF11 blocks temperature-major']
    mods = {m.name.split('.')[-1]: m for k, m in prog.modules.items() if k.startswith('cherab.openadas.parse.')}
    inst = prog.modules['cherab.openadas.install']
    for r, (p, ft, ups) in ROUTES.items():
        if r not in inst.functions:
            raise AnalysisError('anchored install route vanished: %s' % r)
    # private helpers other than the anchors of the rules are expanded where they are called (shape normalisation)
    keep = ('_extract_rate', '_parse_block', '_scrape_metadata_hydrogen', '_scrape_metadata_hydrogen_like', '_scrape_metadata_full',
            '_notation_adf11_adas2cherab', '_thermalcx_adf15_2dto3d_converter', '_group_by_block')
    for m in mods.values():
        prog.normalise_module(m, keep=keep, propagate=False)
    _r1(run, prog, inst, mods)
    _r2(run, prog, inst, mods)
    _r3(run, mods['adf15'])
    _r4(run, mods)
    _r5(run, mods)
    _r7(run, mods)
    from ._fresh import fresh_per_iteration
    nfresh = 0
    for fname in ('_thermalcx_adf15_2dto3d_converter', '_notation_adf11_adas2cherab'):
        if fname in inst.functions:
            nfresh += fresh_per_iteration(run, 'C08-R6', 'install', inst, inst.functions[fname], describe=(nfresh == 0))
    for m_ in mods.values():
        for fname, fn_ in m_.functions.items():
            nfresh += fresh_per_iteration(run, 'C08-R6', m_.name.split('.')[-1], m_, fn_, describe=False)
    if nfresh == 0:
        run.subject('C08-R6')
        run.undecided('C08-R6', 'converters', 'no object written and handed on per loop iteration was recognised')
    _r8(run, inst)
    _dispatch(run, inst)
    from ._purity import miscounted_collection_loops
    run.describe('C08-R11', 'counted value sections: the counter starts at 0 and advances by one per value collected, and every reading loop can end')
    for m_ in list(mods.values()) + [inst]:
        for fname, fn_ in m_.functions.items():
            nw = [n for n in ast.walk(fn_) if isinstance(n, ast.While)]
            bad = miscounted_collection_loops(fn_)
            for n in nw:
                run.subject('C08-R11')
                mine = [(x, w) for x, w in bad if n.lineno <= x.lineno <= getattr(n, 'end_lineno', n.lineno) or any(x is p for p in ast.walk(n))]
                if not mine and not [1 for x, w in bad if x.lineno < n.lineno]:
                    run.ok('C08-R11', '%s while@%s' % (fname, ast.unparse(n.test)[:40]), sample=False)
            for x, w in bad:
                run.fail('C08-R11', '%s|%s|count:%s' % (m_.name, fname, w.split("'")[1] if "'" in w else ''), m_.relpath, x.lineno, '%s: %s' % (fname, w))
    run.floor("C08-R10", 11)
    from ..cachekey import check_caches
    check_caches(run, list(mods.values()) + [inst], 'C08-K', prog=prog)
    # "installing the file into a repository and reading it back yields the same tables": the repository rules, for the updaters and readers
    run.include('C06', set(REPO) | {'cherab/openadas/install.py'},
                'the tables an install route stores must be the ones read back: the writers and readers of the repository')


def _resolver(prog):
    fns = {}
    for k, m in prog.modules.items():
        if k.startswith(('cherab.openadas.repository', 'cherab.openadas.parse', 'cherab.openadas.install')):
            for n, f in m.functions.items():
                fns.setdefault(n, (f, m))

    def resolve(name, mod):
        base = name.split('.')[-1]
        if name in mod.functions:
            return mod.functions[name], mod
        return fns.get(base)
    return resolve


def _parser_shape(parser_fn):
    """Abstract value of what a simple parser returns: chain of parameter keys ending in a record (dict literal / helper record)."""
    return None


def _r1(run, prog, inst, mods):
    run.describe('C08-R1', 'parser (+converter) output nesting and record keys == what the repository updater unpacks, on every install route')
    resolve = _resolver(prog)
    for route, (pname, ftype, ups) in sorted(ROUTES.items()):
        fn = inst.functions[route]
        run.functions += 1
        K = 'cherab.openadas.install|%s|' % route
        calls = [dotted(c.func).split('.')[-1] for c in ast.walk(fn) if isinstance(c, ast.Call) and dotted(c.func)]
        run.subject('C08-R1')
        missing = [u for u in [pname] + ups if u not in calls]
        if missing:
            run.fail('C08-R1', K + 'route', inst.relpath, fn.lineno, '%s does not call %s' % (route, missing))
            continue
        if pname == 'parse_adf15':
            _adf15_route(run, prog, inst, mods, fn, K, resolve)
            continue
        tr = S.Tracer(resolve, max_depth=8)
        try:
            tr.trace(fn, inst)
        except RecursionError:
            run.undecided('C08-R1', route, 'trace too deep')
            continue
        bad = []
        for e in tr.events:
            if e[0] == 'iterate-opaque' and not e[1].startswith(('file', 'lines', 'source_file', 'configuration', 'args', 'values')) and '(' not in e[1] \
                    and not re.match(r'^[a-z_]*(lines|file|components|block)', e[1]):
                if any(k in e[1] for k in ('rate', 'parse_', 'raw', 'data')):
                    bad.append('updater iterates %s as a mapping level: the parser output is nested one level short' % e[1][:60])
            if e[0] == 'leaf-subscript' and e[1].startswith('{') and isinstance(e[2], str) and e[2] not in ('x',):
                bad.append("record key '%s' read from a mapping level %s: the parser output is nested too deep" % (e[2], e[1][:60]))
            if e[0] == 'missing-key':
                bad.append("record key '%s' is read but the parser produces only %s" % (e[2], e[1]))
            if e[0] == 'iterate-record':
                bad.append('the updater iterates the data record %s as a mapping level: the parser output is nested one level short' % (e[1],))
        wrote = [e for e in tr.events if e[0] == 'open' and str(e[2]).startswith('w')]
        if bad:
            run.fail('C08-R1', K + 'shape', inst.relpath, fn.lineno, '%s: %s' % (route, bad[0]))
        elif not wrote:
            run.fail('C08-R1', K + 'no-write', inst.relpath, fn.lineno, '%s: tracing the route reaches no repository file write: parser output and updater do not fit' % route)
        else:
            run.ok('C08-R1', route, '%s -> %s: nesting and record keys agree; writes %s' % (pname, ups, wrote[0][1].txt()[:70]))
    run.floor('C08-R1', 11)


def _adf15_route(run, prog, inst, mods, fn, K, resolve):
    m15 = mods['adf15']
    p = m15.functions['parse_adf15']
    # shape of rates: rates[cls][element][charge][transition] = _extract_rate(...) -> {'ne','te','rate'}
    st = [s for s in ast.walk(p) if isinstance(s, ast.Assign) and norm(s.targets[0]).startswith('rates[') and isinstance(s.value, ast.Call)
          and dotted(s.value.func) == '_extract_rate']
    er = m15.functions.get('_extract_rate')
    rec = None
    if er is not None:
        for r in ast.walk(er):
            if isinstance(r, ast.Return) and isinstance(r.value, ast.Dict):
                rec = [k.value for k in r.value.keys]
    depth = 0
    if st:
        t = st[0].targets[0]
        while isinstance(t, ast.Subscript):
            depth += 1
            t = t.value
    if len(st) == 1 and depth == 4 and rec and sorted(rec) == ['ne', 'rate', 'te']:
        run.ok('C08-R1', 'parse_adf15 output', 'rates[class][element][charge][transition] = {ne, te, rate}')
    else:
        run.fail('C08-R1', K + 'parser-shape', m15.relpath, p.lineno,
                 'parse_adf15 stores rates at depth %d with record %s; the repository expects class/element/charge/transition -> {ne, te, rate}' % (depth, rec))
        return
    record = lambda: S.DictV([(S.Const(k), S.Sym(k + '_array')) for k in rec])
    # excitation / recombination -> update_pec_rates
    for cls in ('excitation', 'recombination'):
        run.subject('C08-R1')
        val = S.DictV([(S.Const(cls), S.DictV([(S.Sym('element'), S.DictV([(S.Sym('charge'), S.DictV([(S.Sym('transition'), record())]))]))]))])
        pec = prog.modules['cherab.openadas.repository.pec']
        tr = S.Tracer(resolve)
        tr.trace(pec.functions['update_pec_rates'], pec, {'rates': val, 'repository_path': S.Sym('repository_path')})
        bad = [e for e in tr.events if e[0] in ('iterate-opaque', 'missing-key') or (e[0] == 'leaf-subscript' and e[1].startswith('{'))]
        raised = [e for e in tr.events if e[0] == 'raise']
        wrote = [e for e in tr.events if e[0] == 'open' and str(e[2]).startswith('w')]
        if not bad and wrote and 'pec/%s/' % cls in wrote[0][1].txt():
            run.ok('C08-R1', 'install_adf15 %s PECs' % cls, wrote[0][1].txt()[:80])
        else:
            run.fail('C08-R1', K + 'shape:' + cls, inst.relpath, fn.lineno, 'install_adf15: %s PECs do not fit update_pec_rates: %s' % (cls, [b[:3] for b in bad][:2]))
    # thermal CX through the converter
    run.subject('C08-R1')
    conv = inst.functions.get('_thermalcx_adf15_2dto3d_converter')
    cx = S.DictV([(S.Sym('element'), S.DictV([(S.Sym('charge'), S.DictV([(S.Sym('transition'), record())]))]))])
    tr = S.Tracer(resolve)
    out = tr.trace(conv, inst, {'rates': cx}) if conv is not None else None
    pec = prog.modules['cherab.openadas.repository.pec']
    ok = False
    detail = None
    if isinstance(out, S.DictV):
        tr2 = S.Tracer(resolve)
        tr2.trace(pec.functions['update_pec_thermal_cx_rates'], pec, {'rates': out, 'repository_path': S.Sym('repository_path')})
        bad = [e for e in tr2.events if e[0] in ('iterate-opaque', 'missing-key') or (e[0] == 'leaf-subscript' and e[1].startswith('{'))]
        wrote = [e for e in tr2.events if e[0] == 'open' and str(e[2]).startswith('w')]
        detail = [b[:3] for b in bad][:2] or (wrote[0][1].txt() if wrote else None)
        ok = not bad and wrote and 'pec/thermal_cx/' in wrote[0][1].txt() and '(charge Add 1)' in wrote[0][1].txt().replace("'", '')
    if ok:
        run.ok('C08-R1', 'install_adf15 thermal CX PECs', 'converter output donor/charge/receiver/charge+1/transition -> {ne, te, td, rate}')
    else:
        run.fail('C08-R1', K + 'shape:thermalcx', inst.relpath, fn.lineno,
                 'install_adf15: CHEXC blocks converted by _thermalcx_adf15_2dto3d_converter do not fit update_pec_thermal_cx_rates (receiver charge = block charge + 1): %s' % (detail,))
    # pop of thermalcx precedes update_pec_rates; wavelengths table forwarded
    run.subject('C08-R1')
    pop = [c for c in ast.walk(fn) if isinstance(c, ast.Call) and norm(c.func) == 'rates.pop' and norm(c.args[0]) == "'thermalcx'"]
    up = [c for c in ast.walk(fn) if isinstance(c, ast.Call) and (dotted(c.func) or '').endswith('update_pec_rates')]
    wl = [c for c in ast.walk(fn) if isinstance(c, ast.Call) and (dotted(c.func) or '').endswith('update_wavelengths')]
    unpack = [s for s in ast.walk(fn) if isinstance(s, ast.Assign) and norm(s.targets[0]) == '(rates, wavelengths)' and 'parse_adf15' in norm(s.value)]
    if pop and up and pop[0].lineno < up[0].lineno and wl and norm(wl[0].args[0]) == 'wavelengths' and norm(up[0].args[0]) == 'rates' and unpack:
        run.ok('C08-R1', 'install_adf15 table routing', "thermalcx popped before update_pec_rates; wavelengths -> update_wavelengths")
    else:
        run.fail('C08-R1', K + 'routing', inst.relpath, fn.lineno,
                 "install_adf15 does not remove the 'thermalcx' class before update_pec_rates (which rejects it) or mis-routes the wavelength table")
    # wavelength table shape: config['wavelength'][element][charge][(upper, lower)] = wavelength  -> update_wavelengths
    run.subject('C08-R1')
    wv = S.DictV([(S.Sym('element'), S.DictV([(S.Sym('charge'), S.DictV([(S.Sym('transition'), S.Sym('wavelength'))]))]))])
    wm = prog.modules['cherab.openadas.repository.wavelength']
    tr = S.Tracer(resolve)
    tr.trace(wm.functions['update_wavelengths'], wm, {'wavelengths': wv, 'repository_path': S.Sym('repository_path')})
    bad = [e for e in tr.events if e[0] in ('iterate-opaque', 'missing-key') or (e[0] == 'leaf-subscript')]
    wrote = [e for e in tr.events if e[0] == 'open' and str(e[2]).startswith('w')]
    ret = [r for r in ast.walk(p) if isinstance(r, ast.Return)]
    wdef = [norm(s.value) for s in ast.walk(p) if isinstance(s, ast.Assign) and norm(s.targets[0]) == 'wavelengths']
    if not bad and wrote and wdef == ["config['wavelength']"] and ret and norm(ret[-1].value) == '(rates, wavelengths)':
        run.ok('C08-R1', 'install_adf15 wavelengths', wrote[0][1].txt()[:70])
    else:
        run.fail('C08-R1', K + 'shape:wavelength', inst.relpath, fn.lineno, 'the wavelength table of parse_adf15 does not fit update_wavelengths: %s %s' % (wdef, [b[:3] for b in bad][:2]))


# ------------------------------------------------------------------------------------------ R2
def _wrapped(v):
    """('PerCm3ToPerM3.to', inner) for Conv.to(inner); ('normalisation', inner) for normalisation * inner; (None, v) otherwise"""
    if isinstance(v, ast.Call) and isinstance(v.func, ast.Attribute) and v.func.attr == 'to' and len(v.args) == 1:
        return dotted(v.func), v.args[0]
    if isinstance(v, ast.BinOp) and isinstance(v.op, ast.Mult) and norm(v.left) == 'normalisation':
        return 'normalisation', v.right
    return None, v


def _r2(run, prog, inst, mods):
    run.describe('C08-R2', 'documented unit conversions per output key; ADF11 charge offset; conversion factors')
    # conversion factors
    cm = prog.modules['cherab.core.utility.conversion']
    want = {'PerCm3ToPerM3': 1e6, 'Cm3ToM3': 1e-6, 'AngstromToNm': 0.1}
    for cname, val in want.items():
        run.subject('C08-R2')
        c = cm.classes.get(cname)
        got = None
        if c is not None:
            for st in c.body:
                if isinstance(st, ast.Assign) and norm(st.targets[0]) == 'conversion_factor' and isinstance(st.value, ast.Constant):
                    got = st.value.value
        if got is not None and abs(got / val - 1) < 1e-12:
            run.ok('C08-R2', cname + '.conversion_factor', got, sample=False)
        else:
            run.fail('C08-R2', 'cherab.core.utility.conversion|%s|factor' % cname, cm.relpath, 0, '%s.conversion_factor is %s, expected %g' % (cname, got, val))
    base = cm.classes.get('BaseFactorConversion')
    run.subject('C08-R2')
    okb, why = None, 'class BaseFactorConversion not found'
    if base is not None:
        from ..inline import propagate
        from ..algebra import SymEval, L
        fs = {f.name: f for f in base.body if isinstance(f, ast.FunctionDef)}

        def value(f):
            """the returned value as an exact rational expression in the argument and the class factor (helpers and locals resolved)"""
            from ..inline import flatten, module_lookup
            try:
                f = flatten(f, module_lookup(cm))
            except Exception:
                pass
            g = propagate(f)
            rets = [r for r in ast.walk(g) if isinstance(r, ast.Return) and r.value is not None]
            if len(rets) != 1:
                return None
            try:
                return SymEval().ev(rets[0].value)
            except Exception:
                return None
        if 'to' in fs and 'inv' in fs:
            arg = lambda f: L(f.args.args[-1].arg)
            fac = L('cls.conversion_factor')
            vt, vi = value(fs['to']), value(fs['inv'])
            if vt is None or vi is None or any(l.startswith('?') for v in (vt, vi) for l in v.leaves()):
                why = 'to / inv not in a recognised arithmetic form'
            else:
                okb = vt.eq(arg(fs['to']) * fac) and vi.eq(arg(fs['inv']) / fac)
                why = 'to = %s, inv = %s' % (vt.key()[:40], vi.key()[:40])
    if okb:
        run.ok('C08-R2', 'BaseFactorConversion', 'to = x * factor, inv = x / factor', sample=False)
    elif okb is None:
        run.undecided('C08-R2', 'BaseFactorConversion', why)
    else:
        run.fail('C08-R2', 'cherab.core.utility.conversion|BaseFactorConversion|to-inv', cm.relpath, 0,
                 'BaseFactorConversion.to / inv are not multiply / divide by the factor: ' + why)
    # ADF11 notation converter
    nf = inst.functions.get('_notation_adf11_adas2cherab')
    if nf is None:
        raise AnalysisError('anchored function vanished: _notation_adf11_adas2cherab')
    K = 'cherab.openadas.install|_notation_adf11_adas2cherab|'
    src = nf.args.args[0].arg
    factors = {'PerCm3ToPerM3': 10 ** 6, 'Cm3ToM3': Fraction(1, 10 ** 6), 'AngstromToNm': Fraction(1, 10)}

    class ConvEval(SymEval):
        def call(self, n):
            f = n.func
            if isinstance(f, ast.Attribute) and f.attr in ('to', 'inv') and isinstance(f.value, ast.Name) and f.value.id in factors and len(n.args) == 1:
                v = self.ev(n.args[0])
                return v * C(factors[f.value.id]) if f.attr == 'to' else v / C(factors[f.value.id])
            return super().call(n)

        def attribute(self, n):
            if n.attr == 'conversion_factor' and isinstance(n.value, ast.Name) and n.value.id in factors:
                return C(factors[n.value.id])
            return super().attribute(n)

        def ev(self, n):
            if isinstance(n, ast.BinOp) and isinstance(n.op, ast.Pow) and isinstance(n.left, ast.Constant) and n.left.value == 10:
                e = self.ev(n.right)
                # 10 ** (a + k) = 10^k * 10 ** a for an integer constant k
                if e.d.is_const():
                    c0 = e.n.const_value() / e.d.const_value()
                    if c0.denominator == 1 and c0 != 0 and len(e.n) > 1:
                        rest = e - C(c0)
                        return C(Fraction(10) ** int(c0)) * L('pow10(%s)' % rest.key())
                return L('pow10(%s)' % e.key())
            if isinstance(n, ast.Call) and dotted(n.func) in ('np.log10', 'log10', 'math.log10') and len(n.args) == 1:
                v = self.ev(n.args[0])
                if v.is_const() and v.const_value() > 0:
                    import math
                    k = round(math.log10(v.const_value()))
                    if Fraction(10) ** k == v.const_value():
                        return C(k)
            return super().ev(n)
    ftp = nf.args.args[1].arg

    class DictEval(ConvEval):
        """nested mapping access spelled as a path: SRC[E][Z]['ne']"""

        def subscript(self, n):
            base = self.ev(n.value)
            if isinstance(n.slice, ast.Constant) and isinstance(n.slice.value, str):
                idx = n.slice.value
            else:
                idx = self.ev(n.slice).key()
            return L('%s[%s]' % (base.key(), idx))

    class _U(Exception):
        pass

    def run_conv(special):
        """special: the file type is one of the three whose charge is that of the recombined ion. Returns the list of stores."""
        out = []
        nodes = {}

        def truth(t):
            if isinstance(t, ast.UnaryOp) and isinstance(t.op, ast.Not):
                return not truth(t.operand)
            if isinstance(t, ast.Compare) and len(t.ops) == 1 and isinstance(t.ops[0], (ast.In, ast.NotIn)) and norm(t.left) == ftp \
                    and isinstance(t.comparators[0], (ast.List, ast.Tuple, ast.Set)) and all(isinstance(e, ast.Constant) for e in t.comparators[0].elts):
                names = sorted(e.value for e in t.comparators[0].elts)
                if names != ['pls', 'plt', 'scd']:
                    raise _U('file types %s' % names)
                return special if isinstance(t.ops[0], ast.In) else not special
            raise _U('condition %s' % norm(t))

        class EV2(DictEval):
            def ifexp(self, n):
                return self.ev(n.body) if truth(n.test) else self.ev(n.orelse)

            def call(self, n):
                if dotted(n.func) == 'int' and len(n.args) == 1:
                    return self.ev(n.args[0])
                return super().call(n)
        ev = EV2({src: L('SRC'), ftp: L('FT')})

        def key_symbol(d):
            k = d.key()
            return L('E') if k == 'SRC' else (L('Z') if k == 'SRC[E]' else None)

        def block(stmts):
            for st in stmts:
                if isinstance(st, (ast.Expr, ast.Pass, ast.Return)):
                    continue
                if isinstance(st, ast.If):
                    block(st.body if truth(st.test) else st.orelse)
                elif isinstance(st, ast.For):
                    it = st.iter
                    items = False
                    if isinstance(it, ast.Call) and isinstance(it.func, ast.Attribute) and it.func.attr in ('keys', 'items') and not it.args:
                        items = it.func.attr == 'items'
                        d = ev.ev(it.func.value)
                    elif isinstance(it, (ast.Name, ast.Subscript)):
                        d = ev.ev(it)
                    else:
                        raise _U('loop over %s' % norm(it))
                    ks = key_symbol(d)
                    if ks is None:
                        raise _U('loop over %s' % norm(it))
                    if items:
                        if not (isinstance(st.target, ast.Tuple) and len(st.target.elts) == 2 and all(isinstance(e, ast.Name) for e in st.target.elts)):
                            raise _U('loop target %s' % norm(st.target))
                        ev.env[st.target.elts[0].id] = ks
                        ev.env[st.target.elts[1].id] = L('%s[%s]' % (d.key(), ks.key()))
                    else:
                        if not isinstance(st.target, ast.Name):
                            raise _U('loop target %s' % norm(st.target))
                        ev.env[st.target.id] = ks
                    block(st.body)
                elif isinstance(st, ast.Assign) and len(st.targets) == 1 and isinstance(st.targets[0], ast.Name):
                    v = st.value
                    if (isinstance(v, ast.Call) and (dotted(v.func) or '').endswith(('RecursiveDict', 'dict', 'OrderedDict'))) or isinstance(v, ast.Dict):
                        ev.env[st.targets[0].id] = L('OUT')
                        nodes.pop(st.targets[0].id, None)
                    else:
                        # a name for a node of the output tree (node = out[element][charge]): later stores through it extend that chain
                        chain, t = [], v
                        while isinstance(t, ast.Subscript):
                            chain.append(t.slice)
                            t = t.value
                        chain.reverse()
                        root = None
                        if isinstance(t, ast.Name) and chain:
                            if t.id in nodes:
                                root = nodes[t.id]
                            elif t.id in ev.env and ev.env[t.id].key() == 'OUT':
                                root = (ev.env[t.id], [])
                        if root is not None:
                            nodes[st.targets[0].id] = (root[0], root[1] + [(c.value if isinstance(c, ast.Constant) and isinstance(c.value, str) else ev.ev(c)) for c in chain])
                        else:
                            nodes.pop(st.targets[0].id, None)
                        ev.env[st.targets[0].id] = ev.ev(v)
                elif isinstance(st, ast.Assign) and len(st.targets) == 1 and isinstance(st.targets[0], ast.Subscript):
                    chain, t = [], st.targets[0]
                    while isinstance(t, ast.Subscript):
                        chain.append(t.slice)
                        t = t.value
                    chain.reverse()
                    base = ev.ev(t) if isinstance(t, ast.Name) and t.id in ev.env else L(norm(t))
                    keys = [(c.value if isinstance(c, ast.Constant) and isinstance(c.value, str) else ev.ev(c)) for c in chain]
                    if isinstance(t, ast.Name) and t.id in nodes:
                        base, keys = nodes[t.id][0], nodes[t.id][1] + keys
                    out.append((base, keys, ev.ev(st.value), st))
                elif isinstance(st, ast.AugAssign):
                    raise _U('in-place update %s' % norm(st)[:50])
                else:
                    raise _U(norm(st)[:50])
        block(nf.body)
        return out
    want11 = {'ne': C(10 ** 6), 'te': C(1), 'rates': C(Fraction(1, 10 ** 6))}
    for special in (True, False):
        tag = 'ADF11 (%s)' % ('scd/plt/pls' if special else 'other types')
        try:
            sts = run_conv(special)
        except _U as e:
            run.subject('C08-R2')
            if str(e).startswith('file types'):
                run.fail('C08-R2', K + 'charge-offset', inst.relpath, nf.lineno,
                         'the ADF11 charge offset is not selected by "file type in scd, plt, pls": %s' % e)
            else:
                run.undecided('C08-R2', tag, 'cannot interpret %s' % e)
            continue
        cc = C(-1 if special else 0)
        for k, fac in want11.items():
            run.subject('C08-R2')
            g = [x for x in sts if len(x[1]) == 3 and x[1][2] == k and x[0].key() != 'SRC']
            if not g:
                run.fail('C08-R2', K + 'conversion:' + k, inst.relpath, nf.lineno, "ADF11 '%s' is not stored in the converted table" % k)
                continue
            base, chain, val, st = g[-1]
            if not (isinstance(chain[0], Rat) and chain[0].eq(L('E'))):
                run.fail('C08-R2', K + 'element-key:' + k, inst.relpath, st.lineno, "ADF11 '%s' is stored under the element key %s" % (k, getattr(chain[0], 'key', lambda: chain[0])()))
                continue
            if not (isinstance(chain[1], Rat) and chain[1].eq(L('Z') + cc)):
                run.fail('C08-R2', K + 'charge-offset', inst.relpath, st.lineno,
                         "%s: '%s' of the ADAS charge Z is stored under the charge %s, expected Z %s" % (
                             tag, k, getattr(chain[1], 'key', lambda: chain[1])(), '- 1' if special else '(unchanged)'))
                continue
            want = fac * L('pow10(SRC[E][Z][%s])' % k)
            if val.eq(want):
                run.ok('C08-R2', '%s %s' % (tag, k), '%s * 10^x stored at [element][Z%s]' % (fac.key(), ' - 1' if special else ''))
            else:
                ratio = val / want
                if ratio.is_const():
                    run.fail('C08-R2', K + 'conversion:' + k, inst.relpath, st.lineno,
                             "ADF11 '%s' is converted as %s: off by the factor %s from the documented %s * 10^x" % (k, norm(st.value), ratio.const_value(), fac.key()))
                elif all(l.startswith('pow10(') for l in val.leaves()) and any('SRC' in l for l in val.leaves()):
                    run.fail('C08-R2', K + 'conversion:' + k, inst.relpath, st.lineno,
                             "ADF11 '%s' is converted as %s, which is not %s * 10^x of the parsed table entry of the same element and charge" % (k, norm(st.value), fac.key()))
                else:
                    run.undecided('C08-R2', '%s %s' % (tag, k), 'conversion written in a form the algebra does not recognise: %s' % norm(st.value))
    # the converter must not modify the parser output in place (the parser shares one axis array between charge states)
    run.subject('C08-R2')
    tainted = {src}
    changed = True
    while changed:
        changed = False
        for t, v, st in stores(nf):
            if isinstance(st, ast.Assign) and isinstance(t, ast.Name) and t.id not in tainted and isinstance(v, (ast.Subscript, ast.Name, ast.Attribute)) \
                    and any(isinstance(x, ast.Name) and x.id in tainted for x in ast.walk(v)):
                tainted.add(t.id)
                changed = True
    inplace = [st for st in ast.walk(nf) if isinstance(st, ast.AugAssign) and any(isinstance(x, ast.Name) and x.id in tainted for x in ast.walk(st.target))]
    inplace += [st for t, v, st in stores(nf) if isinstance(st, ast.Assign) and isinstance(t, ast.Subscript) and isinstance(t.value, ast.Name) and t.value.id in tainted - {src}]
    inplace += [st for t, v, st in stores(nf) if isinstance(st, ast.Assign) and isinstance(t, ast.Subscript) and norm(t).startswith(src + '[')]
    if inplace:
        run.fail('C08-R2', K + 'in-place', inst.relpath, inplace[0].lineno,
                 "_notation_adf11_adas2cherab modifies the parser output in place ('%s'): the parser shares one density/temperature array between all "
                 "charge states, so the conversion is applied repeatedly to later charge states" % norm(inplace[0]))
    else:
        run.ok('C08-R2', 'ADF11 converter purity', 'the parsed tables are not modified in place')
    for route, (pname, ftype, ups) in sorted(ROUTES.items()):
        if ftype is None:
            continue
        fn = inst.functions[route]
        run.subject('C08-R2')
        calls = [c for c in ast.walk(fn) if isinstance(c, ast.Call) and dotted(c.func) == '_notation_adf11_adas2cherab']
        ftypes = [c.args[1].value for c in calls if len(c.args) > 1 and isinstance(c.args[1], ast.Constant)]
        if ftypes and all(f == ftype for f in ftypes):
            run.ok('C08-R2', '%s file type' % route, ftype, sample=False)
        else:
            run.fail('C08-R2', 'cherab.openadas.install|%s|file-type' % route, inst.relpath, fn.lineno,
                     "%s converts with file type %s instead of '%s': wrong charge-state convention" % (route, ftypes, ftype))
    # ADF12
    p12 = mods['adf12'].functions['parse_adf12']
    d = None
    for n in ast.walk(p12):
        if isinstance(n, ast.Dict) and len(n.keys) > 10:
            d = n
    want12 = {'eb': (None, 'ENER'), 'ti': (None, 'TIEV'), 'ni': ('PerCm3ToPerM3.to', 'DENSI'), 'z': (None, 'ZEFF'), 'b': (None, 'BMAG'),
              'qeb': ('Cm3ToM3.to', 'QENER'), 'qti': ('Cm3ToM3.to', 'QTIEV'), 'qni': ('Cm3ToM3.to', 'QDENSI'), 'qz': ('Cm3ToM3.to', 'QZEFF'),
              'qb': ('Cm3ToM3.to', 'QBMAG'), 'niref': ('PerCm3ToPerM3.to', 'NIREF'), 'qref': ('Cm3ToM3.to', 'QEFREF'),
              'ebref': (None, 'EBREF'), 'tiref': (None, 'TIREF'), 'zref': (None, 'ZEREF'), 'bref': (None, 'BREF')}
    if d is None:
        run.undecided('C08-R2', 'ADF12', 'record literal not found')
    else:
        gotd = {k.value: v for k, v in zip(d.keys, d.values)}
        for k, (conv, raw) in sorted(want12.items()):
            run.subject('C08-R2')
            v = gotd.get(k)
            c, inner = _wrapped(v) if v is not None else (None, None)
            if v is not None and c == conv and "rate['%s']" % raw in norm(inner):
                run.ok('C08-R2', 'ADF12 ' + k, norm(v)[:60], sample=False)
            else:
                run.fail('C08-R2', 'cherab.openadas.parse.adf12|parse_adf12|conversion:' + k, mods['adf12'].relpath, p12.lineno,
                         "ADF12 '%s' is %s; documented: %s of %s" % (k, norm(v) if v is not None else None, conv or 'the raw value', raw))
    # ADF15
    er = mods['adf15'].functions['_extract_rate']
    defs = {}
    for t, v, st in stores(er):
        if isinstance(st, ast.Assign) and isinstance(t, ast.Name):
            defs.setdefault(t.id, []).append(norm(v))
    ret = [r for r in ast.walk(er) if isinstance(r, ast.Return) and isinstance(r.value, ast.Dict)]
    run.subject('C08-R2')
    if 'PerCm3ToPerM3.to(density)' in defs.get('density', []) and 'Cm3ToM3.to(rates)' in defs.get('rates', []) and ret \
            and norm(ret[0].value) == "{'ne': density, 'te': temperature, 'rate': rates}" and not any('to(' in x for x in defs.get('temperature', [])):
        run.ok('C08-R2', 'ADF15 block conversions', 'ne x 1e6, rate x 1e-6, te unchanged')
    else:
        run.fail('C08-R2', 'cherab.openadas.parse.adf15|_extract_rate|conversions', mods['adf15'].relpath, er.lineno,
                 'ADF15 block: density %s, rates %s, returns %s' % (defs.get('density'), defs.get('rates'), norm(ret[0].value) if ret else None))
    # ADF2x
    pr = mods['utility'].functions['parse_adas2x_rate']
    ret = [r for r in ast.walk(pr) if isinstance(r, ast.Return) and isinstance(r.value, ast.Dict)]
    want2x = {'e': (None, 'EB'), 'n': ('PerCm3ToPerM3.to', 'DT'), 't': (None, 'TT'), 'sen': ('normalisation', 'SV'), 'st': ('normalisation', 'SVT'),
              'eref': (None, 'EREF'), 'nref': ('PerCm3ToPerM3.to', 'DREF'), 'tref': (None, 'TREF'), 'sref': ('normalisation', 'SVREF')}
    if not ret:
        run.undecided('C08-R2', 'ADF2x', 'record literal not found')
    else:
        gotd = {k.value: v for k, v in zip(ret[0].value.keys, ret[0].value.values)}
        for k, (conv, raw) in sorted(want2x.items()):
            run.subject('C08-R2')
            v = gotd.get(k)
            c, inner = _wrapped(v) if v is not None else (None, None)
            if v is not None and c == conv and "raw['%s']" % raw in norm(inner):
                run.ok('C08-R2', 'ADF2x ' + k, norm(v)[:60], sample=False)
            else:
                run.fail('C08-R2', 'cherab.openadas.parse.utility|parse_adas2x_rate|conversion:' + k, mods['utility'].relpath, pr.lineno,
                         "ADF21/22 '%s' is %s; documented: %s of %s" % (k, norm(v) if v is not None else None, conv or 'the raw value', raw))
    for modn, fname, wantn in (('adf21', 'parse_adf21', 'Cm3ToM3.conversion_factor'), ('adf22', 'parse_adf22bmp', '1'), ('adf22', 'parse_adf22bme', 'Cm3ToM3.conversion_factor')):
        fn = mods[modn].functions.get(fname)
        run.subject('C08-R2')
        calls = [c for c in ast.walk(fn) if isinstance(c, ast.Call) and dotted(c.func) == 'parse_adas2x_rate'] if fn is not None else []
        kw = {k.arg: norm(k.value) for c in calls for k in c.keywords}
        for c in calls:
            if len(c.args) >= 2 and 'normalisation' not in kw:
                kw['normalisation'] = norm(c.args[1])       # passed by position
        if calls and kw.get('normalisation') == wantn:
            run.ok('C08-R2', fname + ' normalisation', wantn, sample=False)
        else:
            run.fail('C08-R2', 'cherab.openadas.parse.%s|%s|normalisation' % (modn, fname), mods[modn].relpath, (fn or mods[modn].tree).lineno if fn else 0,
                     '%s passes normalisation=%s; documented: %s' % (fname, kw.get('normalisation'), wantn))
    run.floor('C08-R2', 40)


# ------------------------------------------------------------------------------------------ R3
def _digit_width(items):
    """how many digits a (sub)pattern can take: 0 no digit class, 1 exactly one unrepeated digit class, 2 more than one digit possible"""
    import re._constants as rc
    total = 0
    for op, av in items:
        if op is rc.IN:
            isdig = any((o is rc.RANGE and a == (48, 57)) or (o is rc.CATEGORY and a is rc.CATEGORY_DIGIT) for o, a in av)
            total += 1 if isdig else 0
        elif op in (rc.MAX_REPEAT, rc.MIN_REPEAT) or (hasattr(rc, 'POSSESSIVE_REPEAT') and op is rc.POSSESSIVE_REPEAT):
            lo, hi, sub = av
            w = _digit_width(sub)
            if w and (hi is rc.MAXREPEAT or hi >= 2):
                return 2
            total += w
        elif op is rc.SUBPATTERN:
            total += _digit_width(av[3])
        elif op is rc.BRANCH:
            total += max([_digit_width(b) for b in av[1]] or [0])
        elif op is rc.CATEGORY and av is rc.CATEGORY_DIGIT:
            total += 1
        if total >= 2:
            return 2
    return total


def _group_items(parsed, k):
    import re._constants as rc
    if k == 0:
        return list(parsed)
    found = []

    def walk(items):
        for op, av in items:
            if op is rc.SUBPATTERN:
                if av[0] == k:
                    found.append(list(av[3]))
                walk(av[3])
            elif op in (rc.MAX_REPEAT, rc.MIN_REPEAT):
                walk(av[2])
            elif op is rc.BRANCH:
                for b in av[1]:
                    walk(b)
    walk(parsed)
    return found[0] if found else None


def _r7(run, mods):
    """R7: an integer header field read through a regular expression is captured at its full width: the (sub)pattern whose text is
    handed to int() must be able to take more than one digit ('Z1=10' is charge ten, not one)."""
    import re._parser as rp
    from ..inline import resolver
    run.describe('C08-R7', 'integers read through a regular expression: the captured (sub)pattern can take more than one digit')
    for mname, mi in sorted(mods.items()):
        for fname, fn in sorted(mi.functions.items()):
            ints = [c for c in ast.walk(fn) if isinstance(c, ast.Call) and dotted(c.func) == 'int' and len(c.args) == 1]
            if not ints:
                continue
            mnames = {}
            for t, v, s2 in stores(fn):
                if isinstance(t, ast.Name) and isinstance(v, ast.Call) and dotted(v.func) in ('re.match', 're.search', 're.fullmatch') and v.args:
                    mnames.setdefault(t.id, []).append(v)
            res = resolver(fn, stop=tuple(mnames))
            consts = {k: v for k, v in mi.assigns.items() if isinstance(v, ast.Constant) and isinstance(v.value, str)}

            def pattern_of(call):
                p = res(call.args[0])
                if isinstance(p, ast.Name) and p.id in consts:
                    p = consts[p.id]
                return p.value if isinstance(p, ast.Constant) and isinstance(p.value, str) else None

            def match_of(e):
                """(pattern text, group number) of an expression that is the text of a regex group, else None"""
                k = None
                if isinstance(e, ast.Subscript) and isinstance(e.value, ast.Call) and isinstance(e.value.func, ast.Attribute) \
                        and e.value.func.attr == 'groups' and isinstance(e.slice, ast.Constant) and isinstance(e.slice.value, int) and e.slice.value >= 0:
                    k, m = e.slice.value + 1, e.value.func.value
                elif isinstance(e, ast.Call) and isinstance(e.func, ast.Attribute) and e.func.attr == 'group' and len(e.args) <= 1:
                    if e.args and not (isinstance(e.args[0], ast.Constant) and isinstance(e.args[0].value, int)):
                        return None
                    k, m = (e.args[0].value if e.args else 0), e.func.value
                elif isinstance(e, ast.Subscript) and isinstance(e.slice, ast.Constant) and isinstance(e.slice.value, int) and e.slice.value >= 0:
                    k, m = e.slice.value, e.value          # match[k]
                else:
                    return None
                calls = [m] if isinstance(m, ast.Call) and dotted(m.func) in ('re.match', 're.search', 're.fullmatch') else \
                    mnames.get(m.id, []) if isinstance(m, ast.Name) else []
                pats = {pattern_of(c) for c in calls}
                if len(pats) != 1 or None in pats:
                    return None
                return pats.pop(), k

            for c in ints:
                a = res(c.args[0])
                while isinstance(a, ast.Call) and isinstance(a.func, ast.Attribute) and a.func.attr in ('strip', 'lstrip', 'rstrip') and not a.args:
                    a = a.func.value
                if isinstance(a, ast.Call) and dotted(a.func) == 're.sub' and len(a.args) == 3:
                    a = res(a.args[2])          # prefix removal from the matched text: the digits are those of the match
                mk = match_of(a)
                if mk is None:
                    continue
                run.subject('C08-R7')
                what = '%s.%s int(%s)' % (mname, fname, norm(c.args[0])[:40])
                try:
                    parsed = rp.parse(mk[0])
                except Exception as ex:      # an invalid pattern is not this rule's business
                    run.undecided('C08-R7', what, 'pattern not parsed: %s' % ex)
                    continue
                items = _group_items(parsed, mk[1])
                if items is None:
                    run.undecided('C08-R7', what, 'group %d not found in %r' % (mk[1], mk[0][:40]))
                    continue
                w = _digit_width(items)
                if w == 1:
                    run.fail('C08-R7', 'cherab.openadas.parse.%s|%s|one-digit|%s' % (mname, fname, norm(c.args[0])[:30]), mi.relpath, c.lineno,
                             '%s: the integer is read from %s of %r, which can take a single digit only: a value of ten or more is truncated'
                             % (fname, 'group %d' % mk[1] if mk[1] else 'the match', mk[0]))
                elif w == 0:
                    run.undecided('C08-R7', what, 'no digit class in the captured pattern')
                else:
                    run.ok('C08-R7', what, 'multi-digit capture in %r' % mk[0][:50], sample=False)
    run.floor('C08-R7', 5)



def _r8(run, inst):
    """R8: the thermal-CX converter repeats the (ne, te) table unchanged along the new donor-temperature axis: data[i, j, k] == rate[i, j].
    Decided by applying numpy's own tile / repeat / reshape / broadcasting to a 2 x 3 table of symbols (sa/npsym.py)."""
    from ..npsym import NpEval, Unknown, tokens
    import numpy as _np
    run.describe('C08-R8', 'ADF15 thermal CX: the 3D table is the 2D table broadcast along the donor-temperature axis (data[i, j, k] == rate[i, j])')
    fn = inst.functions.get('_thermalcx_adf15_2dto3d_converter')
    run.subject('C08-R8')
    if fn is None:
        raise AnalysisError('anchored function vanished: _thermalcx_adf15_2dto3d_converter')
    K = 'cherab.openadas.install|_thermalcx_adf15_2dto3d_converter|'
    # the innermost loop body builds one record from `rate`
    loops = [l for l in ast.walk(fn) if isinstance(l, ast.For)]
    inner = [l for l in loops if not any(isinstance(x, ast.For) and x is not l for x in ast.walk(l))]
    if not inner:
        run.undecided('C08-R8', 'converter', 'loop over the transitions not found')
        return
    body = inner[0].body
    recs = [st for st in body if isinstance(st, ast.Assign) and isinstance(st.value, ast.Dict)]
    rate_key = None
    for st in recs:
        for k, v in zip(st.value.keys, st.value.values):
            if isinstance(k, ast.Constant) and k.value == 'rate':
                rate_key = v
    if rate_key is None:
        run.undecided('C08-R8', 'converter', "record with a 'rate' entry not found")
        return
    src = [x for x in ast.walk(inner[0]) if isinstance(x, ast.Subscript) and isinstance(x.slice, ast.Constant) and x.slice.value == 'rate' and isinstance(x.ctx, ast.Load)]
    if not src:
        run.undecided('C08-R8', 'converter', "source table <x>['rate'] not found")
        return
    rname = norm(src[0].value)
    R = tokens('r', (2, 3))
    ev = NpEval(env={"%s['rate']" % rname: R, "%s['ne']" % rname: tokens('n', (2,)), "%s['te']" % rname: tokens('t', (3,))})
    pre = [st for st in body if st.lineno < recs[-1].lineno and not (isinstance(st, ast.Assign) and isinstance(st.value, ast.Dict))]
    try:
        ev.run(pre)
        got = ev.ev(rate_key)
    except Unknown as e:
        run.undecided('C08-R8', 'converter', 'construction of the 3D table not interpreted: %s' % e)
        return
    except Exception as e:
        run.fail('C08-R8', K + 'shape', inst.relpath, inner[0].lineno,
                 'the construction of the 3D table fails for a 2 x 3 table (%s: %s)' % (type(e).__name__, str(e)[:80]))
        return
    if not isinstance(got, _np.ndarray) or got.ndim != 3 or got.shape[:2] != (2, 3):
        run.fail('C08-R8', K + 'shape', inst.relpath, inner[0].lineno,
                 'the converted table has shape %s for a (2, 3) table; documented (ne, te, td)' % (getattr(got, 'shape', None),))
        return
    wrong = [(i, j, k) for i in range(2) for j in range(3) for k in range(got.shape[2]) if got[i, j, k] != R[i, j]]
    if wrong:
        i, j, k = wrong[0]
        run.fail('C08-R8', K + 'scrambled', inst.relpath, inner[0].lineno,
                 'the converted table is not the 2D table repeated along the donor-temperature axis: entry [%d, %d, %d] holds the input entry %s, '
                 'expected [%d, %d] (%d of %d entries differ)' % (i, j, k, got[i, j, k], i, j, len(wrong), got.size))
    else:
        run.ok('C08-R8', 'thermal CX 3D table', 'data[i, j, k] == rate[i, j] for a 2 x 3 table of symbols, %d donor temperatures' % got.shape[2])


def _r3(run, m15):
    run.describe('C08-R3', 'the three ADF15 header scrapers agree after level extraction; regex groups used <= groups defined')
    names = ['_scrape_metadata_hydrogen', '_scrape_metadata_hydrogen_like', '_scrape_metadata_full']
    summ = {}
    for n in names:
        fn = m15.functions.get(n)
        if fn is None:
            raise AnalysisError('anchored function vanished: %s' % n)
        run.functions += 1
        K = 'cherab.openadas.parse.adf15|%s|' % n
        from ..inline import resolver
        mnames = tuple(t.id for t, v, s2 in stores(fn) if isinstance(t, ast.Name) and isinstance(v, ast.Call) and dotted(v.func) in ('re.match', 're.search'))
        res = resolver(fn, stop=mnames)
        R = lambda e: re.sub(r'\b(%s)\b' % '|'.join(mnames or ('match',)), 'match', norm(res(e)).replace(' ', ''))
        # the two output tables, whatever the locals are called: config[<type>][element][charge][(upper, lower)] = <block>, config['wavelength'][...] = <wl>
        typemap, cfg_ok, wl_txt, blk_txt, rta_txt = {}, [], None, None, None
        for st_ in ast.walk(fn):
            if not (isinstance(st_, ast.Assign) and isinstance(st_.targets[0], ast.Subscript)):
                continue
            chain, t_ = [], st_.targets[0]
            while isinstance(t_, ast.Subscript):
                chain.append(t_.slice)
                t_ = t_.value
            chain.reverse()
            if not (isinstance(t_, ast.Name) and t_.id == 'config' and len(chain) == 4):
                continue
            lv = R(chain[3])
            if isinstance(chain[0], ast.Constant) and chain[0].value == 'wavelength':
                wl_txt = R(st_.value)
                cfg_ok.append(('wavelength', norm(chain[1]), norm(chain[2]), lv))
            else:
                blk_txt = R(st_.value)
                cfg_ok.append(('type', norm(chain[1]), norm(chain[2]), lv))
                tv = chain[0]
                # the type key: constants chosen by tests on the ADAS type, or a lookup in a literal dict
                tr = res(tv)
                if isinstance(tr, ast.Call) and isinstance(tr.func, ast.Attribute) and tr.func.attr == 'get' and isinstance(tr.func.value, ast.Name) \
                        and len(tr.args) == 1:
                    # table.get(key) (with the None case raised afterwards) is the same lookup as table[key]
                    tr = ast.Subscript(value=tr.func.value, slice=tr.args[0], ctx=ast.Load())
                if isinstance(tr, ast.Subscript) and isinstance(tr.value, ast.Name):
                    lit = m15.assigns.get(tr.value.id)
                    if lit is None:
                        lits = [v for t2, v, s2 in stores(fn) if isinstance(t2, ast.Name) and t2.id == tr.value.id]
                        lit = lits[0] if len(lits) == 1 else None
                    if isinstance(lit, ast.Dict) and all(isinstance(k, ast.Constant) and isinstance(v, ast.Constant) for k, v in zip(lit.keys, lit.values)):
                        typemap = {k.value: v.value for k, v in zip(lit.keys, lit.values)}
                        rta_txt = R(tr.slice)
                elif isinstance(tv, ast.Name):
                    for iff in ast.walk(fn):
                        if isinstance(iff, ast.If) and isinstance(iff.test, ast.Compare) and len(iff.test.ops) == 1 and isinstance(iff.test.ops[0], ast.Eq) \
                                and isinstance(iff.test.comparators[0], ast.Constant):
                            for s_ in iff.body:
                                if isinstance(s_, ast.Assign) and norm(s_.targets[0]) == tv.id and isinstance(s_.value, ast.Constant):
                                    typemap[iff.test.comparators[0].value] = s_.value.value
                                    rta_txt = R(iff.test.left)
        gm = lambda k: 'match.groups()[%d]' % k
        summ[n] = dict(typemap=typemap, cfg=sorted(cfg_ok), wavelength=wl_txt, block=blk_txt, rta=rta_txt)
        # regex groups
        pats = {t.id: v.value for t, v, st in stores(fn) if isinstance(t, ast.Name) and isinstance(v, ast.Constant) and isinstance(v.value, str) and t.id.endswith('_match')}
        for c in [c for c in ast.walk(fn) if isinstance(c, ast.Call) and dotted(c.func) == 're.match' and isinstance(c.args[0], ast.Name) and c.args[0].id in pats]:
            pname = c.args[0].id
            tgt = [norm(t) for t, v, st in stores(fn) if v is c]
            if not tgt:
                continue
            mvar = tgt[0]
            used = [s.slice.value for s in ast.walk(fn) if isinstance(s, ast.Subscript) and isinstance(s.slice, ast.Constant) and isinstance(s.slice.value, int)
                    and norm(s.value) == '%s.groups()' % mvar and s.lineno > c.lineno]
            # a later re.match into the same variable ends the scope
            later = [cc.lineno for cc in ast.walk(fn) if isinstance(cc, ast.Call) and dotted(cc.func) == 're.match' and cc.lineno > c.lineno
                     and any(norm(t) == mvar for t, v, st in stores(fn) if v is cc)]
            if later:
                used = [u for u, s in zip(used, [s for s in ast.walk(fn) if isinstance(s, ast.Subscript) and isinstance(s.slice, ast.Constant)
                                                 and isinstance(s.slice.value, int) and norm(s.value) == '%s.groups()' % mvar and s.lineno > c.lineno]) if s.lineno < min(later)]
            run.subject('C08-R3')
            try:
                ng = re.compile(pats[pname]).groups
            except re.error as e:
                run.fail('C08-R3', K + 'regex:' + pname, m15.relpath, c.lineno, '%s: pattern %s does not compile: %s' % (n, pname, e))
                continue
            if used and max(used) < ng:
                run.ok('C08-R3', '%s %s' % (n, pname), 'uses groups %s of %d' % (sorted(set(used)), ng), sample=False)
            elif used:
                run.fail('C08-R3', K + 'regex-groups:' + pname, m15.relpath, c.lineno, '%s reads group %d of pattern %s, which defines only %d groups' % (n, max(used), pname, ng))
    ref = summ[names[0]]
    for n in names:
        run.subject('C08-R3')
        s = summ[n]
        problems = []
        if s['typemap'] != {'EXCIT': 'excitation', 'RECOM': 'recombination', 'CHEXC': 'thermalcx'}:
            problems.append('block type map %s' % s['typemap'])
        if s['wavelength'] not in ('float(match.groups()[1])/10', 'float(match.group(2))/10', 'AngstromToNm.to(float(match.groups()[1]))'):
            problems.append('wavelength %s (documented: Angstrom / 10)' % s['wavelength'])
        if s['block'] not in ('int(match.groups()[0])', 'int(match.group(1))'):
            problems.append('block number %s' % s['block'])
        if s['rta'] not in ('match.groups()[4]', 'match.group(5)'):
            problems.append('block type from %s' % s['rta'])
        lv_ok = all(c_[3] in ('(int(match.groups()[2]),int(match.groups()[3]))', '(upper_level,lower_level)') or 'groups()[2]' in c_[3] or c_[3] == ref['cfg'][0][3] for c_ in s['cfg'])
        if sorted(c_[0] for c_ in s['cfg']) != ['type', 'wavelength'] or any(c_[1:3] != ('element', 'charge') for c_ in s['cfg']) or len({c_[3] for c_ in s['cfg']}) != 1:
            problems.append('output tables %s' % s['cfg'])
        if problems:
            run.fail('C08-R3', 'cherab.openadas.parse.adf15|%s|agreement' % n, m15.relpath, m15.functions[n].lineno, '%s deviates from its siblings: %s' % (n, '; '.join(problems)))
        else:
            run.ok('C08-R3', n, 'type map, Angstrom->nm, block number and both output tables as in the sibling scrapers')
    run.floor('C08-R3', 6)


# ------------------------------------------------------------------------------------------ R4
def _preorder(fn):
    """nodes in execution (source nesting) order, independent of their line numbers"""
    out = []

    def go(n):
        out.append(n)
        for c in ast.iter_child_nodes(n):
            go(c)
    go(fn)
    return out


def _reaching_text(fn, at, e, depth=3):
    """text of e with a plain name replaced by its last assignment before `at` in the same statement list (a name reused later in the
    function is still unambiguous at this point)"""
    if not isinstance(e, ast.Name) or depth <= 0:
        return norm(e)
    for blk in [n.body for n in ast.walk(fn) if hasattr(n, 'body') and isinstance(getattr(n, 'body'), list)]:
        if any(st is at for st in blk):
            prev = [st for st in blk[:[i for i, st in enumerate(blk) if st is at][0]]
                    if isinstance(st, ast.Assign) and any(isinstance(t_, ast.Name) and t_.id == e.id for t_ in st.targets)]
            if prev:
                v = prev[-1].value
                txt = norm(v)
                for nm in [x for x in ast.walk(v) if isinstance(x, ast.Name)]:
                    inner = _reaching_text(fn, prev[-1], nm, depth - 1)
                    if inner != nm.id:
                        txt = txt.replace(nm.id, '(' + inner + ')')
                return txt
    return norm(e)


def _r4(run, mods):
    run.describe('C08-R4', 'reject paths exist and dominate use')
    m11 = mods['adf11']
    fn = m11.functions['parse_adf11']
    run.subject('C08-R4')
    # decided on the expanded + propagated body: the header fields are whatever the comparison resolves to, the order is the order of
    # execution (pre-order position), not the line number -- a helper's statements keep the line numbers of the helper
    from ..inline import propagate as _propagate
    try:
        fn = _propagate(fn)
    except Exception:
        pass
    pos = {}
    for k_, n_ in enumerate(_preorder(fn)):
        pos[id(n_)] = k_
    rs = [r for r in ast.walk(fn) if isinstance(r, ast.Raise)]
    first_table = min([pos[id(c)] for c in ast.walk(fn) if isinstance(c, ast.Call) and dotted(c.func) in ('np.fromstring', 'np.array', 'np.loadtxt', 'np.fromiter')
                       and id(c) in pos] or [10 ** 9])
    ok = False
    for r in rs:
        t = _enclosing_if(fn, r)
        if t is None or dotted(r.exc.func if isinstance(r.exc, ast.Call) else r.exc) != 'ValueError' or pos.get(id(r), 10 ** 9) > first_table:
            continue
        parts = t.test.values if isinstance(t.test, ast.BoolOp) and isinstance(t.test.op, ast.Or) else [t.test]
        num = name = False
        for p_ in parts:
            if isinstance(p_, ast.Compare) and len(p_.ops) == 1 and isinstance(p_.ops[0], ast.NotEq):
                sides = [norm(p_.left), norm(p_.comparators[0])]
                other = [_reaching_text(fn, t, x_) for x_ in (p_.left, p_.comparators[0]) if not norm(x_).startswith('element.')]
                if 'element.atomic_number' in sides and other and 'int(' in other[0] and '[0]' in other[0]:
                    num = True
                if 'element.name' in sides and other and '[5]' in other[0]:
                    name = True
        if num and name:
            ok = True
    if ok:
        run.ok('C08-R4', 'ADF11 element check', 'atomic number and name compared with the header before any table is read')
    else:
        run.fail('C08-R4', 'cherab.openadas.parse.adf11|parse_adf11|element-check', m11.relpath, fn.lineno,
                 'parse_adf11 does not reject a file whose header element (atomic number or name) differs from the requested one before reading tables')
    m15 = mods['adf15']
    er = m15.functions['_extract_rate']
    run.subject('C08-R4')
    last = er.body[-1]
    if isinstance(last, ast.Raise) and dotted(last.exc.func if isinstance(last.exc, ast.Call) else last.exc) in ('RuntimeError', 'ValueError', 'KeyError'):
        run.ok('C08-R4', 'ADF15 absent block', 'falls through to raise')
    else:
        run.fail('C08-R4', 'cherab.openadas.parse.adf15|_extract_rate|absent-block', m15.relpath, er.lineno, '_extract_rate does not raise when the requested block is absent')
    run.subject('C08-R4')
    blk = [n for n in ast.walk(er) if isinstance(n, ast.If) and norm(n.test) == 'int(match.groups()[3]) == block_num']
    if blk:
        run.ok('C08-R4', 'ADF15 block selection', 'isel == requested block number', sample=False)
    else:
        run.fail('C08-R4', 'cherab.openadas.parse.adf15|_extract_rate|block-selection', m15.relpath, er.lineno, '_extract_rate does not select the block by its isel number')
    p = m15.functions['parse_adf15']
    run.subject('C08-R4')
    hv = [n for n in ast.walk(p) if isinstance(n, ast.If) and 're.match' in norm(n.test) and 'header' in norm(n.test) and any(isinstance(s, ast.Raise) for s in n.body)]
    nc = [n for n in ast.walk(p) if isinstance(n, ast.If) and norm(n.test) == 'not config' and any(isinstance(s, ast.Raise) for s in n.body)]
    if hv and nc:
        run.ok('C08-R4', 'ADF15 header / metadata validation', 'invalid first line and unparsable metadata raise')
    else:
        run.fail('C08-R4', 'cherab.openadas.parse.adf15|parse_adf15|validation', m15.relpath, p.lineno, 'parse_adf15 does not validate the header line / metadata')
    run.subject('C08-R4')
    tchk = [n for n in ast.walk(fn) if isinstance(n, ast.If) and 'isinstance(element, Element)' in norm(n.test)]
    if tchk:
        run.ok('C08-R4', 'ADF11 element type', 'TypeError for non-Element', sample=False)
    else:
        run.fail('C08-R4', 'cherab.openadas.parse.adf11|parse_adf11|element-type', m11.relpath, fn.lineno, 'parse_adf11 does not check the element type')


def _enclosing_if(fn, node):
    best = None
    for n in ast.walk(fn):
        if isinstance(n, ast.If) and any(x is node for s in n.body for x in ast.walk(s)):
            best = n
    return best


def _adf15_axes(run, m15, er):
    """sequential reads from the block: K values -> list; then the index map of each returned array"""
    from ..indexmap import ArrEval, I
    K15 = 'cherab.openadas.parse.adf15|_extract_rate|'

    def grp_leaf(n):
        # match.groups()[k]  /  match.group(k + 1)
        if isinstance(n, ast.Subscript) and isinstance(n.slice, ast.Constant) and isinstance(n.value, ast.Call) and isinstance(n.value.func, ast.Attribute) \
                and n.value.func.attr == 'groups':
            return L('G%d' % n.slice.value)
        if isinstance(n, ast.Call) and isinstance(n.func, ast.Attribute) and n.func.attr == 'group' and len(n.args) == 1 and isinstance(n.args[0], ast.Constant):
            return L('G%d' % (n.args[0].value - 1))
        return None
    ae = ArrEval(count_leaf=grp_leaf)
    pos = {}            # stream name -> values consumed so far
    ret = {}

    def read_loop(w):
        """while cnt != K: line = S.pop(0); ...; for v in ...: cnt += 1; lst.append(float(v))  ->  (S, K, lst)"""
        t = w.test
        if not (isinstance(t, ast.Compare) and len(t.ops) == 1 and isinstance(t.ops[0], (ast.NotEq, ast.Lt)) and isinstance(t.left, ast.Name)):
            return None
        cnt = t.left.id
        pops = [c for c in ast.walk(w) if isinstance(c, ast.Call) and isinstance(c.func, ast.Attribute) and c.func.attr == 'pop' and isinstance(c.func.value, ast.Name)
                and len(c.args) == 1 and norm(c.args[0]) == '0']
        apps = [c for c in ast.walk(w) if isinstance(c, ast.Call) and isinstance(c.func, ast.Attribute) and c.func.attr == 'append' and isinstance(c.func.value, ast.Name)]
        incs = [x for x in ast.walk(w) if isinstance(x, ast.AugAssign) and isinstance(x.target, ast.Name) and x.target.id == cnt and norm(x.value) == '1']
        if len(pops) == 1 and len(apps) == 1 and len(incs) == 1:
            return pops[0].func.value.id, ae.count(t.comparators[0]), apps[0].func.value.id
        return None

    def block(stmts):
        for st in stmts:
            if isinstance(st, ast.While):
                r = read_loop(st)
                if r is None:
                    raise ValueError('loop %s' % norm(st.test))
                sname, k, lst = r
                start = pos.get(sname, C(0))
                a = ae.new_stream(sname, k)
                a.stream = sname
                a.off = I(0) + start
                ae.env[lst] = a
                pos[sname] = start + k
            elif isinstance(st, (ast.For, ast.If, ast.With, ast.Try)):
                block(st.body)
                if ret:
                    return
            elif isinstance(st, ast.Assign) and len(st.targets) == 1 and isinstance(st.targets[0], ast.Name):
                a = ae.value(st.value)
                n = st.targets[0].id
                if a is not None:
                    ae.env[n] = a
                else:
                    ae.env.pop(n, None)
                    c = ae.count(st.value)
                    if not any(l.startswith('?') for l in c.leaves()):
                        ae.counts[n] = c
            elif isinstance(st, ast.Return) and isinstance(st.value, ast.Dict):
                for k, v in zip(st.value.keys, st.value.values):
                    if isinstance(k, ast.Constant):
                        ret[k.value] = ae.value(v)
                return
    try:
        block(er.body)
    except ValueError as e:
        run.undecided('C08-R5', 'ADF15 axes', 'reading %s not recognised' % e)
        return
    ne, te, ra = ret.get('ne'), ret.get('te'), ret.get('rate')
    if ne is None or te is None or ra is None:
        run.undecided('C08-R5', 'ADF15 axes', 'returned arrays not recognised: %s' % {k: (v.key() if v is not None else None) for k, v in ret.items()})
        return
    G0, G1 = L('G0'), L('G1')
    probs = []
    if not (ne.off.eq(I(0)) and ne.dims[0] is not None and ne.dims[0].eq(G0)):
        probs.append("'ne' is %s; documented: the first <field 1> values of the block" % ne.key())
    if not (te.stream == ne.stream and te.off.eq(G0 + I(0)) and te.dims[0] is not None and te.dims[0].eq(G1)):
        probs.append("'te' is %s; documented: the next <field 2> values" % te.key())
    if not (ra.stream == ne.stream and len(ra.dims) == 2 and ra.dims[0].eq(G0) and ra.dims[1].eq(G1) and ra.off.eq(G0 + G1 + I(0) * G1 + I(1))):
        probs.append("'rate' is %s; documented: rate[density, temperature] = value number (density index * n_te + temperature index) after the two axes" % ra.key())
    if probs:
        run.fail('C08-R5', K15 + 'axis-order', m15.relpath, er.lineno, '_extract_rate: ' + '; '.join(probs))
    else:
        run.ok('C08-R5', 'ADF15 axes', 'densities, then temperatures, then n_ne * n_te rates as rate[density, temperature]')


def _adf2x_axes_symbolic(run, mu, pr, K2):
    """Any other spelling of the table assembly: the statements are replayed on arrays of *symbols* with numpy's own reshape / concatenate /
    transpose (sa/npsym.py): 2 energies, 3 densities, record d of the file = (b_d0, b_d1); the table stored under 'SV' must hold b_de at
    [e, d]."""
    from ..npsym import NpEval, Unknown, tokens
    import numpy as _np
    eb = [v2 for t2, v2, s2 in stores(pr) if isinstance(t2, ast.Subscript) and norm(t2.slice) == "'EB'" and isinstance(v2, ast.Call) and dotted(v2.func) == 'readvalues']
    dt = [v2 for t2, v2, s2 in stores(pr) if isinstance(t2, ast.Subscript) and norm(t2.slice) == "'DT'" and isinstance(v2, ast.Call) and dotted(v2.func) == 'readvalues']
    svs = [(v2, s2) for t2, v2, s2 in stores(pr) if isinstance(t2, ast.Subscript) and norm(t2.slice) == "'SV'"]
    if not eb or not dt or len(svs) != 1:
        run.undecided('C08-R5', 'ADF2x axes', 'two-dimensional table allocation not recognised')
        return
    ne_, nd_ = norm(eb[0].args[1]), norm(dt[0].args[1])
    NE, ND = 2, 3
    count = [0]

    def leaf(e):
        if isinstance(e, ast.Call) and dotted(e.func) == 'readvalues' and len(e.args) >= 2:
            n = ev.ev(e.args[1])
            k = count[0]
            count[0] += 1
            return tokens('b%d' % k, (n,))
        return None
    ev = NpEval(env={ne_: NE, nd_: ND}, leaf=leaf)

    def comp(e):
        # [expr for _ in range(K)]
        if isinstance(e, ast.ListComp) and len(e.generators) == 1 and isinstance(e.generators[0].iter, ast.Call) and dotted(e.generators[0].iter.func) == 'range':
            g = e.generators[0]
            out = []
            for i in range(*[ev.ev(a) for a in g.iter.args]):
                if isinstance(g.target, ast.Name):
                    ev.env[g.target.id] = i
                out.append(ev.ev(e.elt))
            return out
        return None
    base_ev = ev.ev

    def ev2(e):
        r = comp(e)
        if r is not None:
            return r
        return base_ev(e)
    ev.ev = ev2

    def run_stmts(stmts):
        for st in stmts:
            if isinstance(st, ast.For) and isinstance(st.target, ast.Name) and isinstance(st.iter, ast.Call) and dotted(st.iter.func) == 'range':
                try:
                    rng = range(*[ev.ev(a) for a in st.iter.args])
                except Exception:
                    continue
                for i in rng:
                    ev.env[st.target.id] = i
                    run_stmts(st.body)
                continue
            try:
                ev.run([st])
            except Unknown:
                continue
            except Exception:
                continue
    # replay from the statement after the density axis has been read (the records of the table follow it in the file)
    body = list(pr.body)
    start = 0
    for k, st in enumerate(body):
        if any(x is dt[0] for x in ast.walk(st)):
            start = k + 1
    count[0] = 0
    run_stmts(body[start:])
    try:
        got = ev.ev(svs[0][0])
    except Exception as e:
        run.undecided('C08-R5', 'ADF2x axes', 'table assembly not interpreted: %s' % str(e)[:50])
        return
    if not isinstance(got, _np.ndarray) or got.shape != (NE, ND):
        if isinstance(got, _np.ndarray) and got.shape == (ND, NE):
            run.fail('C08-R5', K2 + 'axis-order', mu.relpath, svs[0][1].lineno, 'parse_adas2x_rate builds sv[density, energy]; documented: sv[energy, density]')
        else:
            run.undecided('C08-R5', 'ADF2x axes', 'table has shape %s for %d energies and %d densities' % (getattr(got, 'shape', None), NE, ND))
        return
    bad = [(e_, d_) for e_ in range(NE) for d_ in range(ND) if got[e_, d_] != 'b%d%d' % (d_, e_)]
    if not bad:
        run.ok('C08-R5', 'ADF2x axes', 'sv[energy, density] assembled from one record of energies per density (replayed on symbols)')
    else:
        e_, d_ = bad[0]
        run.fail('C08-R5', K2 + 'axis-order', mu.relpath, svs[0][1].lineno,
                 'parse_adas2x_rate: with %d energies and %d densities the entry sv[energy %d, density %d] holds value %s of record %s; the file stores '
                 'one record of energies per density, so it must hold value %d of record %d (the table is scrambled although its shape is right)'
                 % (NE, ND, e_, d_, str(got[e_, d_])[2:], str(got[e_, d_])[1:2], e_, d_))


def _adf2x_axes(run, mu, pr):
    """sv[energy, density]: ndt columns of neb values each"""
    run.subject('C08-R5')
    K2 = 'cherab.openadas.parse.utility|parse_adas2x_rate|'
    zs = [(t, v, st) for t, v, st in stores(pr) if isinstance(t, ast.Name) and isinstance(v, ast.Call) and dotted(v.func) in ('np.zeros', 'numpy.zeros')
          and v.args and isinstance(v.args[0], ast.Tuple) and len(v.args[0].elts) == 2]
    if len(zs) != 1:
        _adf2x_axes_symbolic(run, mu, pr, K2)
        return
    tab = zs[0][0].id
    d0, d1 = [norm(e) for e in zs[0][1].args[0].elts]
    cols = [(lp, st) for lp in ast.walk(pr) if isinstance(lp, ast.For) and isinstance(lp.target, ast.Name) for st in lp.body
            if isinstance(st, ast.Assign) and isinstance(st.targets[0], ast.Subscript) and norm(st.targets[0].value) == tab]
    if len(cols) != 1:
        run.undecided('C08-R5', 'ADF2x axes', 'filling loop not recognised')
        return
    lp, st = cols[0]
    sl = st.targets[0].slice
    v = st.value
    if not (isinstance(sl, ast.Tuple) and len(sl.elts) == 2 and isinstance(v, ast.Call) and dotted(v.func) == 'readvalues' and len(v.args) >= 2
            and isinstance(lp.iter, ast.Call) and dotted(lp.iter.func) == 'range' and len(lp.iter.args) == 1):
        run.undecided('C08-R5', 'ADF2x axes', 'filling statement not recognised: %s' % norm(st))
        return
    n_iter, n_read = norm(lp.iter.args[0]), norm(v.args[1])
    full = [isinstance(e, ast.Slice) and e.lower is None and e.upper is None for e in sl.elts]
    idx = [norm(e) == lp.target.id for e in sl.elts]
    # which header count is the number of energies: the one used to read the axis stored under 'EB'
    eb = [v2 for t2, v2, s2 in stores(pr) if isinstance(t2, ast.Subscript) and norm(t2.slice) == "'EB'" and isinstance(v2, ast.Call) and dotted(v2.func) == 'readvalues']
    dt = [v2 for t2, v2, s2 in stores(pr) if isinstance(t2, ast.Subscript) and norm(t2.slice) == "'DT'" and isinstance(v2, ast.Call) and dotted(v2.func) == 'readvalues']
    if not eb or not dt:
        run.undecided('C08-R5', 'ADF2x axes', 'axis reads not recognised')
        return
    ne_, nd_ = norm(eb[0].args[1]), norm(dt[0].args[1])
    if full == [True, False] and idx == [False, True] and (d0, d1) == (ne_, nd_) and (n_iter, n_read) == (nd_, ne_):
        run.ok('C08-R5', 'ADF2x axes', 'sv[energy, density], one column of %s energies per density' % ne_)
    elif full == [False, True] and idx == [True, False] and (d0, d1) == (nd_, ne_) and (n_iter, n_read) == (nd_, ne_):
        run.fail('C08-R5', K2 + 'axis-order', mu.relpath, st.lineno, 'parse_adas2x_rate builds sv[density, energy]; documented: sv[energy, density]')
    elif (n_iter, n_read) != (nd_, ne_) or sorted((d0, d1)) != sorted((ne_, nd_)):
        run.fail('C08-R5', K2 + 'axis-order', mu.relpath, st.lineno,
                 'parse_adas2x_rate reads %s blocks of %s values into a (%s, %s) table; documented: %s blocks (one per density) of %s energies' % (n_iter, n_read, d0, d1, nd_, ne_))
    else:
        run.fail('C08-R5', K2 + 'axis-order', mu.relpath, st.lineno, 'parse_adas2x_rate fills %s of a (%s, %s) table: not sv[energy, density]' % (norm(st.targets[0]), d0, d1))


# Field positions of the fixed-format ADAS records read by column (ADF21 / ADF22 header lines, the ADF12 block header and section sizes):
# field -> (first column, end column) of the record line, or (number of values, values per line) of a readvalues() section.
# The parsed tables equal the file's content only if every field is cut at these columns; the table is the format description the
# parsers implement, recorded per *field* (not per source line) so that renaming or restructuring the parser does not touch it.
FORMAT = {
    ('utility', 'parse_adas2x_rate'): {
        "raw['ZT']": ('3', '5'), "raw['SVREF']": ('13', '22'), "raw['SPEC']": ('29', '31'), "raw['DATE']": ('38', '46'), "raw['CODE']": ('53', '-1'),
        'neb': ('1', '5'), 'ndt': ('6', '10'), "raw['TREF']": ('17', '26'), 'ntt': ('1', '5'), "raw['EREF']": ('12', '21'), "raw['DREF']": ('28', '37'),
        "raw['EB']": ('rv', 'neb', '8'), "raw['DT']": ('rv', 'ndt', '8'), "raw['TT']": ('rv', 'ntt', '8'), "raw['SVT']": ('rv', 'ntt', '8')},
    ('adf12', '_parse_block'): {
        "rate['QEFREF']": ('rv', '1', '6'), "rate['ENER']": ('rv', '24', '6'), "rate['QENER']": ('rv', '24', '6'), "rate['TIEV']": ('rv', '12', '6'),
        "rate['QTIEV']": ('rv', '12', '6'), "rate['DENSI']": ('rv', '24', '6'), "rate['QDENSI']": ('rv', '24', '6'), "rate['ZEFF']": ('rv', '12', '6'),
        "rate['QZEFF']": ('rv', '12', '6'), "rate['BMAG']": ('rv', '12', '6'), "rate['QBMAG']": ('rv', '12', '6')},
    ('adf12', 'parse_adf12'): {'rate_count': ('3', '5')},
    # ADF11 header line: nuclear charge, number of densities, number of temperatures, (z_min, z_max: read but unused), element name;
    # then the density vector followed by the temperature vector
    ('adf11', 'parse_adf11'): {'z_nuclear': ('ix', '0'), 'n_densities': ('ix', '1'), 'n_temperatures': ('ix', '2'), 'element_name': ('ix', '5'),
                               'densities': (None, 'n_densities'), 'temperatures': ('n_densities', None)},
}
# sections cut to the number of points the block header announces: field -> (first index, count variable position in the header)
ADF12_CUT = {"rate['ENER']": 0, "rate['QENER']": 0, "rate['TIEV']": 1, "rate['QTIEV']": 1, "rate['DENSI']": 2, "rate['QDENSI']": 2,
             "rate['ZEFF']": 3, "rate['QZEFF']": 3, "rate['BMAG']": 4, "rate['QBMAG']": 4}


def _format_tables(run, mods):
    run.describe('C08-R9', 'fixed-format fields are cut at the columns of the ADAS record layout; sections have their documented sizes')
    for (mname, fname), table in FORMAT.items():
        mi = mods.get(mname)
        fn = mi.functions.get(fname) if mi is not None else None
        if fn is None:
            run.subject('C08-R9')
            run.undecided('C08-R9', fname, 'function not found')
            continue
        got = {}
        for st in ast.walk(fn):
            if not isinstance(st, ast.Assign):
                continue
            tg = norm(st.targets[0])
            for x in ast.walk(st.value):
                if isinstance(x, ast.Subscript) and isinstance(x.slice, ast.Slice) and isinstance(x.value, (ast.Name, ast.Call)) \
                        and not (isinstance(x.value, ast.Call) and dotted(x.value.func) == 'readvalues'):
                    got.setdefault(tg, []).append((norm(x.slice.lower) if x.slice.lower is not None else None, norm(x.slice.upper) if x.slice.upper is not None else None))
                if isinstance(x, ast.Subscript) and isinstance(x.slice, ast.Constant) and isinstance(x.slice.value, int) and isinstance(x.value, ast.Name):
                    got.setdefault(tg, []).append(('ix', str(x.slice.value)))
                if isinstance(x, ast.Call) and dotted(x.func) == 'readvalues' and len(x.args) >= 3:
                    got.setdefault(tg, []).append(('rv', norm(x.args[1]), norm(x.args[2])))
        for field, want in sorted(table.items()):
            run.subject('C08-R9')
            g = got.get(field)
            if g is None:
                run.undecided('C08-R9', '%s %s' % (fname, field), 'field not found under that name')
            elif tuple(want) in [tuple(x) for x in g]:
                run.ok('C08-R9', '%s %s' % (fname, field), str(want), sample=False)
            else:
                run.fail('C08-R9', 'cherab.openadas.parse.%s|%s|field:%s' % (mname, fname, field), mi.relpath, fn.lineno,
                         '%s reads %s from %s; the record layout puts it at %s (columns of the line, or number of values / values per line of '
                         'the section): the parsed value is not the one in the file' % (fname, field, g, want))
    # the ADF12 scans are cut to the announced number of points, starting at the first value
    mi = mods.get('adf12')
    fn = mi.functions.get('_parse_block') if mi is not None else None
    if fn is not None:
        counts = None
        for st in ast.walk(fn):
            if isinstance(st, ast.Assign) and isinstance(st.targets[0], ast.Tuple) and len(st.targets[0].elts) == 5 and all(isinstance(e, ast.Name) for e in st.targets[0].elts) \
                    and any(isinstance(c, ast.Call) and dotted(c.func) == 'readvalues' for c in ast.walk(st.value)) \
                    and any(isinstance(c, ast.Call) and dotted(c.func) in ('int', 'map') for c in ast.walk(st.value)) is not None:
                names = [e.id for e in st.targets[0].elts]
                if all(n.startswith('n') for n in names):
                    counts = names
        for st in ast.walk(fn):
            if isinstance(st, ast.Assign) and norm(st.targets[0]) in ADF12_CUT and isinstance(st.value, ast.Subscript) and isinstance(st.value.slice, ast.Slice):
                run.subject('C08-R9')
                field = norm(st.targets[0])
                lo = norm(st.value.slice.lower) if st.value.slice.lower is not None else '0'
                hi = norm(st.value.slice.upper) if st.value.slice.upper is not None else None
                wanthi = counts[ADF12_CUT[field]] if counts else None
                if lo == '0' and (wanthi is None or hi == wanthi):
                    run.ok('C08-R9', '_parse_block %s cut' % field, '[0:%s]' % hi, sample=False)
                elif lo != '0' or (wanthi is not None and hi in (counts or []) and hi != wanthi):
                    run.fail('C08-R9', 'cherab.openadas.parse.adf12|_parse_block|cut:%s' % field, mi.relpath, st.lineno,
                             '_parse_block keeps %s[%s:%s]; the scan holds its first %s values' % (field, lo, hi, wanthi or 'n'))
                else:
                    run.undecided('C08-R9', '_parse_block %s cut' % field, '[%s:%s]' % (lo, hi))
    run.floor('C08-R9', 20)


def _dispatch(run, inst):
    """C08-R10: install_files maps a configuration key to the install route of that name, passing the caller's options under their own names."""
    run.describe('C08-R10', "install_files: the route called under the test for configuration key 'K' is install_K, every anchored route is "
                            "dispatched, and download / repository_path / adas_path are forwarded under their own names")
    fn = dict.get(inst.functions, 'install_files')
    if fn is None:
        return
    K = 'cherab.openadas.install|install_files|'
    seen = {}

    def lits(test):
        """([literals required equal], [literals required different]) by a test on the configuration key"""
        eq, ne = [], []
        if isinstance(test, ast.BoolOp) and isinstance(test.op, ast.And):
            for v in test.values:
                a, b = lits(v)
                eq += a; ne += b
        elif isinstance(test, ast.Compare) and len(test.ops) == 1:
            l, r = test.left, test.comparators[0]
            for x, y in ((l, r), (r, l)):
                if isinstance(y, ast.Constant) and isinstance(y.value, str) and not isinstance(x, ast.Constant):
                    (eq if isinstance(test.ops[0], ast.Eq) else ne if isinstance(test.ops[0], ast.NotEq) else []).append(y.value)
            if isinstance(test.ops[0], (ast.In, ast.NotIn)) and isinstance(r, (ast.Tuple, ast.List, ast.Set)) \
                    and all(isinstance(e, ast.Constant) and isinstance(e.value, str) for e in r.elts) and len(r.elts) == 1:
                (eq if isinstance(test.ops[0], ast.In) else ne).append(r.elts[0].value)
        elif isinstance(test, ast.UnaryOp) and isinstance(test.op, ast.Not):
            a, b = lits(test.operand)
            if len(a) + len(b) == 1:
                return b, a
            return [], []
        return eq, ne

    def walk(stmts, eq, ne):
        for st in stmts:
            if isinstance(st, ast.If):
                a, b = lits(st.test)
                walk(st.body, eq + a, ne + b)
                walk(st.orelse, eq + (b if len(a) + len(b) == 1 else []), ne + (a if len(a) + len(b) == 1 else []))
            elif isinstance(st, (ast.For, ast.While, ast.With, ast.Try)):
                for blk in ('body', 'orelse', 'finalbody'):
                    walk(getattr(st, blk, []) or [], eq, ne)
                for h in getattr(st, 'handlers', []) or []:
                    walk(h.body, eq, ne)
            else:
                for c in ast.walk(st):
                    if isinstance(c, ast.Call) and isinstance(c.func, ast.Name) and c.func.id in ROUTES:
                        seen.setdefault(c.func.id, []).append((c, list(eq), list(ne)))
    walk(fn.body, [], [])
    # table form: {'adf11scd': install_adf11scd, ...}
    for d in [n for n in ast.walk(fn) if isinstance(n, ast.Dict)] + [v for v in inst.assigns.values() if isinstance(v, ast.Dict)]:
        for k, v in zip(d.keys, d.values):
            if isinstance(k, ast.Constant) and isinstance(k.value, str) and isinstance(v, ast.Name) and v.id in ROUTES:
                seen.setdefault(v.id, []).append((None, [k.value], []))
                if 'install_' + k.value.lower() != v.id:
                    run.subject('C08-R10')
                    run.fail('C08-R10', K + 'table:' + v.id, inst.relpath, getattr(k, 'lineno', fn.lineno),
                             "the dispatch table maps configuration key '%s' to %s" % (k.value, v.id))
    for route in ROUTES:
        run.subject('C08-R10')
        kind = route[len('install_'):]
        uses = seen.get(route)
        if not uses:
            if seen:
                run.fail('C08-R10', K + 'missing:' + route, inst.relpath, fn.lineno,
                         'install_files dispatches %d routes but never calls %s: files of that type in a configuration are silently skipped' % (len(seen), route))
            else:
                run.undecided('C08-R10', route, 'no dispatch of the install routes recognised in install_files')
            continue
        bad = None
        for call, eq, ne in uses:
            if any(e.lower() != kind for e in eq):
                bad = "is called under the test for configuration key '%s'" % [e for e in eq if e.lower() != kind][0]
            elif any(e.lower() == kind for e in ne):
                bad = "is called when the configuration key is NOT '%s'" % kind
            elif call is not None:
                for kw in call.keywords:
                    if kw.arg in ('download', 'repository_path', 'adas_path') and isinstance(kw.value, ast.Name) \
                            and kw.value.id in ('download', 'repository_path', 'adas_path') and kw.value.id != kw.arg:
                        bad = "is given %s=%s" % (kw.arg, kw.value.id)
            if bad:
                run.fail('C08-R10', K + route, inst.relpath, call.lineno if call is not None else fn.lineno, 'install_files: %s %s' % (route, bad))
                break
        if not bad:
            if any(eq for _, eq, _ in uses):
                run.ok('C08-R10', route, "called for configuration key '%s'" % kind)
            else:
                run.undecided('C08-R10', route, 'the condition under which install_files calls it is not a comparison of the key with a literal')


def _readvalues(run, mu, rv0):
    """fixed-width framing: value k of a line occupies characters [1 + 10 k, 10 (k + 1)); a new line every values_per_line values"""
    from ..inline import propagate
    run.subject('C08-R5')
    KR = 'cherab.openadas.parse.utility|readvalues|'
    rv = propagate(rv0)
    ps = [a.arg for a in rv.args.args]
    nvals, per = ps[1], ps[2]
    loops = [w for w in ast.walk(rv) if isinstance(w, ast.While)]
    if len(loops) != 1 or not isinstance(loops[0].test, ast.Compare):
        run.undecided('C08-R5', 'readvalues framing', 'reading loop not recognised')
        return
    w = loops[0]
    cnt = norm(w.test.left)
    ev = SymEval()
    col = L('Mod(%s,%s)' % (cnt, per))
    sl = [x for x in ast.walk(w) if isinstance(x, ast.Subscript) and isinstance(x.slice, ast.Slice) and isinstance(x.value, ast.Name)]
    newline = [i for i in ast.walk(w) if isinstance(i, ast.If) and any(isinstance(c, ast.Call) and isinstance(c.func, ast.Attribute) and c.func.attr == 'readline' for c in ast.walk(i))]
    if len(sl) != 1 or len(newline) != 1:
        run.undecided('C08-R5', 'readvalues framing', 'field slice / line advance not recognised')
        return
    # a local holding the column number (count % values_per_line), recomputed in every iteration before its uses
    for t0, v0, st0 in stores(w):
        if isinstance(t0, ast.Name) and isinstance(v0, ast.BinOp) and isinstance(v0.op, ast.Mod) and norm(v0.left) == cnt and norm(v0.right) == per \
                and st0 in w.body and all(getattr(u, 'lineno', 0) >= st0.lineno for u in ast.walk(w) if isinstance(u, ast.Name) and u.id == t0.id):
            ev.env[t0.id] = col
    lo, hi = ev.ev(sl[0].slice.lower), ev.ev(sl[0].slice.upper)
    t = newline[0].test
    adv_ok = isinstance(t, ast.Compare) and len(t.ops) == 1 and isinstance(t.ops[0], ast.Eq) and norm(t.comparators[0]) == '0' and ev.ev(t.left).eq(col)
    probs = []
    if not lo.eq(C(1) + C(10) * col) or not hi.eq(C(10) * (col + C(1))):
        if all(l == col.key() for l in (lo.leaves() | hi.leaves())):
            probs.append('value k of a line is cut as characters [%s, %s); documented: [1 + 10 k, 10 (k + 1))' % (lo.key(), hi.key()))
        else:
            run.undecided('C08-R5', 'readvalues framing', 'field bounds %s, %s not recognised' % (lo.key(), hi.key()))
            return
    if not adv_ok:
        probs.append('a new line is read when %s, documented: when the number of values read is a multiple of %s' % (norm(t), per))
    if not (type(w.test.ops[0]).__name__ in ('Lt', 'NotEq') and norm(w.test.comparators[0]) == nvals):
        probs.append('the loop runs while %s' % norm(w.test))
    if probs:
        run.fail('C08-R5', KR + 'framing', mu.relpath, rv0.lineno, 'readvalues: ' + '; '.join(probs))
    else:
        run.ok('C08-R5', 'readvalues framing', 'a new line every values_per_line values; 10-character fields [1 + 10k, 10(k+1))', sample=False)



# ------------------------------------------------------------------------------------------ R5
def _r5(run, mods):
    run.describe('C08-R5', 'axis order of the parsed tables')
    from ..indexmap import ArrEval, Arr, I
    from ..inline import propagate
    m11 = mods['adf11']
    fn0 = m11.functions['parse_adf11']
    fn = fn0

    def hdr_leaf(n):
        """int(<header fields>[k]) / <header fields>[k] -> Hk (k-th whitespace separated field of the ADF11 header line)"""
        if isinstance(n, ast.Subscript) and isinstance(n.slice, ast.Constant) and isinstance(n.slice.value, int) and isinstance(n.value, ast.Name):
            return L('H%d' % n.slice.value)
        return None
    ae = ArrEval(count_leaf=hdr_leaf)
    recs = {}
    for st in sorted([x for x in ast.walk(fn) if isinstance(x, (ast.Assign, ast.AnnAssign))], key=lambda x: (x.lineno, x.col_offset)):
        t = st.targets[0] if isinstance(st, ast.Assign) else st.target
        v = st.value
        if v is None:
            continue
        if isinstance(t, ast.Name):
            if isinstance(v, ast.Call) and dotted(v.func) in ('np.fromstring', 'np.fromiter', 'np.loadtxt', 'np.array') and not ae.value(v):
                ae.env[t.id] = ae.new_stream(t.id)
            elif isinstance(v, ast.Call) and isinstance(v.func, ast.Attribute) and isinstance(v.func.value, ast.Call) \
                    and dotted(v.func.value.func) in ('np.fromstring',):
                base = ae.new_stream(t.id)
                ae.env['__tmp'] = base
                v2 = ast.Call(func=ast.Attribute(value=ast.Name(id='__tmp', ctx=ast.Load()), attr=v.func.attr, ctx=ast.Load()), args=v.args, keywords=v.keywords)
                ae.env[t.id] = ae.value(v2)
            else:
                a = ae.value(v)
                if a is not None:
                    ae.env[t.id] = a
                else:
                    ae.env.pop(t.id, None)
                    c = ae.count(v)
                    if not any(l.startswith('?') for l in c.leaves()):
                        ae.counts[t.id] = c
        elif isinstance(t, ast.Subscript) and isinstance(t.slice, ast.Constant) and t.slice.value in ('ne', 'te', 'rates'):
            recs[t.slice.value] = (ae.value(v), st)
    A, B = L('H1'), L('H2')
    run.subject('C08-R5')
    ne, te, ra = recs.get('ne', (None, None)), recs.get('te', (None, None)), recs.get('rates', (None, None))
    K11 = 'cherab.openadas.parse.adf11|parse_adf11|'
    if ne[0] is None or te[0] is None or ra[0] is None:
        run.undecided('C08-R5', 'ADF11 axes', 'index maps of the stored arrays not recognised (ne=%s te=%s rates=%s)' % tuple(
            (x[0].key() if x[0] is not None else None) for x in (ne, te, ra)))
    else:
        probs = []
        if not (ne[0].off.eq(I(0)) and ne[0].dims[0] is not None and ne[0].dims[0].eq(A)):
            probs.append("'ne' holds %s; documented: the first IDMAXD (header field 1) values of the axis block" % ne[0].key())
        if not (te[0].stream == ne[0].stream and te[0].off.eq(A + I(0))):
            probs.append("'te' holds %s; documented: the values after the first IDMAXD of the same block" % te[0].key())
        if ra[0].stream == ne[0].stream:
            probs.append("'rates' is cut from the axis block")
        elif not (len(ra[0].dims) == 2 and ra[0].dims[0].eq(A) and ra[0].dims[1].eq(B) and ra[0].off.eq(I(1) * A + I(0))):
            probs.append("'rates' is %s; documented: rates[density, temperature] = value number (temperature index * IDMAXD + density index) "
                         "of the block (dims (H1, H2), offset i1*H1 + i0)" % ra[0].key())
        if probs:
            run.fail('C08-R5', K11 + 'axis-order', m11.relpath, (ra[1] or fn).lineno, 'parse_adf11: ' + '; '.join(probs))
        else:
            run.ok('C08-R5', 'ADF11 axes', 'rates[density, temperature] from a temperature-major block; densities listed first; counts from header fields 1 and 2')
    # ADF15
    m15 = mods['adf15']
    er = m15.functions['_extract_rate']
    run.subject('C08-R5')
    _adf15_axes(run, m15, er)
    mu = mods['utility']
    pr = mu.functions['parse_adas2x_rate']
    _adf2x_axes(run, mu, pr)
    rv = mu.functions['readvalues']
    _readvalues(run, mu, rv)
    _format_tables(run, mods)
    # ADF12: the five scans (energy, temperature, density, Zeff, B) appear in the same order in the reference values, the
    # point counts and the scan blocks
    m12 = mods['adf12']
    pb = m12.functions.get('_parse_block')
    run.subject('C08-R5')
    if pb is None:
        raise AnalysisError('anchored function vanished: _parse_block')

    # the block is a fixed sequence of reads: #1 qefref, #2 the five reference values (E, T, N, Zeff, B), #3 the five point counts in
    # the same order, then for each scan its grid (#4, #6, ...) and its values (#5, #7, ...), each cut to the count of its own scan
    reads = {}

    def val(e):
        if isinstance(e, ast.Call) and dotted(e.func) == 'readvalues':
            reads['n'] = reads.get('n', 0) + 1
            return ('read', reads['n'])
        if isinstance(e, ast.Name):
            return env.get(e.id)
        if isinstance(e, ast.Subscript):
            b0 = val(e.value)
            if b0 is None:
                return None
            if isinstance(e.slice, ast.Constant) and isinstance(e.slice.value, int) and b0[0] == 'read':
                return ('comp', b0[1], e.slice.value)
            if isinstance(e.slice, ast.Slice) and e.slice.step is None and (e.slice.lower is None or norm(e.slice.lower) == '0') and b0[0] == 'read':
                return ('slice', b0[1], val(e.slice.upper))
            return None
        if isinstance(e, ast.Tuple):
            return ('tuple', [val(x) for x in e.elts])
        if isinstance(e, ast.Call) and dotted(e.func) in ('int', 'float') and len(e.args) == 1:
            return val(e.args[0])
        return None
    env, stored = {}, {}
    interp_ok = True
    for st in pb.body:
        if isinstance(st, ast.Assign) and len(st.targets) == 1:
            t = st.targets[0]
            if isinstance(t, ast.Subscript) and isinstance(t.slice, ast.Constant) and isinstance(t.slice.value, str) and isinstance(t.value, ast.Name):
                stored[t.slice.value] = val(st.value)
            elif isinstance(t, ast.Name):
                env[t.id] = val(st.value)
            elif isinstance(t, ast.Tuple) and all(isinstance(x, ast.Name) for x in t.elts):
                v = val(st.value)
                if v is not None and v[0] == 'read':
                    for i_, x in enumerate(t.elts):
                        env[x.id] = ('comp', v[1], i_)
                elif v is not None and v[0] == 'tuple' and len(v[1]) == len(t.elts):
                    for x, vv in zip(t.elts, v[1]):
                        env[x.id] = vv
                else:
                    for x in t.elts:
                        env[x.id] = None
    want = {'QEFREF': ('comp', 1, 0)}
    for i_, k in enumerate(('EBREF', 'TIREF', 'NIREF', 'ZEREF', 'BREF')):
        want[k] = ('comp', 2, i_)
    for i_, (g, q) in enumerate((('ENER', 'QENER'), ('TIEV', 'QTIEV'), ('DENSI', 'QDENSI'), ('ZEFF', 'QZEFF'), ('BMAG', 'QBMAG'))):
        want[g] = ('slice', 4 + 2 * i_, ('comp', 3, i_))
        want[q] = ('slice', 5 + 2 * i_, ('comp', 3, i_))
    unknown = [k for k in want if stored.get(k) is None]
    wrong = [(k, stored[k], want[k]) for k in want if stored.get(k) is not None and stored[k] != want[k]]

    def show(v):
        if v[0] == 'comp':
            return 'value %d of read #%d' % (v[2] + 1, v[1])
        if v[0] == 'slice':
            return 'read #%d cut to %s' % (v[1], show(v[2]) if v[2] else '?')
        return str(v)
    if wrong:
        k, got, w = wrong[0]
        run.fail('C08-R5', 'cherab.openadas.parse.adf12|_parse_block|scan-order', m12.relpath, pb.lineno,
                 "ADF12 block: '%s' is %s; the format has %s -- the five scans (E, T, N, Zeff, B) are not handled in one consistent order (a scan is "
                 "cut or padded to another scan's length, or a reference value is taken from another scan)" % (k, show(got), show(w)))
    elif unknown:
        run.undecided('C08-R5', 'ADF12 scan order', 'cannot interpret how %s are read' % unknown[:3])
    else:
        run.ok('C08-R5', 'ADF12 scan order', 'reference values, point counts and scan blocks all in the order E, T, N, Zeff, B; each scan cut to its own count')
    run.floor('C08-R5', 4)


_A11 = PD + 'adf11.py'
_A12 = PD + 'adf12.py'
_A15 = PD + 'adf15.py'
_A22 = PD + 'adf22.py'
_UT = PD + 'utility.py'
_IN = 'cherab/openadas/install.py'
MUTANTS = [
    dict(name='thermalcx-table-tiled-then-reshaped', file='cherab/openadas/install.py',
         find="                data = np.empty((len(rate['ne']), len(rate['te']), 2))\n                data[:, :, :] = rate['rate'][:, :, None]\n",
         replace="                data = np.tile(rate['rate'], 2).reshape((len(rate['ne']), len(rate['te']), 2))\n", expect='C08-R8'),
    dict(name='base-conversion-inverse-multiplies', file='cherab/core/utility/conversion.py',
         find="        return x / cls.conversion_factor\n", replace="        return x * cls.conversion_factor\n", occurrence=0, of=1, expect='C08-R2'),
    dict(name='adf11-z1-single-digit-capture', file='cherab/openadas/parse/adf11.py',
         find='                z1_pos = re.search(r"Z1\\s*=*\\s*[0-9]+\\s*", lines[i]).group()  # get Z1 part\n                ion_charge = int(re.sub(r"Z1[\\s*=]", "", z1_pos))',
         replace='                ion_charge = int(re.search(r"Z1\\s*=*\\s*([0-9])", lines[i]).group(1))', expect='C08-R7'),
    dict(name='adf15-block-count-single-digit', file='cherab/openadas/parse/adf15.py',
         find="a?\\s*([0-9]*)\\s*([0-9]*).*/type", replace="a?\\s*([0-9])\\s*([0-9]*).*/type", expect='C08-R7'),
    dict(name='thermalcx-converter-reuses-one-array', file=_IN, edits=[
        dict(file=_IN, find="    new_rates = RecursiveDict()\n    for element, charge_states in rates.items():\n        for charge, transitions in charge_states.items():\n            for transition, rate in transitions.items():\n                data = np.empty((len(rate['ne']), len(rate['te']), 2))",
             replace="    new_rates = RecursiveDict()\n    data = None\n    for element, charge_states in rates.items():\n        for charge, transitions in charge_states.items():\n            for transition, rate in transitions.items():\n                if data is None or data.shape != (len(rate['ne']), len(rate['te']), 2):\n                    data = np.empty((len(rate['ne']), len(rate['te']), 2))")],
         expect='C08-R6'),
    dict(name='parser-key-renamed', file=_A15, find="return {'ne': density, 'te': temperature, 'rate': rates}", replace="return {'ne': density, 'te': temperature, 'rates': rates}", expect='C08-R'),
    dict(name='conversion-dropped', file=_A12, find="'ni': PerCm3ToPerM3.to(np.array(rate['DENSI'], np.float64)),", replace="'ni': np.array(rate['DENSI'], np.float64),", expect='C08-R2'),
    dict(name='conversion-doubled', file=_IN, find='rate_cherab[i][j + charge_correction]["te"] = 10**rate_adas[i][j]["te"]', replace='rate_cherab[i][j + charge_correction]["te"] = 10**(10**rate_adas[i][j]["te"])', expect='C08-R2'),
    dict(name='plt-charge-offset-removed', file=_IN, find='if filetype in ["scd", "plt", "pls"]:', replace='if filetype in ["scd", "pls"]:', expect='C08-R2'),
    dict(name='adf12-counts-unpacked-in-other-order', file=_A12, find="nbeam, nti, ndi, nze, nb = readvalues(file, 5, 6, type=int)", replace="nbeam, nti, ndi, nb, nze = readvalues(file, 5, 6, type=int)", expect='C08-R5'),
    dict(name='converter-mutates-parser-output', file=_IN, find='            rate_cherab[i][j + charge_correction]["te"] = 10**rate_adas[i][j]["te"]', replace='            rate_adas[i][j]["te"] += 0.0\n            rate_cherab[i][j + charge_correction]["te"] = 10**rate_adas[i][j]["te"]', expect='C08-R2'),
    dict(name='swapaxes-removed', file=_A11, find="np.swapaxes(rates_table, 0, 1)", replace="rates_table", expect='C08-R5'),
    dict(name='type-map-entry-changed', file=_A15, find="        elif rate_type_adas == 'RECOM':\n            rate_type = 'recombination'", replace="        elif rate_type_adas == 'RECOM':\n            rate_type = 'excitation'", occurrence=1, of=3, expect='C08-R3'),
    dict(name='header-check-removed', file=_A11, find="        if element.atomic_number != z_nuclear or element.name != element_name:", replace="        if False:", expect='C08-R4'),
    dict(name='bmp-normalised-like-bme', file=_A22, find="parse_adas2x_rate(file, normalisation=1)", replace="parse_adas2x_rate(file, normalisation=Cm3ToM3.conversion_factor)", expect='C08-R2'),
    dict(name='route-wrong-filetype', file=_IN, find='rate_cherab = _notation_adf11_adas2cherab(rate_adas, "prb")', replace='rate_cherab = _notation_adf11_adas2cherab(rate_adas, "plt")', expect='C08-R2'),
    dict(name='adf12-nesting-order', file=_A12, find="rates[donor_ion][receiver_ion][receiver_charge][transition][donor_metastable] = {", replace="rates[donor_ion][receiver_ion][receiver_charge][donor_metastable][transition] = {", expect=None),
    dict(name='adf21-nesting-short', file=PD + 'adf21.py', find="rate[beam_species][target_ion][target_charge] = parse_adas2x_rate(", replace="rate[beam_species][target_ion] = parse_adas2x_rate(", expect='C08-R1'),
    dict(name='wavelength-not-converted', file=_A15, find="        wavelength = float(match.groups()[1]) / 10  # convert Angstroms to nm", replace="        wavelength = float(match.groups()[1])", occurrence=2, of=3, expect='C08-R3'),
    dict(name='regex-group-out-of-range', file=_A15, find="        rate_type_adas = match.groups()[4]", replace="        rate_type_adas = match.groups()[5]", occurrence=0, of=3, expect='C08-R3'),
    dict(name='thermalcx-charge-not-incremented', file=_IN, find="new_rates[hydrogen][0][element][charge + 1][transition] = new_rate", replace="new_rates[hydrogen][0][element][charge][transition] = new_rate", expect='C08-R1'),
    dict(name='adf15-reshape-transposed', file=_A15, find="rates = rates.reshape((num_n, num_t))", replace="rates = rates.reshape((num_t, num_n))", expect='C08-R5'),
    dict(name='absent-block-returns-none', file=_A15, find="    raise RuntimeError('Block number {} was not found in the ADF15 file.'.format(block_num))", replace="    return None", expect='C08-R4'),
]
MUTANTS = [m for m in MUTANTS if m.get('expect')]
TWINS = [
    dict(name='thermalcx-table-repeated-then-reshaped', file='cherab/openadas/install.py',
         find="                data = np.empty((len(rate['ne']), len(rate['te']), 2))\n                data[:, :, :] = rate['rate'][:, :, None]\n",
         replace="                data = np.repeat(rate['rate'], 2).reshape((len(rate['ne']), len(rate['te']), 2))\n"),
    dict(name='thermalcx-table-stacked', file='cherab/openadas/install.py',
         find="                data = np.empty((len(rate['ne']), len(rate['te']), 2))\n                data[:, :, :] = rate['rate'][:, :, None]\n",
         replace="                data = np.stack([rate['rate'], rate['rate']], axis=-1)\n"),
    dict(name='adf11-z1-capture-group', file='cherab/openadas/parse/adf11.py',
         find='                z1_pos = re.search(r"Z1\\s*=*\\s*[0-9]+\\s*", lines[i]).group()  # get Z1 part\n                ion_charge = int(re.sub(r"Z1[\\s*=]", "", z1_pos))',
         replace='                ion_charge = int(re.search(r"Z1\\s*=*\\s*(\\d{1,3})", lines[i]).group(1))'),
    dict(name='conversion-in-the-exponent', file=_IN, find='rate_cherab[i][j + charge_correction]["ne"] = PerCm3ToPerM3.to(10**rate_adas[i][j]["ne"])', replace='rate_cherab[i][j + charge_correction]["ne"] = 10**(rate_adas[i][j]["ne"] + 6)'),
    dict(name='conversion-written-as-product', file=_IN, find='rate_cherab[i][j + charge_correction]["ne"] = PerCm3ToPerM3.to(10**rate_adas[i][j]["ne"])', replace='rate_cherab[i][j + charge_correction]["ne"] = 10**rate_adas[i][j]["ne"] * PerCm3ToPerM3.conversion_factor'),
    dict(name='message-text', file=_A15, find="Unable to parse ADF15 metadata.", replace="Could not parse the ADF15 metadata."),
]
