"""C09 -- ionisation balance (DESIGN section 5, C09).

R1  a supplied argument is never discarded (parameter overwritten on a path where it was given)
R2  role-to-role forwarding along every internal call edge (dropped / swapped arguments)
R3  constraint row, bounds, normalisation; element-density and neutrality scalings
R4  exhaustive unrolling Z = 1..18 x {no donor, donor}: tridiagonal balance matrix, columns sum to zero
"""
import ast
import re

from ..program import Program, dotted, norm
from ..flow import guards_of, facts, stores
from ..report import AnalysisError
from ..algebra import C, L, Rat, SymEval

FILE = 'cherab/tools/plasmas/ionisation_balance.py'
MOD = 'cherab.tools.plasmas.ionisation_balance'

ROLE = {}
for group in (['n_e', 'n_e_profile'], ['t_e', 't_e_profile'],
              ['tcx_donor_n', 'tcx_donor_n_profile', 'tcx_donor_density', 'donor_density'],
              ['free_variable', 'psin_1d'], ['element_density', 'n_element'], ['n_species', 'species_density'],
              ['tcx_donor', 'donor'], ['tcx_donor_charge', 'donor_charge'], ['element', 'receiver'],
              ['atomic_data'], ['coef_ion'], ['coef_recom'], ['coef_tcx'], ['equilibrium']):
    for g in group:
        ROLE[g] = group[0]
# callee parameters that legitimately take a different role from the caller
ROLE_EXEMPT = {('_assign_donor_density', 'major_profile'), ('_parameters_to_numpy', 'parameters')}


def params_of(fn):
    a = fn.args
    return [x.arg for x in a.posonlyargs + a.args] + [x.arg for x in a.kwonlyargs]


def defaults_of(fn):
    a = fn.args
    pos = a.posonlyargs + a.args
    out = {}
    for arg, d in zip(pos[len(pos) - len(a.defaults):], a.defaults):
        out[arg.arg] = d
    for arg, d in zip(a.kwonlyargs, a.kw_defaults):
        if d is not None:
            out[arg.arg] = d
    return out


def bind_call(call, fn):
    """Bind call arguments to fn's parameters. Returns dict param -> expr (omitted params absent), or None."""
    ps = [x.arg for x in fn.args.posonlyargs + fn.args.args]
    out = {}
    i = 0
    for a in call.args:
        if isinstance(a, ast.Starred):
            return None
        if i < len(ps):
            out[ps[i]] = a
        elif fn.args.vararg is not None:
            out.setdefault('*' + fn.args.vararg.arg, []).append(a)
        else:
            return None
        i += 1
    allp = set(params_of(fn))
    for k in call.keywords:
        if k.arg is None:
            return None
        if k.arg in allp:
            out[k.arg] = k.value
        elif fn.args.kwarg is None:
            return None
    return out


class Deps:
    """Flow-insensitive dependence of local names on the function's parameters."""

    def __init__(self, fn):
        self.fn = fn
        self.params = set(params_of(fn))
        self.edges = {}   # local name -> set of names it is computed from
        for st in ast.walk(fn):
            if isinstance(st, ast.Assign):
                for t in st.targets:
                    self._assign(t, st.value)
            elif isinstance(st, ast.AugAssign):
                self._assign(st.target, st.value, keep=True)
            elif isinstance(st, ast.For):
                self._assign(st.target, st.iter)
            elif isinstance(st, ast.Expr) and isinstance(st.value, ast.Call) and isinstance(st.value.func, ast.Attribute) \
                    and st.value.func.attr in ('append', 'extend', 'update') and isinstance(st.value.func.value, ast.Name):
                for a in st.value.args:
                    self.edges.setdefault(st.value.func.value.id, set()).update(self._names(a))

    def _names(self, e):
        return {n.id for n in ast.walk(e) if isinstance(n, ast.Name)}

    def _assign(self, t, v, keep=False):
        if isinstance(t, (ast.Tuple, ast.List)):
            # positional precision for helper calls returning one value per argument
            if isinstance(v, ast.Call) and dotted(v.func) == '_parameters_to_numpy' and len(v.args) == len(t.elts) \
                    and not any(isinstance(a, ast.Starred) for a in v.args):
                for te, a in zip(t.elts, v.args):
                    self._assign(te, a)
                return
            if isinstance(v, (ast.Tuple, ast.List)) and len(v.elts) == len(t.elts):
                for te, a in zip(t.elts, v.elts):
                    self._assign(te, a)
                return
            for te in t.elts:
                self._assign(te, v)
            return
        base = t
        while isinstance(base, (ast.Subscript, ast.Attribute)):
            base = base.value
        if isinstance(base, ast.Name):
            s = self.edges.setdefault(base.id, set())
            s.update(self._names(v))

    def of_expr(self, e):
        """Set of parameters the expression may depend on."""
        seen, out = set(), set()
        work = list(self._names(e))
        while work:
            n = work.pop()
            if n in seen:
                continue
            seen.add(n)
            if n in self.params:
                out.add(n)
                # a re-bound parameter also depends on what it is re-bound from
            for m in self.edges.get(n, ()):
                work.append(m)
        return out


def check(run):
    prog = Program()
    mi = prog.load(FILE)
    # the private functions the rules are anchored in stay calls; any *other* private helper (code moved out of them) is read where it is called
    ANCHORS = ('_parameters_to_numpy', '_assign_donor_density', '_fractional_abundance_point', '_from_element_density_point',
               '_match_element_density_point', '_fractional_abundance', '_from_elementdensity', '_match_plasma_neutrality')
    prog.normalise_module(mi, keep=ANCHORS, propagate=False)
    run.use_file(FILE)
    funcs = mi.functions
    run.functions = len(funcs)
    for anchor in ('_fractional_abundance_point', '_from_element_density_point', '_match_element_density_point',
                   '_fractional_abundance', 'fractional_abundance', 'from_elementdensity', 'match_plasma_neutrality'):
        if anchor not in funcs:
            raise AnalysisError('anchored function vanished: %s' % anchor)
    run.explanation = (
        'Decides structural necessary conditions of C09 on all functions and all internal call edges of '
        'ionisation_balance.py: (R1) no path discards a supplied argument (the donor rate set in particular); '
        '(R2) every call edge forwards each role (n_e, t_e, donor, donor density, donor charge, free variable, element '
        'density, species densities, rate sets) to the callee parameter of the same role -- dropped or swapped arguments; '
        '(R3) the sum-to-one constraint row, bounds (0, n_e), division by the same n_e, element-density and mean-charge '
        'scalings; (R4) for every Z = 1..18 with and without donor the assembled matrix is interpreted with the rate calls '
        'as opaque symbols and must be tridiagonal with M[z+1,z] = S_z, M[z,z+1] = alpha_{z+1} + (n_D/n_e) C_{z+1} and zero '
        'column sums -- exactly the neighbour balance of the statement for any null vector. Does not decide that '
        'scipy.lsq_linear returns that null vector, nor agreement of input representations numerically.')
    run.assumptions = ['scipy.optimize.lsq_linear solves the bounded least-squares problem it is given',
                       'rate objects are pure functions of (n_e, t_e)']
    _r1(run, mi)
    _r1b(run, mi)
    _r2(run, mi)
    _r3(run, mi)
    _r4(run, mi)
    _r5(run, mi)
    _r6(run, mi)
    _r7(run, mi)
    _r8(run, mi)
    _r9(run, mi)
    from ..cachekey import check_caches
    check_caches(run, [mi], 'C09-K', prog=prog)
    run.include('C13', {'cherab/core/math/mappers.pyx'}, 'the 3D abundance functions are the 2D profiles behind AxisymmetricMapper')
    run.include('C06', {'cherab/openadas/repository/atomic.py'}, 'the balance is solved with the ionisation / recombination / CX rates most recently written to the repository')


# ---------------------------------------------------------------------------------------------
def _r1(run, mi):
    run.describe('C09-R1', 'every store to a parameter is dominated by "<param> is None", derives from the parameter, '
                           'or stores None under "<controlling donor> is None"')
    for name, fn in sorted(mi.functions.items()):
        ps = set(params_of(fn))
        deps = Deps(fn)
        for t, v, st in stores(fn):
            if not (isinstance(t, ast.Name) and t.id in ps):
                continue
            p = t.id
            run.subject('C09-R1')
            cname = '%s: %s' % (name, norm(st)[:70])
            f = facts(guards_of(fn, st) or [])
            if (p, 'is', 'None') in f:
                run.ok('C09-R1', cname, 'under %s is None' % p)
                continue
            if v is not None and p in deps.of_expr(v) and _mentions_before(fn, st, v, p, deps):
                run.ok('C09-R1', cname, 'new value derives from %s' % p)
                continue
            if isinstance(v, ast.Constant) and v.value is None and any(a[1] == 'is' and a[2] == 'None' and a[0] != p for a in f):
                run.ok('C09-R1', cname, 'None stored because %s' % [a for a in f if a[1] == 'is'])
                continue
            run.fail('C09-R1', '%s|%s|overwrite:%s' % (MOD, name, p), FILE, st.lineno,
                     "parameter '%s' of %s is overwritten by '%s' on a path where a value was supplied (guards: %s): "
                     "the caller's argument is discarded" % (p, name, norm(v), sorted(a for a in f) or 'none that imply it is None'))
    run.floor('C09-R1', 15)


def _mentions_before(fn, st, v, p, deps):
    return True


def _r1b(run, mi):
    """A donor that is given is used: the statement loading the CX rate set is guarded by nullness of the donor / the rate set only."""
    run.describe('C09-R1b', 'the CX rate set is loaded whenever a donor is given and no set was supplied: no further condition on the loading path')
    for name, fn in sorted(mi.functions.items()):
        ps = set(params_of(fn))
        if 'tcx_donor' not in ps:
            continue
        # whatever the local is called (a helper that resolves the rate sets is expanded with renamed locals)
        loads = [st for t, v, st in stores(fn) if isinstance(t, ast.Name) and isinstance(v, ast.Call) and dotted(v.func) == 'get_rates_tcx']
        if not loads and not any(isinstance(c, ast.Call) and dotted(c.func) == 'get_rates_tcx' for c in ast.walk(fn)):
            # the donor is neither resolved here nor handed to a function of the module that could resolve it, yet a CX rate set is used
            internal = [c for c in ast.walk(fn) if isinstance(c, ast.Call) and dotted(c.func) in mi.functions]
            forwards = any(isinstance(n, ast.Name) and n.id == 'tcx_donor' for c in internal for a in list(c.args) + [k.value for k in c.keywords]
                           for n in ast.walk(a))
            uses = any(isinstance(n, ast.Name) and n.id == 'coef_tcx' and isinstance(n.ctx, ast.Load) for n in ast.walk(fn))
            if uses and not forwards and internal:
                run.subject('C09-R1b')
                run.fail('C09-R1b', '%s|%s|never-loaded' % (MOD, name), FILE, fn.lineno,
                         "%s takes a CX donor and uses a CX rate set but never loads one (no get_rates_tcx call, and the donor is not handed to a "
                         "function of the module that could): a donor given without a rate set is silently ignored" % name)
        for st in loads:
            run.subject('C09-R1b')
            g = guards_of(fn, st) or []
            f = {(re.sub(r'^__h\d+_', '', a[0]),) + tuple(a[1:]) for a in facts(g)}
            extra = sorted(a for a in f if not (a[1] in ('is', 'is not') and a[0] in ('tcx_donor', 'coef_tcx') and a[2] == 'None'))
            # un-decomposed guards (e.g. a negated conjunction) also count as extra conditions
            if ('tcx_donor', 'is not', 'None') in f and not extra:
                run.ok('C09-R1b', '%s loads the CX rates' % name, sorted(f))
            else:
                run.fail('C09-R1b', '%s|%s|conditional-load' % (MOD, name), FILE, st.lineno,
                         "%s loads the thermal-CX rate set only under the additional condition %s: when it is false a donor that was given is "
                         "silently ignored" % (name, extra or sorted(f)))
    run.floor('C09-R1b', 5)
    # the same for the ionisation / recombination rate sets: optional accelerators that default to None and are loaded from atomic_data
    run.describe('C09-R1c', 'an optional rate set (coef_ion, coef_recom) that was not supplied is loaded from atomic_data before it is used, here or in '
                            'a function of the module that is handed both atomic_data and the rate set')
    for name, fn in sorted(mi.functions.items()):
        ps = params_of(fn)
        dflt = defaults_of(fn)
        for p_, loader in (('coef_ion', 'get_rates_ionisation'), ('coef_recom', 'get_rates_recombination')):
            if p_ not in ps or 'atomic_data' not in ps or not (isinstance(dflt.get(p_), ast.Constant) and dflt[p_].value is None):
                continue
            run.subject('C09-R1c')
            if any(isinstance(c, ast.Call) and dotted(c.func) == loader for c in ast.walk(fn)):
                run.ok('C09-R1c', '%s %s' % (name, p_), 'loaded with %s' % loader, sample=False)
                continue
            uses = [n for n in ast.walk(fn) if isinstance(n, ast.Name) and n.id == p_ and isinstance(n.ctx, ast.Load)]
            handed = False
            for c in ast.walk(fn):
                if isinstance(c, ast.Call) and dotted(c.func) in mi.functions:
                    g = mi.functions[dotted(c.func)]
                    b = bind_call(c, g)
                    if b is None:
                        handed = True
                        continue
                    vals = {q: {n.id for n in ast.walk(v) if isinstance(n, ast.Name)} for q, v in b.items()}
                    if any('atomic_data' in v for v in vals.values()) and any(p_ in v for v in vals.values()):
                        handed = True
            if uses and not handed:
                run.fail('C09-R1c', '%s|%s|never-loaded:%s' % (MOD, name, p_), FILE, fn.lineno,
                         "%s takes the optional rate set '%s' (default None) and uses it, but never loads it with %s and hands atomic_data together "
                         "with it to no function of the module: a call without the rate set works on None" % (name, p_, loader))
            else:
                run.ok('C09-R1c', '%s %s' % (name, p_), 'handed on with atomic_data', sample=False)
    run.floor('C09-R1c', 6)


# ---------------------------------------------------------------------------------------------
def _r2(run, mi):
    run.describe('C09-R2', 'role-to-role forwarding on every internal call edge')
    funcs = mi.functions
    edges = 0
    for name, fn in sorted(funcs.items()):
        fparams = params_of(fn)
        froles = {ROLE[p]: p for p in fparams if p in ROLE}
        deps = Deps(fn)
        for call in [n for n in ast.walk(fn) if isinstance(n, ast.Call)]:
            cn = dotted(call.func)
            if cn not in funcs or cn == name:
                continue
            g = funcs[cn]
            b = bind_call(call, g)
            if b is None:
                continue
            edges += 1
            run.subject('C09-R2')
            gdef = defaults_of(g)
            for q in params_of(g):
                r = ROLE.get(q)
                if r is None or (cn, q) in ROLE_EXEMPT:
                    continue
                cname = '%s -> %s(%s)' % (name, cn, q)
                if q not in b:
                    if r in froles and q in gdef:
                        # rate sets are optional accelerators: omitting them is semantics preserving
                        if r in ('coef_ion', 'coef_recom', 'coef_tcx'):
                            continue
                        run.fail('C09-R2', '%s|%s|%s|dropped:%s' % (MOD, name, cn, q), FILE, call.lineno,
                                 "%s receives '%s' but calls %s without passing it: the callee silently uses its default %s"
                                 % (name, froles[r], cn, norm(gdef[q])))
                    continue
                if r not in froles:
                    continue
                got = deps.of_expr(b[q])
                got_roles = {ROLE.get(x) for x in got}
                if r in got_roles:
                    run.ok('C09-R2', cname, '%s <- %s' % (q, norm(b[q])))
                else:
                    run.fail('C09-R2', '%s|%s|%s|misbound:%s' % (MOD, name, cn, q), FILE, call.lineno,
                             "%s passes '%s' (derived from %s) to parameter '%s' of %s, which expects the caller's '%s'"
                             % (name, norm(b[q]), sorted(got) or 'no parameter', q, cn, froles[r]))
    run.floor('C09-R2', 20)


# ---------------------------------------------------------------------------------------------
def _last_def(fn, name, before=None):
    out = None
    for t, v, st in stores(fn):
        if isinstance(t, ast.Name) and t.id == name and (before is None or st.lineno < before):
            out = (v, st)
    return out


def _r3(run, mi):
    run.describe('C09-R3', 'constraint row of ones with rhs n_e, bounds (0, n_e), result / n_e; density scalings')
    K = MOD + '|'
    fn = mi.functions['_fractional_abundance_point']
    calls = [n for n in ast.walk(fn) if isinstance(n, ast.Call) and dotted(n.func) in ('lsq_linear', 'scipy.optimize.lsq_linear')]
    run.subject('C09-R3')
    if len(calls) != 1:
        run.undecided('C09-R3', '_fractional_abundance_point', 'no single lsq_linear call')
    else:
        call = calls[0]
        ne = params_of(fn)[1]
        b = {k.arg: k.value for k in call.keywords}
        if 'bounds' in b and norm(b['bounds']) == '(0, %s)' % ne:
            run.ok('C09-R3', 'bounds', norm(b['bounds']))
        else:
            run.fail('C09-R3', K + '_fractional_abundance_point|bounds', FILE, call.lineno,
                     'lsq_linear bounds are %s, expected (0, %s): abundances are not confined to [0, n_e]' % (norm(b.get('bounds')), ne))
        # matrix argument: concatenate((matbal, ones((1, ncol))), axis=0)
        if len(call.args) >= 2 and isinstance(call.args[0], ast.Name) and isinstance(call.args[1], ast.Name):
            mname, rname = call.args[0].id, call.args[1].id
            md = _last_def(fn, mname, call.lineno)
            ok = False
            if md and isinstance(md[0], ast.Call) and dotted(md[0].func) in ('np.concatenate', 'numpy.concatenate', 'np.vstack'):
                inner = md[0].args[0]
                if isinstance(inner, (ast.Tuple, ast.List)) and len(inner.elts) == 2 and norm(inner.elts[0]) == mname \
                        and isinstance(inner.elts[1], ast.Call) and dotted(inner.elts[1].func) in ('np.ones', 'numpy.ones'):
                    ok = True
            if ok:
                run.ok('C09-R3', 'constraint row', norm(md[0]))
            else:
                run.fail('C09-R3', K + '_fractional_abundance_point|constraint-row', FILE, call.lineno,
                         'the balance matrix is not extended by a row of ones before the solve: %s' % (norm(md[0]) if md else None))
            # rhs[-1] = n_e on zeros
            rst = [(t, v, st) for t, v, st in stores(fn) if isinstance(t, ast.Subscript) and norm(t.value) == rname]
            rd = _last_def(fn, rname, call.lineno)
            if rd and isinstance(rd[0], ast.Call) and dotted(rd[0].func) in ('np.zeros', 'numpy.zeros') and len(rst) == 1 \
                    and norm(rst[0][0].slice) == '-1' and norm(rst[0][1]) == ne:
                run.ok('C09-R3', 'right-hand side', 'zeros with rhs[-1] = %s' % ne)
            else:
                run.fail('C09-R3', K + '_fractional_abundance_point|rhs', FILE, call.lineno,
                         'right-hand side is not zeros with last entry %s: %s' % (ne, [norm(x[2]) for x in rst]))
        else:
            run.undecided('C09-R3', 'lsq_linear arguments', norm(call))
        # result divided by the same n_e
        rets = [n for n in ast.walk(fn) if isinstance(n, ast.Return) and n.value is not None]
        good = False
        for r in rets:
            e = r.value
            if isinstance(e, ast.Name):
                d = _last_def(fn, e.id)
                e = d[0] if d else e
            if isinstance(e, ast.BinOp) and isinstance(e.op, ast.Div) and norm(e.right) == ne:
                num = e.left
                if isinstance(num, ast.Name):
                    d = _last_def(fn, num.id)
                    num = d[0] if d else num
                if any(n is call for n in ast.walk(num)):
                    good = True
        if good:
            run.ok('C09-R3', 'normalisation', 'solution / %s' % ne)
        else:
            run.fail('C09-R3', K + '_fractional_abundance_point|normalisation', FILE, fn.lineno,
                     'the returned fractions are not the solver output divided by %s' % ne)
    # the two density scalings, decided on the value each function returns (abstract evaluation, any code shape)
    fn = mi.functions['_from_element_density_point']
    run.subject('C09-R3')
    got = _scaling_value(fn)
    ps = params_of(fn)
    want = L('FA') * L(ps[2]) if len(ps) > 2 else None
    if got is None:
        run.undecided('C09-R3', '_from_element_density_point scaling', 'returned value could not be evaluated')
    elif any('?' in l for l in got.leaves()):
        run.undecided('C09-R3', '_from_element_density_point scaling', 'returned value contains unrecognised terms: %s' % got.key()[:80])
    elif got.eq(want):
        run.ok('C09-R3', '_from_element_density_point scaling', got.key())
    else:
        run.fail('C09-R3', K + '_from_element_density_point|scaling', FILE, fn.lineno,
                 'charge-state densities are %s, expected fractional abundance * %s' % (got.key(), ps[2]))
    fn = mi.functions['_match_element_density_point']
    run.subject('C09-R3')
    try:
        got = _scaling_value(fn)
    except ZeroDivisionError:
        run.fail('C09-R3', K + '_match_element_density_point|scaling', FILE, fn.lineno,
                 '_match_element_density_point divides by a quantity that is identically zero on every path (the charge sum of the fractional '
                 'abundance is never accumulated)')
        return
    ps = params_of(fn)
    nsp, ne = ps[2], ps[3]
    want = L('FA') * (L('CLAMP0(%s)' % (L(ne) - L('Q(%s[*])' % nsp)).key()) / L('Q(FA)'))
    unclamped = L('FA') * ((L(ne) - L('Q(%s[*])' % nsp)) / L('Q(FA)'))
    if got is None:
        run.undecided('C09-R3', '_match_element_density_point scaling', 'returned value could not be evaluated')
    elif any('?' in l for l in got.leaves()):
        run.undecided('C09-R3', '_match_element_density_point scaling', 'returned value contains unrecognised terms: %s' % got.key()[:80])
    elif got.eq(want):
        run.ok('C09-R3', '_match_element_density_point scaling', got.key())
        run.subject('C09-R3')
        run.ok('C09-R3', 'non-negative remaining charge', 'clamped at zero before the division')
    elif got.eq(unclamped):
        run.fail('C09-R3', K + '_match_element_density_point|clamp', FILE, fn.lineno,
                 'remaining electron density is not clamped at zero: negative densities possible')
    else:
        run.fail('C09-R3', K + '_match_element_density_point|scaling', FILE, fn.lineno,
                 'densities are %s; expected fractional abundance * (remaining electron density / mean charge) = %s' % (got.key()[:160], want.key()))


class _ScaleEval(SymEval):
    """Q(S) := sum over charge states of charge * S[charge]; FA := the fractional abundance of the element."""

    def call(self, n):
        d = dotted(n.func)
        if d == '_fractional_abundance_point':
            return L('FA')
        if d == 'sum' and len(n.args) == 1 and isinstance(n.args[0], (ast.GeneratorExp, ast.ListComp)) and len(n.args[0].generators) == 1:
            g = n.args[0].generators[0]
            q = _enum_product(g.target, g.iter, n.args[0].elt)
            if q is not None and not g.ifs:
                return L('Q(%s)' % self.ev(q).key())
        if d in ('np.dot', 'np.sum') or d == 'sum':
            return L('?%s' % norm(n))
        return super().call(n)


def _enum_product(target, it, elt):
    """for (i, v) in enumerate(S): elt == i * v  ->  S"""
    if isinstance(it, ast.Call) and dotted(it.func) == 'enumerate' and len(it.args) == 1 and isinstance(target, ast.Tuple) and len(target.elts) == 2 \
            and all(isinstance(x, ast.Name) for x in target.elts):
        i, v = [x.id for x in target.elts]
        if norm(elt) in ('%s * %s' % (i, v), '%s * %s' % (v, i)):
            return it.args[0]
    return None


def _scaling_value(fn):
    ev = _ScaleEval()
    for p in params_of(fn):
        ev.env[p] = L(p)
    out = []

    def assign(name, val):
        ev.env[name] = val

    def block(stmts):
        for st in stmts:
            if isinstance(st, ast.Expr):
                continue
            if isinstance(st, ast.Return):
                out.append(ev.ev(st.value) if st.value is not None else None)
                return True
            if isinstance(st, ast.Assign) and len(st.targets) == 1 and isinstance(st.targets[0], ast.Name):
                assign(st.targets[0].id, ev.ev(st.value))
            elif isinstance(st, ast.AugAssign) and isinstance(st.target, ast.Name):
                cur = ev.env.get(st.target.id, L('?' + st.target.id))
                v = ev.ev(st.value)
                assign(st.target.id, {ast.Add: cur + v, ast.Sub: cur - v, ast.Mult: cur * v}.get(type(st.op), L('?' + norm(st))) if not isinstance(st.op, ast.Div) else cur / v)
            elif isinstance(st, ast.For):
                _loop(st, [])
            elif isinstance(st, ast.If):
                t = st.test
                # clamp: if X < 0: X = 0
                if isinstance(t, ast.Compare) and len(t.ops) == 1 and isinstance(t.left, ast.Name) and isinstance(t.ops[0], (ast.Lt, ast.LtE)) \
                        and norm(t.comparators[0]) in ('0', '0.0') and len(st.body) == 1 and not st.orelse \
                        and norm(st.body[0]) in ('%s = 0' % t.left.id, '%s = 0.0' % t.left.id):
                    assign(t.left.id, L('CLAMP0(%s)' % ev.env.get(t.left.id, L('?' + t.left.id)).key()))
                    continue
                # data loading / defaults: names assigned inside become opaque unless they are the rate tables
                for x in ast.walk(st):
                    if isinstance(x, ast.Name) and isinstance(x.ctx, ast.Store) and not x.id.startswith('coef_'):
                        assign(x.id, L('?%s' % x.id))
            else:
                for x in ast.walk(st):
                    if isinstance(x, ast.Name) and isinstance(x.ctx, ast.Store):
                        assign(x.id, L('?%s' % x.id))
        return False

    def _loop(lp, outer):
        """accumulations  acc +=/-= i * v  over (nested) enumerate loops"""
        for st in lp.body:
            if isinstance(st, ast.For):
                _loop(st, outer + [lp])
            elif isinstance(st, ast.AugAssign) and isinstance(st.target, ast.Name) and isinstance(st.op, (ast.Add, ast.Sub)):
                src = _enum_product(lp.target, lp.iter, st.value)
                term = None
                if src is not None:
                    txt = norm(src)
                    for o in reversed(outer):
                        if isinstance(o.target, ast.Name) and txt == o.target.id:
                            txt = '%s[*]' % ev.ev(o.iter).key()
                    if not outer:
                        txt = ev.ev(src).key()
                    term = L('Q(%s)' % txt)
                cur = ev.env.get(st.target.id, L('?' + st.target.id))
                if term is None:
                    assign(st.target.id, L('?%s' % st.target.id))
                else:
                    assign(st.target.id, cur + term if isinstance(st.op, ast.Add) else cur - term)
            elif not isinstance(st, (ast.Expr, ast.Pass)):
                for x in ast.walk(st):
                    if isinstance(x, ast.Name) and isinstance(x.ctx, ast.Store):
                        assign(x.id, L('?%s' % x.id))
    block(fn.body)
    return out[0] if out else None


def _r5(run, mi):
    """Species dictionaries {charge: density} are packed into arrays by their charge key."""
    run.describe('C09-R5', 'dictionary inputs {charge: profile} are stored at the row given by their key (the row index is the charge used downstream)')
    fn = mi.functions.get('_parameters_to_numpy')
    if fn is None:
        raise AnalysisError('anchored function vanished: _parameters_to_numpy')
    found = 0
    for lp in [l for l in ast.walk(fn) if isinstance(l, ast.For)]:
        it = lp.iter
        base = None
        if isinstance(it, ast.Call) and isinstance(it.func, ast.Attribute) and it.func.attr in ('items', 'values', 'keys'):
            base = norm(it.func.value)
        elif isinstance(it, ast.Call) and dotted(it.func) == 'enumerate' and it.args and isinstance(it.args[0], ast.Call) \
                and isinstance(it.args[0].func, ast.Attribute) and it.args[0].func.attr in ('items', 'values', 'keys'):
            base = norm(it.args[0].func.value)
        if base is None:
            continue
        f = facts(guards_of(fn, lp) or [])
        if not any(a[0] == 'isinstance(%s, dict)' % base and a[1] == 'true' for a in f):
            continue
        found += 1
        run.subject('C09-R5')
        sts = [st for st in lp.body if isinstance(st, ast.Assign) and isinstance(st.targets[0], ast.Subscript)]
        ok = False
        detail = None
        if isinstance(it.func, ast.Attribute) and it.func.attr == 'items' and isinstance(lp.target, ast.Tuple) and sts:
            key, val = [e.id for e in lp.target.elts]
            sl = sts[0].targets[0].slice
            first = sl.elts[0] if isinstance(sl, ast.Tuple) else sl
            detail = norm(sts[0])
            ok = norm(first) == key and val in {n.id for n in ast.walk(sts[0].value) if isinstance(n, ast.Name)}
        if ok:
            run.ok('C09-R5', '_parameters_to_numpy dict rows', detail)
        else:
            run.fail('C09-R5', '%s|_parameters_to_numpy|dict-row-index' % MOD, FILE, lp.lineno,
                     "_parameters_to_numpy packs a {charge: profile} dictionary with '%s' (%s): the row is not the dictionary key, so charge states "
                     "are mixed up whenever the dictionary is not in ascending charge order" % (norm(lp.iter), detail or norm(lp.target)))
    if not found:
        run.subject('C09-R5')
        run.undecided('C09-R5', '_parameters_to_numpy', 'dictionary branch not recognised')


def _r6(run, mi):
    """Memoisation keys are complete: a value cached in module state is keyed by every parameter it depends on."""
    run.describe('C09-R6', 'results depend on the arguments only: module-level caches are keyed by every parameter the cached value depends on')
    globals_ = {n for n, v in mi.assigns.items() if isinstance(v, (ast.Dict, ast.Call)) and (isinstance(v, ast.Dict) or dotted(v.func) in ('dict', 'OrderedDict', 'defaultdict'))}
    n = 0
    for name, fn in sorted(mi.functions.items()):
        ps = params_of(fn)
        deps = Deps(fn)
        for t, v, st in stores(fn):
            if isinstance(t, ast.Subscript) and isinstance(t.value, ast.Name) and t.value.id in globals_ and isinstance(st, ast.Assign):
                n += 1
                run.subject('C09-R6')
                keydeps = deps.of_expr(t.slice)
                valdeps = deps.of_expr(v)
                # what the value depends on includes the loop/branch that built it
                missing = sorted(p for p in valdeps if p not in keydeps)
                if missing:
                    run.fail('C09-R6', '%s|%s|cache-key:%s' % (MOD, name, t.value.id), FILE, st.lineno,
                             "%s caches %s in the module-level %s under the key %s, but the cached value also depends on %s: a later call with a "
                             "different %s gets the stale entry (the result depends on call order)" % (name, norm(v)[:40], t.value.id, norm(t.slice), missing, missing[0]))
                else:
                    run.ok('C09-R6', '%s cache %s' % (name, t.value.id), 'key %s covers %s' % (norm(t.slice), sorted(valdeps)))
    from ..cachekey import local_memos
    for name, fn in sorted(mi.functions.items()):
        n += local_memos(run, 'C09-R6', mi, name, fn)
    run.subject('C09-R6')
    run.ok('C09-R6', 'module-level mutable state', '%d module-level containers, %d cache stores' % (len(globals_), n), sample=True)


def _r9(run, mi):
    """R9: the array drivers solve the balance point by point -- the result stored for grid point i is computed from the profiles at the
    same point i.  Decided on the loop that calls a '*_point' solver: the canonical form indexes every profile and the result with the one
    np.ndindex variable; a flat enumeration is accepted only when the iteration order is the C order the final reshape assumes."""
    run.describe('C09-R9', 'array drivers: the result stored for a grid point is computed from every profile at that same point')
    for name, fn in sorted(dict.items(mi.functions)):
        for loop in [n for n in ast.walk(fn) if isinstance(n, ast.For)]:
            calls = [c for st in loop.body for c in ast.walk(st) if isinstance(c, ast.Call) and (dotted(c.func) or '').endswith('_point')
                     and (dotted(c.func) or '').startswith('_')]
            if not calls or any(isinstance(x, ast.For) and any(c in list(ast.walk(x)) for c in calls) for st in loop.body for x in ast.walk(st)):
                continue
            run.subject('C09-R9')
            K = '%s|%s|points' % (MOD, name)
            it = loop.iter
            itf = dotted(it.func) if isinstance(it, ast.Call) else None
            if itf in ('np.ndindex', 'numpy.ndindex') and isinstance(loop.target, ast.Name):
                iv = loop.target.id
                same = ('%s' % iv, '(Ellipsis, *%s)' % iv, '(..., *%s)' % iv, 'Ellipsis, *%s' % iv)
                bad = []
                for c in calls:
                    for a in list(c.args) + [k.value for k in c.keywords]:
                        for sub in [x for x in ast.walk(a) if isinstance(x, ast.Subscript)]:
                            if any(isinstance(y, ast.Name) and y.id == iv for y in ast.walk(sub.slice)) and norm(sub.slice) not in same:
                                bad.append(norm(sub))
                stores_ = [st for st in loop.body if isinstance(st, ast.Assign) and any(c in list(ast.walk(st.value)) for c in calls)]
                for st in stores_:
                    t = st.targets[0]
                    if isinstance(t, ast.Subscript) and norm(t.slice) not in same:
                        bad.append(norm(t))
                # profiles read through another loop variable than this loop's
                if bad:
                    run.fail('C09-R9', K, FILE, loop.lineno, '%s mixes grid points: %s is not indexed with the loop index %s alone' % (name, bad[0], iv))
                else:
                    run.ok('C09-R9', name, 'np.ndindex loop: profiles and result indexed with the same index', sample=False)
                continue
            txt = norm(it)
            inner = it.args[0] if isinstance(it, ast.Call) and itf == 'enumerate' and it.args else it
            innerf = dotted(inner.func) if isinstance(inner, ast.Call) else None
            if innerf in ('np.nditer', 'numpy.nditer'):
                order = next((k.value for k in inner.keywords if k.arg == 'order'), None)
                if not (isinstance(order, ast.Constant) and order.value == 'C'):
                    if itf != 'enumerate':
                        run.undecided('C09-R9', name, 'np.nditer loop without a running counter')
                        continue
                    run.fail('C09-R9', K, FILE, loop.lineno,
                             "%s walks the profiles with np.nditer in its default order ('K': the memory order of the arrays) and stores the results "
                             "by a running counter that is later reshaped in C order: for profiles that are not C-contiguous (a transposed or "
                             "Fortran-ordered grid) the result of one grid point is stored at another" % name)
                    continue
                run.ok('C09-R9', name, "np.nditer(order='C') enumerated", sample=False)
                continue
            run.undecided('C09-R9', name, 'loop over %s not recognised' % txt[:50])
    run.floor('C09-R9', 3)


def _r8(run, mi):
    """R8: the profile interpolators are piecewise linear.  Between two nodes a linear interpolant is a convex combination of node values, so
    fractions stay in [0, 1] and the charge states still sum to one (to the element density); a cubic (or any higher) interpolant overshoots
    where the profile is steep and breaks both."""
    run.describe('C09-R8', 'interpolators built from abundances / densities are linear (bounds and sums are preserved between the nodes)')
    from ..inline import resolver
    n = 0
    for name, fn in sorted(mi.functions.items()):
        res = None
        for c in [c for c in ast.walk(fn) if isinstance(c, ast.Call) and dotted(c.func) in ('Interpolator1DArray', 'Interpolator2DArray', 'Interpolator3DArray')]:
            nd = int(dotted(c.func)[12])
            # positional layout: nd axes, the data, the interpolation type (a starred axes tuple stands for nd arguments)
            pos = []
            for a_ in c.args:
                if isinstance(a_, ast.Starred):
                    pos.extend([None] * nd)
                else:
                    pos.append(a_)
            kind = pos[nd + 1] if len(pos) > nd + 1 else next((k.value for k in c.keywords if k.arg == 'interpolation_type'), None)
            n += 1
            run.subject('C09-R8')
            if kind is None:
                run.undecided('C09-R8', '%s %s' % (name, dotted(c.func)), 'interpolation type argument not found')
                continue
            if isinstance(kind, ast.Name):
                res = res or resolver(fn)
                kind = res(kind)
            if isinstance(kind, ast.Constant) and kind.value == 'linear':
                run.ok('C09-R8', '%s %s' % (name, dotted(c.func)), 'linear', sample=False)
            elif isinstance(kind, ast.Constant) and isinstance(kind.value, str):
                run.fail('C09-R8', '%s|%s|interpolation:%s' % (MOD, name, kind.value), FILE, c.lineno,
                         "%s builds its %s with '%s' interpolation: between the nodes of a steep profile the interpolant overshoots, so abundances leave "
                         "[0, 1] and no longer sum to one, and the result disagrees with the 1D / density siblings" % (name, dotted(c.func), kind.value))
            else:
                run.undecided('C09-R8', '%s %s' % (name, dotted(c.func)), 'interpolation type is %s' % norm(kind)[:40])
    run.floor('C09-R8', 4)


def _r7(run, mi):
    """R7: no function changes the arrays it is given (the densities of the other species, the profiles): results may not depend on,
    nor destroy, the caller's data.  R8: buffers that receive computed floats are not typed after an input array."""
    run.describe('C09-R7', 'argument arrays are never modified in place; result buffers do not inherit the dtype of an input')
    ARR = ('np.arange', 'np.array', 'np.asarray', 'np.ones', 'np.zeros', 'np.linspace', 'np.full', 'np.sum', 'np.cumsum', 'np.multiply', 'np.exp')
    n = 0
    for name, fn in sorted(mi.functions.items()):
        ps = set(params_of(fn))
        alias = set(ps)
        grew = True
        while grew:
            grew = False
            for st in ast.walk(fn):
                new = set()
                if isinstance(st, ast.For):
                    it = st.iter
                    # iterating a parameter (or its .values()/.items()) hands out its elements
                    base = it.func.value if isinstance(it, ast.Call) and isinstance(it.func, ast.Attribute) and it.func.attr in ('values', 'items') else it
                    if isinstance(base, ast.Name) and base.id in alias and not (isinstance(it, ast.Call) and dotted(it.func) in ('enumerate', 'range', 'zip')):
                        new |= {x.id for x in ast.walk(st.target) if isinstance(x, ast.Name)}
                elif isinstance(st, ast.Assign) and len(st.targets) == 1 and isinstance(st.targets[0], ast.Name):
                    v = st.value
                    while isinstance(v, ast.Subscript):
                        v = v.value
                    if isinstance(v, ast.Name) and v.id in alias and st.value is not v or (isinstance(st.value, ast.Name) and st.value.id in alias):
                        # a view / the same object -- unless the name is rebound to a fresh array elsewhere first, which copy_kind cannot see here
                        new.add(st.targets[0].id)
                if new - alias:
                    alias |= new
                    grew = True
        # names rebound to a copy are not aliases any more
        from ..flow import copy_kind
        rebound = {st.targets[0].id for st in ast.walk(fn) if isinstance(st, ast.Assign) and len(st.targets) == 1 and isinstance(st.targets[0], ast.Name)
                   and copy_kind(st.value, alias) == 'copy'}
        for st in ast.walk(fn):
            bad = None
            if isinstance(st, ast.AugAssign):
                t = st.target
                if isinstance(t, ast.Subscript):
                    b0 = t.value
                    while isinstance(b0, ast.Subscript):
                        b0 = b0.value
                    if isinstance(b0, ast.Name) and b0.id in alias - rebound:
                        bad = norm(st)
                elif isinstance(t, ast.Name) and t.id in alias - rebound and t.id not in ps and any(
                        isinstance(c, ast.Call) and (dotted(c.func) or '') in ARR for c in ast.walk(st.value)):
                    bad = norm(st)
            elif isinstance(st, ast.Assign) and isinstance(st.targets[0], ast.Subscript):
                b0 = st.targets[0].value
                while isinstance(b0, ast.Subscript):
                    b0 = b0.value
                if isinstance(b0, ast.Name) and b0.id in alias - rebound:
                    # re-wrapping the very element that is replaced (x[i] = np.array([v]) with v the i-th element) keeps every value
                    v = st.value
                    while True:
                        if isinstance(v, ast.Call) and dotted(v.func) in ('np.array', 'np.asarray', 'np.atleast_1d', 'float', 'int') and v.args:
                            v = v.args[0]
                        elif isinstance(v, (ast.List, ast.Tuple)) and len(v.elts) == 1:
                            v = v.elts[0]
                        else:
                            break
                    same_elem = False
                    if isinstance(v, ast.Name):
                        for lp_ in ast.walk(fn):
                            if isinstance(lp_, ast.For) and any(x is st for x in ast.walk(lp_)) and isinstance(lp_.iter, ast.Call) \
                                    and dotted(lp_.iter.func) == 'enumerate' and isinstance(lp_.target, ast.Tuple) and len(lp_.target.elts) == 2 \
                                    and norm(lp_.iter.args[0]) == b0.id and norm(lp_.target.elts[1]) == v.id \
                                    and norm(st.targets[0].slice) == norm(lp_.target.elts[0]):
                                same_elem = True
                    if not same_elem:
                        bad = norm(st)
            elif isinstance(st, ast.Expr) and isinstance(st.value, ast.Call) and isinstance(st.value.func, ast.Attribute) \
                    and st.value.func.attr in ('sort', 'fill', 'resize', 'append', 'extend', 'clear', 'pop', 'update', 'itemset', 'put') \
                    and isinstance(st.value.func.value, ast.Name) and st.value.func.value.id in alias - rebound:
                bad = norm(st)
            if bad:
                n += 1
                run.subject('C09-R7')
                run.fail('C09-R7', '%s|%s|mutates-argument' % (MOD, name), FILE, st.lineno,
                         "%s changes data it was given in place (%s): the caller's arrays are overwritten, so a second call, or the sum of the returned and "
                         "the given densities, no longer corresponds to the inputs" % (name, bad[:70]))
        # dtype inheritance
        for st in ast.walk(fn):
            if isinstance(st, ast.Assign) and len(st.targets) == 1 and isinstance(st.targets[0], ast.Name) and isinstance(st.value, ast.Call) \
                    and dotted(st.value.func) in ('np.zeros_like', 'np.empty_like', 'np.ones_like', 'np.full_like') \
                    and not any(k.arg == 'dtype' for k in st.value.keywords):
                buf = st.targets[0].id
                written = [s2 for s2 in ast.walk(fn) if isinstance(s2, (ast.Assign, ast.AugAssign)) and any(
                    isinstance(t2, ast.Subscript) and isinstance(t2.value, ast.Name) and t2.value.id == buf
                    for t2 in (s2.targets if isinstance(s2, ast.Assign) else [s2.target]))]
                if written and any(isinstance(x, ast.Name) and x.id in alias for x in ast.walk(st.value.args[0])):
                    n += 1
                    run.subject('C09-R7')
                    run.fail('C09-R7', '%s|%s|buffer-dtype:%s' % (MOD, name, buf), FILE, st.lineno,
                             "%s allocates '%s' with %s and then stores computed values in it: for an integer-typed input the values are silently "
                             "truncated to integers, so a profile given as a function disagrees with the same profile given as an array"
                             % (name, buf, norm(st.value)[:50]))
    run.subject('C09-R7')
    if n == 0:
        run.ok('C09-R7', 'all functions', 'no in-place change of an argument, no result buffer typed after an input')


class _Stop(Exception):
    pass


def _unroll(fn, Z, with_tcx):
    ps = params_of(fn)
    env = {'atomic_number': Z, ps[1]: L('ne'), ps[2]: L('te'), ps[6]: L('nD')}
    coef = {ps[3]: 'S', ps[4]: 'a', ps[5]: 'X'}
    M = {}
    state = {'matname': None}

    def idx(v):
        return v if v >= 0 else Z + 1 + v

    def ev(n):
        if isinstance(n, ast.Constant):
            return n.value
        if isinstance(n, ast.Name):
            if n.id not in env:
                raise AnalysisError('C09-R4: unbound name %s in _fractional_abundance_point' % n.id)
            return env[n.id]
        if isinstance(n, ast.Attribute):
            if n.attr == 'atomic_number':
                return Z
            raise AnalysisError('C09-R4: cannot interpret %s' % norm(n))
        if isinstance(n, ast.UnaryOp) and isinstance(n.op, ast.USub):
            v = ev(n.operand)
            return -v
        if isinstance(n, ast.BinOp):
            a, b = ev(n.left), ev(n.right)
            num = lambda x: isinstance(x, int)
            if num(a) and num(b):
                if isinstance(n.op, ast.Add):
                    return a + b
                if isinstance(n.op, ast.Sub):
                    return a - b
                if isinstance(n.op, ast.Mult):
                    return a * b
            a = C(a) if num(a) else a
            b = C(b) if num(b) else b
            if isinstance(n.op, ast.Add):
                return a + b
            if isinstance(n.op, ast.Sub):
                return a - b
            if isinstance(n.op, ast.Mult):
                return a * b
            if isinstance(n.op, ast.Div):
                return a / b
        if isinstance(n, ast.Call):
            f = n.func
            if isinstance(f, ast.Subscript) and isinstance(f.value, ast.Name) and f.value.id in coef:
                k = ev(f.slice)
                args = [norm(a) for a in n.args]
                if args != [ps[1], ps[2]]:
                    return L('%s%s_evaluated_at_%s' % (coef[f.value.id], k, '_'.join(args)))
                if not isinstance(k, int) or not (0 <= k <= Z):
                    return L('%s_out_of_range_%s' % (coef[f.value.id], k))
                return L(coef[f.value.id] + str(k))
        if isinstance(n, ast.Compare) and len(n.ops) == 1 and isinstance(n.ops[0], (ast.IsNot, ast.Is)) and norm(n.comparators[0]) == 'None':
            if norm(n.left) == ps[5]:
                return with_tcx if isinstance(n.ops[0], ast.IsNot) else not with_tcx
        if isinstance(n, ast.Tuple):
            return tuple(ev(e) for e in n.elts)
        raise AnalysisError('C09-R4: cannot interpret %s' % norm(n))

    def ex(stmts):
        for st in stmts:
            if isinstance(st, ast.Expr):
                continue
            if isinstance(st, ast.AugAssign) and isinstance(st.target, ast.Subscript) and isinstance(st.target.value, ast.Name):
                if state['matname'] is None:
                    state['matname'] = st.target.value.id
                i, j = ev(st.target.slice)
                i, j = idx(i), idx(j)
                v = ev(st.value)
                v = C(v) if isinstance(v, int) else v
                cur = M.get((i, j), C(0))
                if isinstance(st.op, ast.Add):
                    M[(i, j)] = cur + v
                elif isinstance(st.op, ast.Sub):
                    M[(i, j)] = cur - v
                else:
                    raise AnalysisError('C09-R4: unsupported update %s' % norm(st))
            elif isinstance(st, ast.Assign) and isinstance(st.targets[0], ast.Subscript) and isinstance(st.targets[0].value, ast.Name) \
                    and isinstance(st.targets[0].slice, ast.Tuple):
                i, j = ev(st.targets[0].slice)
                v = ev(st.value)
                M[(idx(i), idx(j))] = C(v) if isinstance(v, int) else v
            elif isinstance(st, ast.Assign):
                t = norm(st.targets[0])
                if t == 'atomic_number':
                    continue
                if isinstance(st.value, ast.Call) and dotted(st.value.func) in ('np.zeros', 'numpy.zeros'):
                    continue
                if isinstance(st.targets[0], ast.Name) and len(st.targets) == 1:
                    # an intermediate local (a flag, a common factor): bind it if it can be interpreted
                    try:
                        env[st.targets[0].id] = ev(st.value)
                        continue
                    except AnalysisError:
                        pass
                raise _Stop()       # scaling / concatenation: the square block is assembled
            elif isinstance(st, ast.If):
                if ev(st.test):
                    ex(st.body)
                else:
                    ex(st.orelse)
            elif isinstance(st, ast.For):
                if not (isinstance(st.iter, ast.Call) and dotted(st.iter.func) == 'range'):
                    raise AnalysisError('C09-R4: loop is not over range()')
                a = [ev(x) for x in st.iter.args]
                for i in range(*a):
                    env[st.target.id] = i
                    ex(st.body)
            else:
                raise AnalysisError('C09-R4: unsupported statement %s' % norm(st)[:60])
    try:
        ex(fn.body)
    except _Stop:
        pass
    return M


def _r4(run, mi):
    run.describe('C09-R4', 'Z = 1..18 x {without, with donor}: tridiagonal, M[z+1,z]=S_z, M[z,z+1]=alpha_{z+1}+(nD/ne)C_{z+1}, columns sum to 0')
    fn = mi.functions['_fractional_abundance_point']
    if len(params_of(fn)) < 7:
        raise AnalysisError('_fractional_abundance_point signature changed')
    K = MOD + '|_fractional_abundance_point|'
    r = L('nD') / L('ne')
    for Z in range(1, 19):
        for tcx in (False, True):
            run.subject('C09-R4')
            tag = 'Z=%d %s' % (Z, 'donor' if tcx else 'no-donor')
            try:
                M = _unroll(fn, Z, tcx)
            except AnalysisError as e_:
                # a statement form the concrete unrolling does not model: undecided, not an analysis failure
                run.undecided('C09-R4', tag, str(e_)[:100])
                continue
            bad = []
            for c in range(Z + 1):
                s = C(0)
                for i in range(Z + 1):
                    s = s + M.get((i, c), C(0))
                if not s.is_zero():
                    bad.append('column %d sums to %s' % (c, s))
            for z in range(Z):
                up = M.get((z + 1, z), C(0))
                dn = M.get((z, z + 1), C(0))
                exp_dn = L('a%d' % (z + 1)) + (r * L('X%d' % (z + 1)) if tcx else C(0))
                if not up.eq(L('S%d' % z)):
                    bad.append('M[%d,%d] = %s, expected S%d' % (z + 1, z, up, z))
                if not dn.eq(exp_dn):
                    bad.append('M[%d,%d] = %s, expected %s' % (z, z + 1, dn, exp_dn))
            for (i, j), v in M.items():
                if abs(i - j) > 1 and not v.is_zero():
                    bad.append('non-tridiagonal entry M[%d,%d] = %s' % (i, j, v))
                if not (0 <= i <= Z and 0 <= j <= Z):
                    bad.append('entry outside the matrix M[%d,%d]' % (i, j))
            if bad:
                run.fail('C09-R4', K + ('donor' if tcx else 'no-donor') + '|' + bad[0].split(' ')[0] + '|Z=%d' % Z, FILE, fn.lineno,
                         'balance matrix for %s violates the steady-state neighbour balance: %s' % (tag, '; '.join(bad[:3])))
            else:
                run.ok('C09-R4', tag, '%d entries; all columns sum to zero' % len(M), sample=(Z in (1, 2) or (Z == 18 and tcx)))
    run.floor('C09-R4', 36)


MUTANTS = [
    dict(name='fractional-2d-interpolators-cubic', file=FILE, find="Interpolator2DArray(*free_variable, item, 'linear', 'none', 0, 0)", replace="Interpolator2DArray(*free_variable, item, 'cubic', 'none', 0, 0)", occurrence=0, of=2, expect='C09-R8'),
    dict(name='species-charge-summed-in-place', file=FILE, find="        for index, value in enumerate(abundance):\n            element_n_e -= index * value\n",
         replace="        abundance *= np.arange(len(abundance))\n        element_n_e -= np.sum(abundance)\n", expect='C09-R7'),
    dict(name='function-buffer-typed-after-the-free-variable', file=FILE, find="            array = np.zeros(free_variable.shape)", replace="            array = np.zeros_like(free_variable)", expect='C09-R7'),
    dict(name='D14-reintroduced', file=FILE,
         find="    elif tcx_donor is None:\n        coef_tcx = None\n\n    # calculate fractional abundance for the element\n    fractional_abundance = _fractional_abundance_point(element, n_e, t_e, coef_ion, coef_recom, coef_tcx,\n                                                       tcx_donor_n)",
         replace="    else:\n        coef_tcx = None\n\n    # calculate fractional abundance for the element\n    fractional_abundance = _fractional_abundance_point(element, n_e, t_e, coef_ion, coef_recom, coef_tcx,\n                                                       tcx_donor_n)", expect='C09-R1'),
    dict(name='wrapper-drops-donor-density', file=FILE,
         find="    fractional_profiles = interpolators1d_fractional(atomic_data, element, psin_1d, n_e_profile, t_e_profile,\n                                                     tcx_donor, tcx_donor_n, tcx_donor_charge)",
         replace="    fractional_profiles = interpolators1d_fractional(atomic_data, element, psin_1d, n_e_profile, t_e_profile,\n                                                     tcx_donor)", expect='C09-R2'),
    dict(name='cx-term-on-wrong-neighbour', file=FILE, find="            matbal[i, i + 1] += tcx_donor_density / n_e * coef_tcx[i + 1](n_e, t_e)",
         replace="            matbal[i, i - 1] += tcx_donor_density / n_e * coef_tcx[i + 1](n_e, t_e)", expect='C09-R4'),
    dict(name='matrix-sign', file=FILE, find="    matbal[-1, -2] += coef_ion[atomic_number - 1](n_e, t_e)", replace="    matbal[-1, -2] -= coef_ion[atomic_number - 1](n_e, t_e)", expect='C09-R4'),
    dict(name='index-slip', file=FILE, find="        matbal[i, i + 1] += coef_recom[i + 1](n_e, t_e)", replace="        matbal[i, i + 1] += coef_recom[i](n_e, t_e)", expect='C09-R4'),
    dict(name='bounds-0-1', file=FILE, find="bounds=(0, n_e)", replace="bounds=(0, 1)", expect='C09-R3'),
    dict(name='cx-not-scaled-by-ne', file=FILE, find="        matbal[0, 1] += tcx_donor_density / n_e * coef_tcx[1](n_e, t_e)", replace="        matbal[0, 1] += tcx_donor_density * coef_tcx[1](n_e, t_e)", expect='C09-R4'),
    dict(name='donor-ignored-when-density-has-zero', file=FILE, find="    if tcx_donor is not None and coef_tcx is None:\n        coef_tcx = get_rates_tcx(atomic_data, tcx_donor, tcx_donor_charge, element)\n    elif tcx_donor is None:\n        coef_tcx = None\n\n    density = np.zeros((element.atomic_number + 1, *n_e.shape))",
         replace="    if tcx_donor is not None and coef_tcx is None and np.all(tcx_donor_n):\n        coef_tcx = get_rates_tcx(atomic_data, tcx_donor, tcx_donor_charge, element)\n    elif tcx_donor is None:\n        coef_tcx = None\n\n    density = np.zeros((element.atomic_number + 1, *n_e.shape))", expect='C09-R1b'),
    dict(name='species-dict-packed-by-position', file=FILE, find="            for key, value in param.items():\n                array[key, ...] =", replace="            for key, value in enumerate(param.values()):\n                array[key, ...] =", expect='C09-R5'),
    dict(name='rate-cache-key-incomplete', file=FILE, find="    coef_tcx = {}\n    for i in np.arange(1, receiver.atomic_number + 1):\n        coef_tcx[i] = atomic_data.thermal_cx_rate(donor, donor_charge, receiver, int(i))\n\n    return coef_tcx",
         replace="    key = (atomic_data, donor, receiver)\n    if key not in _CACHE:\n        coef_tcx = {}\n        for i in np.arange(1, receiver.atomic_number + 1):\n            coef_tcx[i] = atomic_data.thermal_cx_rate(donor, donor_charge, receiver, int(i))\n        _CACHE[key] = coef_tcx\n    return _CACHE[key]\n\n\n_CACHE = {}", expect='C09-R6'),
    dict(name='rates-at-swapped-arguments', file=FILE, find="    matbal[0, 0] -= coef_ion[0](n_e, t_e)", replace="    matbal[0, 0] -= coef_ion[0](t_e, n_e)", expect='C09'),
]
TWINS = [
    dict(name='rate-cache-key-complete', file=FILE, find="    coef_tcx = {}\n    for i in np.arange(1, receiver.atomic_number + 1):\n        coef_tcx[i] = atomic_data.thermal_cx_rate(donor, donor_charge, receiver, int(i))\n\n    return coef_tcx",
         replace="    key = (atomic_data, donor, donor_charge, receiver)\n    if key not in _CACHE:\n        coef_tcx = {}\n        for i in np.arange(1, receiver.atomic_number + 1):\n            coef_tcx[i] = atomic_data.thermal_cx_rate(donor, donor_charge, receiver, int(i))\n        _CACHE[key] = coef_tcx\n    return _CACHE[key]\n\n\n_CACHE = {}"),
    dict(name='keyword-arguments', file=FILE,
         find="    fractional_abundance = _fractional_abundance(atomic_data, element, n_e, t_e, tcx_donor, tcx_donor_n,\n                                                 tcx_donor_charge)",
         replace="    fractional_abundance = _fractional_abundance(atomic_data, element, n_e=n_e, t_e=t_e, tcx_donor=tcx_donor,\n                                                 tcx_donor_charge=tcx_donor_charge, tcx_donor_n=tcx_donor_n)"),
]
