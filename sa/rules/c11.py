"""C11 -- inversion solvers (DESIGN section 5, C11)."""
import ast
import re

from ..program import Program, dotted, norm
from ..report import AnalysisError
from ..flow import guards_of, facts, stores
from ..algebra import SymEval, C, L, Rat, run_block

SART = 'cherab/tools/inversions/sart.pyx'
NNLS = 'cherab/tools/inversions/nnls.py'
LSTSQ = 'cherab/tools/inversions/lstsq.py'
FILES = [SART, NNLS, LSTSQ]


def check(run):
    prog = Program()
    prog.load_many(FILES)
    for f in FILES:
        run.use_file(f)
    run.explanation = (
        'Decides structural necessary conditions of C11: (R1) in both SART variants the value stored as the new solution is clipped '
        'at zero on every path; (R2) the update rule: x_new = x + (relaxation / rho_j) sum_i (W_ij / L_i)(b_i - yhat_i) over rows with '
        'L_i != 0 for cells with rho_j > 0, x otherwise, minus beta (Lap x)_j in both branches of the constrained variant, with rho, '
        'L, yhat and the penalty computed from the documented sums/products; (R3) the two variants are identical modulo the penalty '
        '(stopping rule |c_k - c_(k-1)| < conv_tol for k > 0, convergence measure, initial guess handling); (R4) NNLS/LSTSQ solve the '
        'stacked system [W; alpha L] x = [b; 0], both NNLS arguments are divided by the same scalar and the returned norm multiplied '
        'by it, the solver output is returned unmodified. Does not decide optimality/KKT (scipy/numpy), fixed points or convergence.')
    run.assumptions = ['scipy.optimize.nnls / numpy.linalg.lstsq return minimisers of the system they are given',
                       'numpy dot/sum semantics']
    sm = prog.modules['cherab.tools.inversions.sart']
    for n in ('invert_sart', 'invert_constrained_sart'):
        if n not in sm.functions:
            raise AnalysisError('anchored function vanished: %s' % n)
    forms = {}
    for name in ('invert_sart', 'invert_constrained_sart'):
        forms[name] = _sart(run, sm, sm.functions[name], constrained=(name == 'invert_constrained_sart'))
        run.functions += 1
    _siblings(run, sm, forms)
    _stacked(run, prog)
    from ..cachekey import check_caches
    check_caches(run, [m for k, m in prog.modules.items() if k.startswith('cherab.tools.inversions')], 'C11-K')


def _sart(run, mod, fn, constrained):
    run.describe('C11-R1', 'stored solution value is clipped at zero on every path')
    run.describe('C11-R2', 'SART update rule in exact normal form (both branches, penalty in both branches of the constrained variant)')
    K = '%s|%s|' % (mod.name, fn.name)
    outer = [l for l in fn.body if isinstance(l, ast.For)]
    if len(outer) != 1:
        raise AnalysisError('%s: iteration loop not found' % fn.name)
    it = outer[0]
    cell_loops = [l for l in it.body if isinstance(l, ast.For)]
    if len(cell_loops) != 1:
        raise AnalysisError('%s: cell loop not found' % fn.name)
    cl = cell_loops[0]
    j = cl.target.id
    # ---- R1
    sts = [st for st in ast.walk(cl) if isinstance(st, ast.Assign) and norm(st.targets[0]).startswith('solution_new_mv[')]
    run.subject('C11-R1')
    ok = False
    if len(sts) == 1 and isinstance(sts[0].value, ast.Name) and norm(sts[0].targets[0]) == 'solution_new_mv[%s]' % j and sts[0] in cl.body:
        v = sts[0].value.id
        idx = cl.body.index(sts[0])
        prev = cl.body[idx - 1] if idx > 0 else None
        if isinstance(prev, ast.If) and norm(prev.test) in ('%s < 0' % v, '%s < 0.0' % v, '%s <= 0' % v) and len(prev.body) == 1 \
                and norm(prev.body[0]) in ('%s = 0.0' % v, '%s = 0' % v) and not prev.orelse:
            ok = True
    if ok:
        run.ok('C11-R1', fn.name + ' clip', 'if x_new < 0: x_new = 0 immediately before the store')
    else:
        run.fail('C11-R1', K + 'clip', mod.relpath, (sts[0] if sts else cl).lineno,
                 '%s stores the new solution value without clipping it at zero on every path: the solution can become negative' % fn.name)
    # ---- R2: evaluate the cell loop body for both branches
    pre = {}
    for tg, v, st in stores(fn):
        if isinstance(st, ast.Assign) and isinstance(tg, ast.Name):
            pre.setdefault(tg.id, norm(v))
    branch = [s for s in cl.body if isinstance(s, ast.If) and 'cell_ray_densities_mv[%s]' % j in norm(s.test)]
    run.subject('C11-R2')
    if len(branch) != 1 or norm(branch[0].test) not in ('cell_ray_densities_mv[%s] > 0.0' % j, 'cell_ray_densities_mv[%s] > 0' % j):
        run.fail('C11-R2', K + 'density-branch', mod.relpath, cl.lineno, '%s does not distinguish cells with zero ray density' % fn.name)
        return None
    br = branch[0]
    e = SymEval({'x_j': L('X')})
    pre_stmts = [s for s in cl.body if cl.body.index(s) < cl.body.index(br)]
    run_block(e, pre_stmts)
    xj = e.env.get('x_j')
    # positive-density branch
    e1 = SymEval(dict(e.env))
    inner = [l for l in ast.walk(br) if isinstance(l, ast.For)]
    obs_term = None
    skip_ok = False
    if len(inner) == 1:
        il = inner[0]
        i = il.target.id
        e2 = SymEval(dict(e.env))
        e2.env['obs_diff'] = L('OD0')
        body = [s for s in il.body if not isinstance(s, ast.If)]
        run_block(e2, body)
        obs_term = e2.env['obs_diff'] - L('OD0')
        sk = [s for s in il.body if isinstance(s, ast.If)]
        skip_ok = len(sk) == 1 and norm(sk[0].test) in ('ray_lengths_mv[%s] == 0' % i, 'ray_lengths_mv[%s] == 0.0' % i) \
            and isinstance(sk[0].body[0], ast.Continue) and il.body.index(sk[0]) == 0 and norm(il.iter) == 'range(m_observations)'
        want_term = L('geometry_matrix_mv[%s,%s]' % (i, j)) * L('inv_ray_lengths_mv[%s]' % i) * (L('obs_vector_mv[%s]' % i) - L('y_hat_vector_mv[%s]' % i))
        if not obs_term.eq(want_term):
            run.fail('C11-R2', K + 'obs-term', mod.relpath, il.lineno,
                     '%s accumulates %s per observation; documented: (W_ij / L_i) (b_i - yhat_i)' % (fn.name, obs_term))
            obs_term = None
        elif not skip_ok:
            run.fail('C11-R2', K + 'zero-length-rows', mod.relpath, il.lineno, '%s does not skip observations whose ray length is zero' % fn.name)
            obs_term = None
    e1.env['obs_diff'] = L('OBS')
    body1 = [s for s in br.body]
    flat = []
    for s in body1:
        if isinstance(s, ast.With):
            flat.extend(s.body)
        elif not isinstance(s, ast.For) and not (isinstance(s, ast.Assign) and norm(s.targets[0]) == 'obs_diff'):
            flat.append(s)
    run_block(e1, flat)
    got1 = e1.env.get('x_j_new')
    pen = L('grad_penalty_mv[%s]' % j) if constrained else C(0)
    want1 = L('solution_mv[%s]' % j) + L('relaxation') / L('cell_ray_densities_mv[%s]' % j) * L('OBS') - pen
    e0 = SymEval(dict(e.env))
    run_block(e0, br.orelse)
    got0 = e0.env.get('x_j_new')
    want0 = L('solution_mv[%s]' % j) - pen
    ok = obs_term is not None and got1 is not None and got0 is not None and got1.eq(want1) and got0.eq(want0) and norm(cl.iter) == 'range(n_sources)'
    if ok:
        run.ok('C11-R2', fn.name + ' update', 'x + (relaxation / rho_j) sum_i (W_ij / L_i)(b_i - yhat_i)%s ; rho_j = 0: x%s'
               % ((' - penalty_j', ' - penalty_j') if constrained else ('', '')))
    elif obs_term is not None:
        run.fail('C11-R2', K + 'update', mod.relpath, br.lineno,
                 '%s: x_new is %s for rho_j > 0 and %s for rho_j = 0; documented: %s and %s' % (fn.name, got1, got0, want1, want0))
    # derived arrays
    want_pre = {'cell_ray_densities': 'np.sum(geometry_matrix, axis=0)', 'ray_lengths': 'np.sum(geometry_matrix, axis=1)',
                'inv_ray_lengths_mv': '1 / ray_lengths', 'y_hat_vector': 'np.dot(geometry_matrix, solution)'}
    for k, w in want_pre.items():
        run.subject('C11-R2')
        if pre.get(k) == w:
            run.ok('C11-R2', '%s %s' % (fn.name, k), w, sample=False)
        else:
            run.fail('C11-R2', K + 'derived:' + k, mod.relpath, fn.lineno, '%s: %s = %s; documented: %s' % (fn.name, k, pre.get(k), w))
    it_defs = {norm(t): norm(v) for t, v, st in stores(it) if isinstance(st, ast.Assign)}
    run.subject('C11-R2')
    if it_defs.get('y_hat_vector') == 'np.dot(geometry_matrix, solution_new)' and 'solution_mv[:]' in it_defs and it_defs['solution_mv[:]'] == 'solution_new_mv[:]':
        run.ok('C11-R2', fn.name + ' iterate update', 'yhat = W x_new ; x := x_new', sample=False)
    else:
        run.fail('C11-R2', K + 'iterate', mod.relpath, it.lineno, '%s does not refresh yhat = W x_new and copy x_new into x every iteration' % fn.name)
    if constrained:
        run.subject('C11-R2')
        if it_defs.get('grad_penalty') == 'np.dot(laplacian_matrix, solution) * beta_laplace':
            run.ok('C11-R2', 'penalty', 'beta (Lap x)')
        else:
            run.fail('C11-R2', K + 'penalty', mod.relpath, it.lineno, 'penalty is %s; documented: beta_laplace * (laplacian . x)' % it_defs.get('grad_penalty'))
    return dict(fn=fn, it=it, cl=cl)


def _strip(fn):
    """Normalised statement texts with the penalty-specific parts removed."""
    txt = ast.unparse(fn)
    out = []
    for line in txt.splitlines():
        l = line.strip()
        if l.startswith(('def ', '@', '"""')) or not l:
            continue
        if re.match(r"^\w+: '[^']*'$", l):
            continue        # cdef declaration
        if 'grad_penalty' in l and '=' in l and not l.startswith(('x_j_new', 'if', 'else')):
            continue
        l = l.replace(' - grad_penalty_mv[jth_cell]', '')
        out.append(l)
    return out


def _siblings(run, mod, forms):
    run.describe('C11-R3', 'invert_sart and invert_constrained_sart identical modulo the penalty; stopping rule')
    a, b = mod.functions['invert_sart'], mod.functions['invert_constrained_sart']
    la, lb = _strip(a), _strip(b)
    # drop docstring lines (anything before the first assignment)
    def body(ls):
        for k, l in enumerate(ls):
            if l.startswith('m_observations'):
                return ls[k:]
        return ls
    la, lb = body(la), body(lb)
    run.subject('C11-R3')
    if la == lb:
        run.ok('C11-R3', 'sibling bodies', '%d statements identical after removing the penalty' % len(la))
    else:
        diff = [(x, y) for x, y in zip(la, lb) if x != y][:2] or [('length %d' % len(la), 'length %d' % len(lb))]
        # a textual difference is not by itself a behavioural one (R1, R2 and the stopping rule are decided per variant)
        run.undecided('C11-R3', 'sibling bodies', 'invert_sart and invert_constrained_sart differ beyond the penalty term: %s' % (diff,))
    for name in ('invert_sart', 'invert_constrained_sart'):
        fn = mod.functions[name]
        run.subject('C11-R3')
        brk = [n for n in ast.walk(fn) if isinstance(n, ast.Break)]
        ok = False
        for bnode in brk:
            f = facts(guards_of(fn, bnode) or [])
            if ('k', '>', '0') in f and any(a0[0].replace(' ', '') in ('np.abs(convergence[k]-convergence[k-1])', 'abs(convergence[k]-convergence[k-1])')
                                            and a0[1] == '<' and a0[2] == 'conv_tol' for a0 in f):
                ok = True
        conv = [norm(c.args[0]) for c in ast.walk(fn) if isinstance(c, ast.Call) and norm(c.func) == 'convergence.append']
        if ok and conv == ['(measurement_squared - y_hat_squared) / measurement_squared']:
            run.ok('C11-R3', name + ' stopping rule', '|c_k - c_(k-1)| < conv_tol for k > 0')
        else:
            run.fail('C11-R3', '%s|%s|stopping-rule' % (mod.name, name), mod.relpath, fn.lineno,
                     '%s does not stop on |c_k - c_(k-1)| < conv_tol for k > 0 with c = (|b|^2 - |yhat|^2) / |b|^2 (measure: %s)' % (name, conv))
        run.subject('C11-R3')
        ret = [r for r in ast.walk(fn) if isinstance(r, ast.Return)]
        if ret and norm(ret[-1].value) == '(solution, convergence)':
            run.ok('C11-R3', name + ' result', '(solution, convergence)', sample=False)
        else:
            run.fail('C11-R3', '%s|%s|result' % (mod.name, name), mod.relpath, fn.lineno, '%s returns %s' % (name, norm(ret[-1].value) if ret else None))


def _stacked(run, prog):
    run.describe('C11-R4', 'stacked system [W; alpha L] x = [b; 0]; common scaling of both NNLS arguments; solver output returned unmodified')
    for modname, fname, solver in (('cherab.tools.inversions.nnls', 'invert_regularised_nnls', 'scipy.optimize.nnls'),
                                   ('cherab.tools.inversions.lstsq', 'invert_regularised_lstsq', 'np.linalg.lstsq')):
        mi = prog.modules[modname]
        fn = mi.functions.get(fname)
        if fn is None:
            raise AnalysisError('anchored function vanished: %s' % fname)
        run.functions += 1
        K = '%s|%s|' % (modname, fname)
        w, b, alpha, tik = [a.arg for a in fn.args.args[:4]]
        d = {}
        for st in fn.body:
            if isinstance(st, ast.Assign):
                d.setdefault(norm(st.targets[0]), []).append(norm(st.value))
            elif isinstance(st, ast.If):
                for s2 in st.body:
                    if isinstance(s2, ast.Assign):
                        d.setdefault(norm(s2.targets[0]), []).append(norm(s2.value))
        run.subject('C11-R4')
        want = {'c_matrix[0:m, :]': ['%s[:, :]' % w], 'c_matrix[m:, :]': ['%s[:, :]' % tik], 'd_vector[0:m]': ['%s[:]' % b],
                'c_matrix': ['np.zeros((m + n, n))'], 'd_vector': ['np.zeros(m + n)'], '(m, n)': ['%s.shape' % w]}
        bad = {k: d.get(k) for k, v in want.items() if d.get(k) != v}
        tk = d.get(tik, [])
        if not bad and tk == ['np.identity(n)', '%s * %s' % (alpha, tik)]:
            run.ok('C11-R4', fname + ' stacked system', '[W; alpha L], [b; 0]')
        else:
            run.fail('C11-R4', K + 'stacked-system', mi.relpath, fn.lineno,
                     '%s does not assemble [W; alpha L] and [b; 0]: %s ; tikhonov = %s' % (fname, bad, tk))
        call = [c for c in ast.walk(fn) if isinstance(c, ast.Call) and dotted(c.func) == solver]
        ret = [r for r in ast.walk(fn) if isinstance(r, ast.Return)]
        run.subject('C11-R4')
        if not call or not ret:
            run.fail('C11-R4', K + 'solver-call', mi.relpath, fn.lineno, '%s does not call %s' % (fname, solver))
            continue
        args = [norm(a) for a in call[0].args]
        rv = norm(ret[-1].value)
        if solver.endswith('nnls'):
            m_ = re.match(r'c_matrix / (\w+)$', args[0])
            ok = m_ and args[1] == 'd_vector / %s' % m_.group(1) and rv == '(x_vector, rnorm * %s)' % m_.group(1) \
                and d.get('(x_vector, rnorm)') is not None and d.get(m_.group(1)) is not None
            if ok:
                run.ok('C11-R4', fname + ' scaling', 'nnls(C / s, d / s); norm * s; x returned unmodified')
            else:
                run.fail('C11-R4', K + 'scaling', mi.relpath, call[0].lineno,
                         '%s calls nnls(%s) and returns %s: the two arguments are not scaled by one scalar that is undone on the norm' % (fname, ', '.join(args), rv))
        else:
            kws = {k.arg: norm(k.value) for k in call[0].keywords}
            if args == ['c_matrix', 'd_vector'] and rv == '(x_vector, residuals)' and '(x_vector, residuals, _, _)' in d:
                run.ok('C11-R4', fname + ' solver call', 'lstsq(C, d); x and residuals returned unmodified')
            else:
                run.fail('C11-R4', K + 'solver-call', mi.relpath, call[0].lineno, '%s calls lstsq(%s) and returns %s' % (fname, ', '.join(args), rv))


MUTANTS = [
    dict(name='clip-removed', file=SART, find="            if x_j_new < 0:\n                x_j_new = 0.0\n", replace="", occurrence=0, of=2, expect='C11-R1'),
    dict(name='penalty-sign', file=SART, find="x_j_new = x_j + relax_over_density * obs_diff - grad_penalty_mv[jth_cell]", replace="x_j_new = x_j + relax_over_density * obs_diff + grad_penalty_mv[jth_cell]", expect='C11-R2'),
    dict(name='relaxation-times-density', file=SART, find="relax_over_density = relaxation / cell_ray_densities_mv[jth_cell]", replace="relax_over_density = relaxation * cell_ray_densities_mv[jth_cell]", occurrence=1, of=2, expect='C11-R2'),
    dict(name='penalty-missing-in-else', file=SART, find="                x_j_new = x_j - grad_penalty_mv[jth_cell]", replace="                x_j_new = x_j", expect='C11-R'),
    dict(name='nnls-only-d-scaled', file=NNLS, find="scipy.optimize.nnls(c_matrix / vmax, d_vector / vmax, **kwargs)", replace="scipy.optimize.nnls(c_matrix, d_vector / vmax, **kwargs)", expect='C11-R4'),
    dict(name='residual-sign', file=SART, find="obs_diff += prop_ray_length * (obs_vector_mv[ith_obs] - y_hat_vector_mv[ith_obs])", replace="obs_diff += prop_ray_length * (y_hat_vector_mv[ith_obs] - obs_vector_mv[ith_obs])", occurrence=0, of=2, expect='C11-R2'),
    dict(name='stop-on-first-iteration', file=SART, find="        if k > 0:\n", replace="        if k >= 0:\n", occurrence=0, of=2, expect='C11-R3'),
    dict(name='yhat-from-old-solution', file=SART, find="        y_hat_vector = np.dot(geometry_matrix, solution_new)", replace="        y_hat_vector = np.dot(geometry_matrix, solution)", occurrence=1, of=2, expect='C11-R'),
    dict(name='tikhonov-not-scaled', file=LSTSQ, find="    tikhonov_matrix = alpha * tikhonov_matrix\n", replace="", expect='C11-R4'),
    dict(name='nnls-norm-not-rescaled', file=NNLS, find="    return x_vector, rnorm * vmax", replace="    return x_vector, rnorm", expect='C11-R4'),
    dict(name='ray-lengths-wrong-axis', file=SART, find="    ray_lengths = np.sum(geometry_matrix, axis=1)", replace="    ray_lengths = np.sum(geometry_matrix, axis=0)", occurrence=0, of=2, expect='C11-R2'),
]
TWINS = [
    dict(name='penalty-hoisted', file=SART, find="        grad_penalty = np.dot(laplacian_matrix, solution) * beta_laplace", replace="        grad_penalty = np.dot(laplacian_matrix, solution) * beta_laplace  # (Lap x) scaled"),
]
