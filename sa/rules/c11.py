"""C11 -- inversion solvers (DESIGN section 5, C11)."""
import ast
import re

from ..program import Program, dotted, norm
from ..report import AnalysisError
from ..flow import guards_of, facts, stores
from ..algebra import SymEval, C, L, Rat, run_block

SART = 'cherab/tools/inversions/sart.pyx'
NNLS = 'cherab/tools/inversions/nnls.py'
LSTSQ = 'cherab/tools/inversions/lstsq.py'
FILES = [SART, NNLS, LSTSQ]


def check(run):
    prog = Program()
    prog.load_many(FILES)
    for f in FILES:
        run.use_file(f)
    run.explanation = (
        'Decides structural necessary conditions of C11: (R1) in both SART variants the value stored as the new solution is clipped '
        'at zero on every path; (R2) the update rule: x_new = x + (relaxation / rho_j) sum_i (W_ij / L_i)(b_i - yhat_i) over rows with '
        'L_i != 0 for cells with rho_j > 0, x otherwise, minus beta (Lap x)_j in both branches of the constrained variant, with rho, '
        'L, yhat and the penalty computed from the documented sums/products; (R3) the two variants are identical modulo the penalty '
        '(stopping rule |c_k - c_(k-1)| < conv_tol for k > 0, convergence measure, initial guess handling); (R4) NNLS/LSTSQ solve the '
        'stacked system [W; alpha L] x = [b; 0], both NNLS arguments are divided by the same scalar and the returned norm multiplied '
        'by it, the solver output is returned unmodified. Does not decide optimality/KKT (scipy/numpy), fixed points or convergence.')
    run.assumptions = ['scipy.optimize.nnls / numpy.linalg.lstsq return minimisers of the system they are given',
                       'numpy dot/sum semantics']
    sm = prog.modules['cherab.tools.inversions.sart']
    for n in ('invert_sart', 'invert_constrained_sart'):
        if n not in sm.functions:
            raise AnalysisError('anchored function vanished: %s' % n)
    forms = {}
    for name in ('invert_sart', 'invert_constrained_sart'):
        forms[name] = _sart(run, sm, sm.functions[name], constrained=(name == 'invert_constrained_sart'))
        run.functions += 1
    _siblings(run, sm, forms)
    _stacked(run, prog)
    _svd(run, prog)
    from ..cachekey import check_caches
    check_caches(run, [m for k, m in prog.modules.items() if k.startswith('cherab.tools.inversions')], 'C11-K', prog=prog,
                 zero_is_a_value={'cherab.tools.inversions.sart'})   # an initial guess of exactly 0 is a legal seed of the iteration
    _inputs_kept(run, prog)
    run.include('C20', {'cherab/tools/inversions/admt_utils.py'},
                'the regularisation matrix L of |Wx-b|^2 + alpha^2 |Lx|^2 is built by generate_derivative_operators / calculate_admt')


def _svd(run, prog):
    """R6: invert_svd returns pinv(W) . b -- the minimum-norm least-squares solution (alpha = 0 member of the regularised family).
    Decided by reading the returned expression with matrix-product semantics: np.matrix operands multiply as matrices, reshape /
    flatten / asarray do not change the entries."""
    run.describe('C11-R6', 'invert_svd returns the product of the Moore-Penrose pseudo-inverse of the given matrix with the given vector')
    rel = 'cherab/tools/inversions/svd.py'
    mi = prog.load(rel, required=False)
    if mi is None:
        raise AnalysisError('anchored source file vanished: %s' % rel)
    run.use_file(rel)
    fn = mi.functions.get('invert_svd')
    if fn is None:
        raise AnalysisError('anchored function vanished: invert_svd')
    from ..inline import flatten, module_lookup
    try:
        fn = flatten(fn, module_lookup(mi))
    except Exception:
        pass
    W, B = [a.arg for a in fn.args.args[:2]]
    K = mi.name + '|invert_svd|'
    env = {W: ('W', False), B: ('b', False)}       # name -> (term, is np.matrix)

    class Unknown(Exception):
        pass

    def ev(e):
        if isinstance(e, ast.Name):
            if e.id in env:
                return env[e.id]
            raise Unknown(e.id)
        if isinstance(e, ast.Attribute) and e.attr in ('T',):
            t, m = ev(e.value)
            return ('T(%s)' % t, m)
        if isinstance(e, ast.Attribute) and e.attr in ('A', 'A1'):
            t, m = ev(e.value)
            return (t, False)
        if isinstance(e, ast.Call):
            f = dotted(e.func) or ''
            last = e.func.attr if isinstance(e.func, ast.Attribute) else f.split('.')[-1]
            if isinstance(e.func, ast.Attribute) and last in ('flatten', 'ravel', 'reshape', 'squeeze', 'copy', 'astype') and not f.startswith(('np.', 'numpy.')):
                return ev(e.func.value)
            if last in ('asarray', 'array', 'asanyarray', 'ravel', 'squeeze', 'atleast_1d', 'atleast_2d', 'ascontiguousarray') and e.args:
                t, m = ev(e.args[0])
                return (t, False)
            if last in ('matrix', 'asmatrix', 'mat') and e.args:
                t, m = ev(e.args[0])
                return (t, True)
            if last in ('pinv', 'pinv2', 'pinvh') and e.args:
                if len(e.args) > 1 or e.keywords:
                    raise Unknown('pinv with a cut-off')
                t, m = ev(e.args[0])
                return ('PINV(%s)' % t, m)
            if last in ('dot', 'matmul') and len(e.args) == 2 and f.split('.')[0] in ('np', 'numpy'):
                return ('MM(%s,%s)' % (ev(e.args[0])[0], ev(e.args[1])[0]), False)
            if isinstance(e.func, ast.Attribute) and last == 'dot' and len(e.args) == 1:
                a, b = ev(e.func.value), ev(e.args[0])
                return ('MM(%s,%s)' % (a[0], b[0]), a[1] or b[1])
            raise Unknown(norm(e)[:40])
        if isinstance(e, ast.BinOp) and isinstance(e.op, ast.MatMult):
            a, b = ev(e.left), ev(e.right)
            return ('MM(%s,%s)' % (a[0], b[0]), a[1] or b[1])
        if isinstance(e, ast.BinOp) and isinstance(e.op, ast.Mult):
            a, b = ev(e.left), ev(e.right)
            if a[1] or b[1]:
                return ('MM(%s,%s)' % (a[0], b[0]), True)
            return ('EW(%s,%s)' % (a[0], b[0]), False)
        raise Unknown(norm(e)[:40])
    run.subject('C11-R6')
    got = None
    try:
        for st in fn.body:
            if isinstance(st, ast.Assign) and len(st.targets) == 1 and isinstance(st.targets[0], ast.Name):
                env[st.targets[0].id] = ev(st.value)
            elif isinstance(st, ast.Return) and st.value is not None:
                got = ev(st.value)[0]
            elif isinstance(st, ast.Expr) and isinstance(st.value, ast.Constant):
                continue
            else:
                raise Unknown(norm(st)[:40])
    except Unknown as e:
        run.undecided('C11-R6', 'invert_svd', 'not interpreted: %s' % e)
        return
    if got == 'MM(PINV(W),b)':
        run.ok('C11-R6', 'invert_svd', 'pinv(W) . b')
    elif got is None:
        run.undecided('C11-R6', 'invert_svd', 'no returned value')
    else:
        run.fail('C11-R6', K + 'product', rel, fn.lineno,
                 'invert_svd returns %s (MM: matrix product, EW: element-wise product, PINV: pseudo-inverse, T: transpose); documented: the '
                 'pseudo-inverse of the sensitivity matrix applied to the measurement vector, pinv(W) . b' % got)


def _inputs_kept(run, prog):
    """R5: the solvers do not change the matrix / vectors they are given, and the stacked system is not typed after an input (for an
    integer geometry matrix alpha * L would be truncated, and the returned vector would not minimise the documented functional)."""
    from ._purity import mutations, typed_after_input
    run.describe('C11-R5', 'inputs are not modified in place; the stacked system is not typed after an input array')
    for k, mi in sorted(prog.modules.items()):
        if not k.startswith('cherab.tools.inversions.') or k.split('.')[-1] not in ('sart', 'nnls', 'lstsq'):
            continue
        for name, fn in sorted(mi.functions.items()):
            if name.startswith('_'):
                continue
            run.subject('C11-R5')
            bad = mutations(fn)
            # the iterate buffer is the caller's initial guess when an array is passed (an optional argument): the in-place iteration
            # overwrites it. The property speaks of the returned iterate only, so this is a note, not a violation (DESIGN 10.8)
            from ._purity import alias_roots, optional_params
            roots, opt = alias_roots(fn), optional_params(fn)
            kept = []
            for st, text in bad:
                tg = st.targets[0] if isinstance(st, ast.Assign) else getattr(st, 'target', None)
                b0 = tg
                while isinstance(b0, ast.Subscript):
                    b0 = b0.value
                rs = roots.get(b0.id, set()) if isinstance(b0, ast.Name) else set()
                whole = isinstance(st, ast.Assign) and isinstance(tg, ast.Subscript) and isinstance(tg.slice, ast.Slice) and tg.slice.lower is None \
                    and tg.slice.upper is None
                if rs and rs <= opt and whole:
                    run.notes.append('NOTE: C11-R5 %s overwrites its optional argument %s in place (%s); the property speaks of the returned iterate only'
                                     % (name, sorted(rs), text))
                else:
                    kept.append((st, text))
            bad = kept
            typed = typed_after_input(fn)
            for st, text in bad:
                run.fail('C11-R5', '%s|%s|mutates-argument' % (mi.name, name), mi.relpath, st.lineno,
                         "%s changes data it was given in place (%s): the caller's matrix / vector is overwritten" % (name, text))
            for st, buf, model, s2 in typed:
                run.fail('C11-R5', '%s|%s|typed-after-input:%s' % (mi.name, name, buf), mi.relpath, st.lineno,
                         "%s allocates '%s' with the dtype of its argument '%s' (%s) and then stores other values in it (%s): for an integer-typed "
                         "%s they are truncated, so the solved system is not [W; alpha L] x = [b; 0]"
                         % (name, buf, model, norm(st.value)[:50], norm(s2)[:50], model))
            if not bad and not typed:
                run.ok('C11-R5', name, 'arguments untouched, buffers of default floating type', sample=False)
    run.floor('C11-R5', 4)


def _roles(fn):
    """Array name -> role, by following single-definition aliases to the expression that defines the array:
    G geometry matrix, b measurements, rho = sum_i G_ij, Lr = sum_j G_ij, invL = 1 / Lr, x / xnew the iterates,
    yhat = G . x, pen = beta (Lap . x)."""
    ps = [a.arg for a in fn.args.args]
    G = ps[0]
    lap = ([p for p in ps if 'laplacian' in p] or [None])[0]
    bname = [p for p in ps[1:] if p != lap][0]
    defs = {}
    for t, v, st in stores(fn):
        if isinstance(t, ast.Name) and isinstance(st, (ast.Assign, ast.AnnAssign)):
            defs.setdefault(t.id, []).append(v)
    role = {G: 'G', bname: 'b'}
    if lap:
        role[lap] = 'Lap'

    def classify(name, seen=()):
        if name in role:
            return role[name]
        if name in seen or name not in defs:
            return None
        vs = defs[name]
        rs = set()
        for v in vs:
            r = None
            if isinstance(v, ast.Name):
                r = classify(v.id, seen + (name,))
            elif isinstance(v, ast.Call) and dotted(v.func) in ('np.sum', 'numpy.sum') and v.args and isinstance(v.args[0], ast.Name) \
                    and classify(v.args[0].id, seen + (name,)) == 'G':
                ax = [k.value for k in v.keywords if k.arg == 'axis'] + list(v.args[1:2])
                if ax and isinstance(ax[0], ast.Constant):
                    r = {0: 'rho', 1: 'Lr'}.get(ax[0].value)
            elif isinstance(v, ast.Call) and isinstance(v.func, ast.Attribute) and v.func.attr == 'sum' and isinstance(v.func.value, ast.Name) \
                    and classify(v.func.value.id, seen + (name,)) == 'G':
                ax = [k.value for k in v.keywords if k.arg == 'axis'] + list(v.args[:1])
                if ax and isinstance(ax[0], ast.Constant):
                    r = {0: 'rho', 1: 'Lr'}.get(ax[0].value)
            elif isinstance(v, ast.BinOp) and isinstance(v.op, ast.Div) and norm(v.left) in ('1', '1.0') and isinstance(v.right, ast.Name) \
                    and classify(v.right.id, seen + (name,)) == 'Lr':
                r = 'invL'
            elif isinstance(v, ast.Call) and dotted(v.func) in ('np.dot', 'numpy.dot', 'np.matmul') and len(v.args) == 2 \
                    and all(isinstance(a, ast.Name) for a in v.args):
                l, rr = classify(v.args[0].id, seen + (name,)), classify(v.args[1].id, seen + (name,))
                if l == 'G' and rr in ('x', 'xnew'):
                    r = 'yhat:' + rr
                elif l == 'Lap' and rr in ('x', 'xnew'):
                    r = 'lapx:' + rr
            elif isinstance(v, ast.BinOp) and isinstance(v.op, ast.Mult):
                for p_, q_ in ((v.left, v.right), (v.right, v.left)):
                    if isinstance(p_, ast.Call) and dotted(p_.func) in ('np.dot', 'numpy.dot') and len(p_.args) == 2 and all(isinstance(a, ast.Name) for a in p_.args) \
                            and classify(p_.args[0].id, seen + (name,)) == 'Lap' and norm(q_) == 'beta_laplace':
                        r = 'pen:' + str(classify(p_.args[1].id, seen + (name,)))
            rs.add(r)
        if len(rs) == 1:
            return rs.pop()
        # the iterate: initial guess in several spellings / zeros for the new one
        return None
    out = {}
    for n in list(defs):
        out[n] = classify(n)
    out.update(role)
    return out, defs


def _pre(node):
    out = []

    def go(n):
        out.append(n)
        for c in ast.iter_child_nodes(n):
            go(c)
    go(node)
    return out


def _sart(run, mod, fn0, constrained):
    from ..inline import propagate
    from ..pathinterp import PathInterp
    run.describe('C11-R1', 'stored solution value is clipped at zero on every path')
    run.describe('C11-R2', 'SART update rule in exact normal form (both branches, penalty in both branches of the constrained variant)')
    K = '%s|%s|' % (mod.name, fn0.name)
    fn = fn0
    outer = [l for l in fn.body if isinstance(l, ast.For)]
    if len(outer) != 1:
        raise AnalysisError('%s: iteration loop not found' % fn.name)
    it = outer[0]
    cell_loops = [l for l in it.body if isinstance(l, ast.For)]
    if len(cell_loops) != 1:
        raise AnalysisError('%s: cell loop not found' % fn.name)
    cl = cell_loops[0]
    j = cl.target.id
    roles, defs = _roles(fn)
    # the iterates: the array returned is x; the array stored in the cell loop is xnew
    rets = [r for r in ast.walk(fn) if isinstance(r, ast.Return) and r.value is not None]
    xname = None
    if rets and isinstance(rets[-1].value, ast.Tuple) and isinstance(rets[-1].value.elts[0], ast.Name):
        xname = rets[-1].value.elts[0].id
    sts = [st for st in ast.walk(cl) if isinstance(st, ast.Assign) and isinstance(st.targets[0], ast.Subscript) and isinstance(st.targets[0].value, ast.Name)]
    if xname is None or not sts:
        run.subject('C11-R2')
        run.undecided('C11-R2', fn.name, 'iterate arrays not recognised')
        return None

    def root(n, seen=()):
        vs = defs.get(n, [])
        if len(vs) == 1 and isinstance(vs[0], ast.Name) and n not in seen:
            return root(vs[0].id, seen + (n,))
        return n
    xnew_root = root(sts[0].targets[0].value.id)
    for n in list(defs) + [xname]:
        r = root(n)
        if r == root(xname):
            roles[n] = 'x'
        elif r == xnew_root:
            roles[n] = 'xnew'
    # classification depends on x / xnew: redo for the derived arrays
    roles2, _ = _roles_with(fn, roles)
    roles = roles2
    idxvars = {}

    class SartEval(SymEval):
        def subscript(self, n):
            if isinstance(n.value, ast.Name) and n.value.id in roles and roles[n.value.id]:
                r = roles[n.value.id]
                sl = n.slice.elts if isinstance(n.slice, ast.Tuple) else [n.slice]
                ix = ','.join(self.ev(e).key() for e in sl)
                if r == 'invL':
                    return C(1) / L('Lr[%s]' % ix)
                if r.startswith('pen:'):
                    return L('beta_laplace') * L('lapx:%s[%s]' % (r[4:], ix))
                return L('%s[%s]' % (r, ix))
            return super().subscript(n)

        def call(self, n):
            if dotted(n.func) in ('max', 'fmax') and len(n.args) == 2:
                a, b2 = self.ev(n.args[0]), self.ev(n.args[1])
                z, o = (a, b2) if a.is_const() else (b2, a)
                if z.is_const() and z.const_value() == 0:
                    return L('CLIP0(%s)' % o.key())
            return super().call(n)
    synth = ast.FunctionDef(name='cell', args=ast.arguments(posonlyargs=[], args=[], kwonlyargs=[], kw_defaults=[], defaults=[]),
                            body=propagate(ast.FunctionDef(name='cell', args=fn.args, body=list(cl.body), decorator_list=[], lineno=cl.lineno)).body,
                            decorator_list=[], lineno=cl.lineno)
    xnew_names = tuple(n for n, r in roles.items() if r == 'xnew')
    pi = PathInterp(synth, (), {}, evaluator=SartEval, store_prefixes=tuple(x + '[' for x in xnew_names), max_paths=64)
    try:
        paths = pi.run()
    except RuntimeError as e:
        run.subject('C11-R2')
        run.undecided('C11-R2', fn.name, str(e))
        return None
    X = L('x[%s]' % j)
    pen = (L('beta_laplace') * L('lapx:x[%s]' % j)) if constrained else C(0)
    r1_bad, r2_bad, r2_undec, n_paths = [], [], [], 0
    obs_seen = False
    for p in paths:
        st = [s for s in p.stores]
        if len(st) != 1:
            r2_undec.append('a path stores the new value %d times' % len(st))
            continue
        key, val, tags, node, aug = st[0]
        n_paths += 1
        dec = dict(p.decisions)
        # --- R1: value is 0, CLIP0(..), or a clip test on the stored value is recorded as false on this path
        clipped = (val.is_const() and val.const_value() == 0) or any(l.startswith('CLIP0(') for l in val.leaves()) and len(val.leaves()) == 1
        if not clipped:
            # a conditional expression / test on the value itself: the decision is recorded with the value's own spelling
            vk = val.key()
            for k2, b2 in p.value_tests:
                if k2 == vk and b2:
                    clipped = True
        if not clipped:
            tests = [(k2, b2) for k2, b2 in dec.items() if re.match(r'^(\w+) (<|<=) 0(\.0)?$', k2) and not b2] + \
                    [(k2, b2) for k2, b2 in dec.items() if re.match(r'^(\w+) (>|>=) 0(\.0)?$', k2) and b2]
            clipped = bool(tests) and _tests_stored_value(synth, node, tests)
        if not clipped:
            r1_bad.append((dec, val))
            continue
        if val.is_const() or (len(val.leaves()) == 1 and list(val.leaves())[0].startswith('CLIP0(')):
            if val.is_const():
                continue
        # --- R2
        dens = _decision(dec, 'rho[%s]' % j, roles, positive=True)
        ray = None
        rk = [k2 for k2 in dec if re.search(r'\b(%s)\[' % '|'.join(re.escape(n) for n, r in roles.items() if r in ('Lr', 'invL')), k2)]
        if rk:
            ray = _decision(dec, None, roles, positive=False, keys=rk)
        if dens is None:
            r2_undec.append('no test of the ray density of the cell on a path: %s' % dec)
            continue
        want0 = X - pen
        if not dens:
            if not val.eq(want0):
                r2_bad.append(('rho_j = 0', val, want0))
            continue
        i = None
        for lp in ast.walk(synth):
            if isinstance(lp, ast.For) and isinstance(lp.target, ast.Name):
                i = lp.target.id
        if i is None:
            r2_undec.append('no loop over the observations')
            continue
        term = L('G[%s,%s]' % (i, j)) / L('Lr[%s]' % i) * (L('b[%s]' % i) - L('yhat:x[%s]' % i))
        if ray is None:
            r2_bad.append(('rows with zero ray length are not skipped', val, None))
            continue
        want1 = X + L('relaxation') / L('rho[%s]' % j) * (term if not ray else C(0)) - pen
        if not ray:
            obs_seen = True
        if not val.eq(want1):
            r2_bad.append(('rho_j > 0, L_i %s 0' % ('=' if ray else '!='), val, want1))
    run.subject('C11-R1')
    if r1_bad:
        run.fail('C11-R1', K + 'clip', mod.relpath, cl.lineno,
                 '%s stores the new solution value %s without clipping it at zero on the path %s: the solution can become negative'
                 % (fn.name, r1_bad[0][1].key()[:80], r1_bad[0][0]))
    elif n_paths:
        run.ok('C11-R1', fn.name + ' clip', 'every one of %d paths stores 0 or a value tested non-negative' % n_paths)
    run.subject('C11-R2')
    if r2_bad:
        what, val, want = r2_bad[0]
        run.fail('C11-R2', K + 'update', mod.relpath, cl.lineno,
                 '%s, case %s: the stored value is %s%s' % (fn.name, what, val.key()[:200], ('; documented: %s' % want.key()) if want is not None else ''))
    elif r2_undec or not obs_seen:
        run.undecided('C11-R2', fn.name + ' update', '; '.join(r2_undec[:2]) or 'the accumulating path was not reached')
    else:
        run.ok('C11-R2', fn.name + ' update', 'x + (relaxation / rho_j) sum_i (W_ij / L_i)(b_i - yhat_i)%s ; rho_j = 0: x%s'
               % ((' - penalty_j', ' - penalty_j') if constrained else ('', '')))
    # loops cover all cells / observations
    run.subject('C11-R2')
    n_s = [st.targets[0] for st in ast.walk(fn) if isinstance(st, ast.Assign) and isinstance(st.targets[0], ast.Tuple) and len(st.targets[0].elts) == 2
           and norm(st.value) == '%s.shape' % [a.arg for a in fn.args.args][0]]
    rng_ok = None
    if n_s:
        m_, n_ = [norm(e) for e in n_s[0].elts]
        inner = [l for l in ast.walk(cl) if isinstance(l, ast.For) and l is not cl]
        rng_ok = norm(cl.iter) == 'range(%s)' % n_ and all(norm(l.iter) == 'range(%s)' % m_ for l in inner)
    if rng_ok:
        run.ok('C11-R2', fn.name + ' loop ranges', 'all cells, all observations', sample=False)
    elif rng_ok is False:
        run.fail('C11-R2', K + 'ranges', mod.relpath, cl.lineno, '%s does not loop over every cell and every observation' % fn.name)
    else:
        run.undecided('C11-R2', fn.name + ' loop ranges', 'shape unpacking not recognised')
    # every iteration refreshes yhat = G . xnew and copies xnew into x
    run.subject('C11-R2')
    yh = [(t, v) for t, v, st in stores(it) if isinstance(t, ast.Name) and isinstance(st, ast.Assign) and roles.get(t.id, '') and
          str(roles.get(t.id)).startswith('yhat') and not any(x is st for x in ast.walk(cl))]
    refreshed = [v for t, v in yh if isinstance(v, ast.Call) and dotted(v.func) in ('np.dot', 'numpy.dot') and len(v.args) == 2 and
                 isinstance(v.args[1], ast.Name)]
    copy_ok = any(isinstance(t, ast.Subscript) and isinstance(t.value, ast.Name) and roles.get(t.value.id) == 'x' and
                  isinstance(v, (ast.Subscript, ast.Name)) and roles.get((v.value if isinstance(v, ast.Subscript) else v).id if isinstance(
                      (v.value if isinstance(v, ast.Subscript) else v), ast.Name) else '') == 'xnew'
                  for t, v, st in stores(it) if not any(x is st for x in ast.walk(cl)))
    if refreshed and all(roles.get(v.args[1].id) == 'xnew' or (roles.get(v.args[1].id) == 'x' and copy_ok and _after_copy(it, v)) for v in refreshed) and copy_ok:
        run.ok('C11-R2', fn.name + ' iterate update', 'yhat = W x_new ; x := x_new', sample=False)
    elif refreshed and copy_ok:
        run.fail('C11-R2', K + 'iterate', mod.relpath, it.lineno,
                 '%s refreshes yhat from %s, not from the new iterate: the next sweep uses stale predictions' % (fn.name, [norm(v) for v in refreshed]))
    elif not copy_ok and refreshed:
        run.fail('C11-R2', K + 'iterate', mod.relpath, it.lineno, '%s does not copy x_new into x every iteration' % fn.name)
    else:
        run.undecided('C11-R2', fn.name + ' iterate update', 'refresh of yhat not recognised')
    # the iterate that is returned is the one whose convergence was just tested: x := x_new stands before any exit from the iteration loop
    copies = [st for t, v, st in stores(it) if not any(x is st for x in ast.walk(cl)) and isinstance(t, ast.Subscript) and isinstance(t.value, ast.Name)
              and roles.get(t.value.id) == 'x']
    exits = [b for b in ast.walk(it) if isinstance(b, (ast.Break, ast.Return)) and not any(x is b for x in ast.walk(cl))]
    if copies and exits:
        run.subject('C11-R2')
        order = {id(n_): k_ for k_, n_ in enumerate(_pre(it))}
        top_copy = [c_ for c_ in copies if any(c_ is st_ for st_ in it.body)]
        early = [b for b in exits if not any(order[id(c_)] < order[id(b)] for c_ in top_copy)]
        if early:
            run.fail('C11-R2', K + 'exit-before-copy', mod.relpath, early[0].lineno,
                     '%s leaves the iteration loop (line %d) before x := x_new of that iteration: when the convergence test ends the run the iterate '
                     'returned is the previous one, not the one the reported convergence belongs to' % (fn.name, early[0].lineno))
        else:
            run.ok('C11-R2', fn.name + ' exit after copy', 'x := x_new precedes every exit of the iteration loop', sample=False)
    if constrained:
        run.subject('C11-R2')
        pens = [n for n, r in roles.items() if r and str(r).startswith('pen:')]
        inloop = [t.id for t, v, st in stores(it) if isinstance(t, ast.Name) and t.id in pens]
        if pens and all(roles[n] == 'pen:x' for n in pens) and inloop:
            run.ok('C11-R2', 'penalty', 'beta (Lap x), recomputed every iteration')
        elif pens and any(roles[n] != 'pen:x' for n in pens):
            run.fail('C11-R2', K + 'penalty', mod.relpath, it.lineno, 'penalty is computed from %s; documented: beta_laplace * (laplacian . x)' % sorted({roles[n] for n in pens}))
        elif pens and not inloop:
            run.fail('C11-R2', K + 'penalty', mod.relpath, it.lineno, 'the penalty is not recomputed inside the iteration loop')
        else:
            run.undecided('C11-R2', 'penalty', 'beta_laplace * (laplacian . x) not recognised')
    return dict(fn=fn, it=it, cl=cl)


def _after_copy(it, dotcall):
    return False


def _roles_with(fn, base):
    """second pass of _roles with the iterate names known"""
    roles, defs = _roles(fn)
    known = {n: r for n, r in base.items() if r in ('x', 'xnew')}
    # re-run classification with x / xnew seeded: simplest is to patch the helper's seed through parameters
    ps = [a.arg for a in fn.args.args]
    lap = ([p for p in ps if 'laplacian' in p] or [None])[0]
    seed = {ps[0]: 'G', [p for p in ps[1:] if p != lap][0]: 'b'}
    if lap:
        seed[lap] = 'Lap'
    seed.update(known)

    def classify(name, seen=()):
        if name in seed:
            return seed[name]
        if name in seen or name not in defs:
            return None
        rs = set()
        for v in defs[name]:
            r = None
            if isinstance(v, ast.Name):
                r = classify(v.id, seen + (name,))
            elif isinstance(v, ast.Call) and dotted(v.func) in ('np.sum', 'numpy.sum') and v.args and isinstance(v.args[0], ast.Name) \
                    and classify(v.args[0].id, seen + (name,)) == 'G':
                ax = [k.value for k in v.keywords if k.arg == 'axis'] + list(v.args[1:2])
                if ax and isinstance(ax[0], ast.Constant):
                    r = {0: 'rho', 1: 'Lr'}.get(ax[0].value)
            elif isinstance(v, ast.Call) and isinstance(v.func, ast.Attribute) and v.func.attr == 'sum' and isinstance(v.func.value, ast.Name) \
                    and classify(v.func.value.id, seen + (name,)) == 'G':
                ax = [k.value for k in v.keywords if k.arg == 'axis'] + list(v.args[:1])
                if ax and isinstance(ax[0], ast.Constant):
                    r = {0: 'rho', 1: 'Lr'}.get(ax[0].value)
            elif isinstance(v, ast.BinOp) and isinstance(v.op, ast.Div) and norm(v.left) in ('1', '1.0') and isinstance(v.right, ast.Name) \
                    and classify(v.right.id, seen + (name,)) == 'Lr':
                r = 'invL'
            elif isinstance(v, ast.Call) and dotted(v.func) in ('np.dot', 'numpy.dot', 'np.matmul') and len(v.args) == 2 \
                    and all(isinstance(a, ast.Name) for a in v.args):
                l, rr = classify(v.args[0].id, seen + (name,)), classify(v.args[1].id, seen + (name,))
                if l == 'G' and rr in ('x', 'xnew'):
                    r = 'yhat:x'      # whichever iterate it is computed from, inside the sweep it stands for the current prediction
                elif l == 'Lap' and rr in ('x', 'xnew'):
                    r = 'lapx:' + rr
            elif isinstance(v, ast.BinOp) and isinstance(v.op, ast.Mult):
                for p_, q_ in ((v.left, v.right), (v.right, v.left)):
                    if isinstance(p_, ast.Call) and dotted(p_.func) in ('np.dot', 'numpy.dot') and len(p_.args) == 2 and all(isinstance(a, ast.Name) for a in p_.args) \
                            and classify(p_.args[0].id, seen + (name,)) == 'Lap' and norm(q_) == 'beta_laplace':
                        r = 'pen:' + str(classify(p_.args[1].id, seen + (name,)))
            rs.add(r)
        rs.discard(None) if len(rs) > 1 and all(str(x).startswith('yhat') for x in rs if x) else None
        if len(rs) == 1:
            return rs.pop()
        return None
    out = {n: classify(n) for n in defs}
    out.update(seed)
    return out, defs


def _decision(dec, leaf, roles, positive, keys=None):
    """Truth of 'quantity > 0' (positive) or 'quantity == 0' (not positive) on the path, from the recorded decisions."""
    for k, b in dec.items():
        if keys is not None and k not in keys:
            continue
        m = re.match(r'^(.+?) (==|!=|>|<=|<|>=) 0(\.0)?$', k)
        if not m:
            continue
        base = m.group(1)
        arr = base.split('[')[0]
        if keys is None:
            if roles.get(arr) != 'rho':
                continue
        op = m.group(2)
        if positive:
            if op == '>':
                return b
            if op == '<=':
                return not b
            if op == '!=':
                return b
            if op == '==':
                return not b
        else:
            if op == '==':
                return b
            if op == '!=':
                return not b
            if op == '>':
                return not b
            if op == '<=':
                return b
    return None


def _tests_stored_value(synth, store_node, tests):
    """One of the recorded clip tests is on the local that is stored."""
    v = store_node.value if isinstance(store_node, ast.Assign) else None
    if isinstance(v, ast.Name):
        return any(k.split(' ')[0] == v.id for k, b in tests)
    return False


def _strip(fn):
    """Normalised statement texts with the penalty-specific parts removed."""
    txt = ast.unparse(fn)
    out = []
    for line in txt.splitlines():
        l = line.strip()
        if l.startswith(('def ', '@', '"""')) or not l:
            continue
        if re.match(r"^\w+: '[^']*'$", l):
            continue        # cdef declaration
        if 'grad_penalty' in l and '=' in l and not l.startswith(('x_j_new', 'if', 'else')):
            continue
        l = l.replace(' - grad_penalty_mv[jth_cell]', '')
        out.append(l)
    return out


def _siblings(run, mod, forms):
    run.describe('C11-R3', 'invert_sart and invert_constrained_sart identical modulo the penalty; stopping rule')
    a, b = mod.functions['invert_sart'], mod.functions['invert_constrained_sart']
    la, lb = _strip(a), _strip(b)
    # drop docstring lines (anything before the first assignment)
    def body(ls):
        for k, l in enumerate(ls):
            if l.startswith('m_observations'):
                return ls[k:]
        return ls
    la, lb = body(la), body(lb)
    run.subject('C11-R3')
    if la == lb:
        run.ok('C11-R3', 'sibling bodies', '%d statements identical after removing the penalty' % len(la))
    else:
        diff = [(x, y) for x, y in zip(la, lb) if x != y][:2] or [('length %d' % len(la), 'length %d' % len(lb))]
        # a textual difference is not by itself a behavioural one (R1, R2 and the stopping rule are decided per variant)
        run.undecided('C11-R3', 'sibling bodies', 'invert_sart and invert_constrained_sart differ beyond the penalty term: %s' % (diff,))
    for name in ('invert_sart', 'invert_constrained_sart'):
        fn = mod.functions[name]
        run.subject('C11-R3')
        brk = [n for n in ast.walk(fn) if isinstance(n, ast.Break)]
        ok = False
        for bnode in brk:
            f = facts(guards_of(fn, bnode) or [])
            if ('k', '>', '0') in f and any(a0[0].replace(' ', '') in ('np.abs(convergence[k]-convergence[k-1])', 'abs(convergence[k]-convergence[k-1])')
                                            and a0[1] == '<' and a0[2] == 'conv_tol' for a0 in f):
                ok = True
        conv = [norm(c.args[0]) for c in ast.walk(fn) if isinstance(c, ast.Call) and norm(c.func) == 'convergence.append']
        if ok and conv == ['(measurement_squared - y_hat_squared) / measurement_squared']:
            run.ok('C11-R3', name + ' stopping rule', '|c_k - c_(k-1)| < conv_tol for k > 0')
        else:
            run.fail('C11-R3', '%s|%s|stopping-rule' % (mod.name, name), mod.relpath, fn.lineno,
                     '%s does not stop on |c_k - c_(k-1)| < conv_tol for k > 0 with c = (|b|^2 - |yhat|^2) / |b|^2 (measure: %s)' % (name, conv))
        run.subject('C11-R3')
        ret = [r for r in ast.walk(fn) if isinstance(r, ast.Return)]
        if ret and norm(ret[-1].value) == '(solution, convergence)':
            run.ok('C11-R3', name + ' result', '(solution, convergence)', sample=False)
        else:
            run.fail('C11-R3', '%s|%s|result' % (mod.name, name), mod.relpath, fn.lineno, '%s returns %s' % (name, norm(ret[-1].value) if ret else None))


class _Stack:
    """vertical block matrix / vector [top; bottom] with top of m rows"""

    def __init__(self, top, bottom):
        self.top, self.bottom = top, bottom

    def map(self, f):
        return _Stack(f(self.top), f(self.bottom))

    def key(self):
        return '[%s ; %s]' % (self.top.key(), self.bottom.key())


class _HStack:
    def __init__(self, left, right):
        self.left, self.right = left, right


class _Wrong(Exception):
    pass


class _Undec(Exception):
    pass


def _transpose(v):
    if isinstance(v, _HStack):
        return _Stack(_transpose(v.left), _transpose(v.right))
    if isinstance(v, _Stack):
        return _HStack(_transpose(v.top), _transpose(v.bottom))
    if isinstance(v, Rat):
        if v.is_const():
            return v
        leaves = sorted(v.leaves())
        arr = [l for l in leaves if l.isupper() or l.endswith("'")]
        if len(arr) == 1:
            a0 = arr[0]
            t = a0[:-1] if a0.endswith("'") else (a0 if a0 == 'I' else a0 + "'")
            return v.subst({a0: L(t)})
        if not arr:
            return v
    raise _Undec('transpose of %s' % getattr(v, 'key', lambda: v)())


def _stack_eval(fn, solver, tik_given):
    """Abstractly run fn. Arrays are leaves W, B, T (I when the Tikhonov matrix is not given), scalars keep their names.
    Returns (solver arguments, returned tuple) with the solver result as leaves X*, R*."""
    w, b, alpha, tik = [a.arg for a in fn.args.args[:4]]
    env = {w: L('W'), b: L('B'), alpha: L('alpha'), tik: (L('T') if tik_given else None)}
    out = {}

    def full_slice(sl):
        els = sl.elts if isinstance(sl, ast.Tuple) else [sl]
        return all(isinstance(e, ast.Slice) and e.lower is None and e.upper is None and e.step is None for e in els)

    def row_part(sl):
        """'top' for [0:m(, :)] / [:m(, :)], 'bottom' for [m:(, :)]"""
        els = sl.elts if isinstance(sl, ast.Tuple) else [sl]
        e0 = els[0]
        if not isinstance(e0, ast.Slice) or e0.step is not None or not all(full_slice(x) for x in els[1:]):
            return None
        lo = None if e0.lower is None or norm(e0.lower) == '0' else ev(e0.lower)
        hi = None if e0.upper is None else ev(e0.upper)
        if lo is None and isinstance(hi, Rat) and hi.eq(L('m')):
            return 'top'
        if (hi is None or (isinstance(hi, Rat) and hi.eq(L('m') + L('n')))) and isinstance(lo, Rat) and lo.eq(L('m')):
            return 'bottom'
        # a row range expressed in m, n and constants that is neither of the two blocks
        okb = lambda v: v is None or (isinstance(v, Rat) and set(v.leaves()) <= {'m', 'n'})
        if okb(lo) and okb(hi):
            raise _Wrong('rows %s:%s of the stacked system are written; its blocks are rows 0:m (the geometry matrix / measurements) and '
                         'm:m+n (the scaled regularisation matrix / zeros)' % (norm(e0.lower) if e0.lower is not None else '', norm(e0.upper) if e0.upper is not None else ''))
        return None

    def seq(e):
        if isinstance(e, (ast.Tuple, ast.List)):
            return [ev(x) for x in e.elts]
        raise _Undec(norm(e))

    def ev(e):
        if isinstance(e, ast.Constant):
            if e.value is None:
                return None
            if isinstance(e.value, (int, float)) and not isinstance(e.value, bool):
                return C(e.value) if isinstance(e.value, int) else L(repr(e.value))
            raise _Undec(norm(e))
        if isinstance(e, ast.Name):
            if e.id in env:
                return env[e.id]
            raise _Undec('unbound %s' % e.id)
        if isinstance(e, ast.Attribute):
            if e.attr == 'T':
                return _transpose(ev(e.value))
            if e.attr == 'shape':
                return ('shape', ev(e.value))
            raise _Undec(norm(e))
        if isinstance(e, ast.UnaryOp) and isinstance(e.op, ast.USub):
            return _neg(ev(e.operand))
        if isinstance(e, ast.BinOp):
            l, r = ev(e.left), ev(e.right)
            return _arith(type(e.op), l, r, e)
        if isinstance(e, ast.Subscript):
            base = ev(e.value)
            if isinstance(base, tuple) and base and base[0] == 'result' and isinstance(e.slice, ast.Constant):
                return base[1][e.slice.value] if e.slice.value < len(base[1]) else L('_')
            if full_slice(e.slice):
                return base
            if isinstance(base, _Stack):
                part = row_part(e.slice)
                if part:
                    return getattr(base, part)
                sl_ = e.slice.elts if isinstance(e.slice, ast.Tuple) else None
                if sl_ and len(sl_) == 2 and full_slice(sl_[0]) and not full_slice(sl_[1]):
                    # a selection of columns of the stacked matrix: unknowns are removed from the system the solver sees
                    return _Stack(L('SEL(%s)[:, %s]' % (base.top.key(), norm(sl_[1]))), L('SEL(%s)[:, %s]' % (base.bottom.key(), norm(sl_[1]))))
            if isinstance(base, Rat):
                return L('SEL(%s)[%s]' % (base.key(), norm(e.slice)))
            raise _Undec(norm(e))
        if isinstance(e, ast.Call):
            d = dotted(e.func) or ''
            if d in ('np.identity', 'np.eye', 'numpy.identity', 'numpy.eye'):
                return L('I')
            if d in ('np.zeros', 'numpy.zeros', 'np.zeros_like'):
                a0 = e.args[0]
                if isinstance(a0, ast.Tuple):
                    rows = ev(a0.elts[0])
                else:
                    rows = ev(a0)
                if isinstance(rows, Rat) and rows.eq(L('m') + L('n')):
                    return _Stack(C(0), C(0))
                if isinstance(rows, Rat) and set(rows.leaves()) <= {'m', 'n'} and 'm' in rows.leaves() and 'n' in rows.leaves():
                    raise _Wrong('the stacked system is allocated with %s rows; it has m + n (m measurements, n regularisation rows)' % rows.key())
                return C(0)
            if d in ('np.asarray', 'np.array', 'np.asanyarray', 'np.ascontiguousarray', 'np.copy') and e.args:
                return ev(e.args[0])
            if d in ('np.vstack', 'np.row_stack') and len(e.args) == 1:
                xs = seq(e.args[0])
                if len(xs) == 2:
                    return _Stack(xs[0], xs[1])
            if d in ('np.concatenate', 'np.append', 'np.hstack'):
                ax = [k.value for k in e.keywords if k.arg == 'axis']
                axis = ax[0].value if ax and isinstance(ax[0], ast.Constant) else 0
                xs = seq(e.args[0]) if d != 'np.append' else [ev(e.args[0]), ev(e.args[1])]
                if d == 'np.hstack':
                    axis = 1
                if len(xs) == 2:
                    return _Stack(xs[0], xs[1]) if axis == 0 else _HStack(xs[0], xs[1])
            if d == solver:
                out['args'] = [ev(a) for a in e.args]
                return ('result', [L('X*'), L('R*'), L('_'), L('_')])
            if isinstance(e.func, ast.Attribute) and e.func.attr in ('max', 'min', 'sum', 'mean') and not e.args:
                v = ev(e.func.value)
                return L('%s(%s)' % (e.func.attr, v.key()))
            if isinstance(e.func, ast.Attribute) and e.func.attr in ('copy', 'astype', 'transpose') and e.func.attr != 'transpose':
                return ev(e.func.value)
            if isinstance(e.func, ast.Attribute) and e.func.attr == 'transpose' and not e.args:
                return _transpose(ev(e.func.value))
            if d in ('np.max', 'np.amax', 'max') and len(e.args) == 1:
                return L('max(%s)' % ev(e.args[0]).key())
            if d in ('np.transpose',) and len(e.args) == 1:
                return _transpose(ev(e.args[0]))
            return L('?%s' % norm(e)[:40])
        if isinstance(e, ast.Tuple):
            return tuple(ev(x) for x in e.elts)
        if isinstance(e, (ast.Compare, ast.BoolOp)):
            return L('?%s' % norm(e)[:40])
        raise _Undec(norm(e)[:60])

    def _neg(v):
        return v.map(_neg) if isinstance(v, _Stack) else -v

    def _arith(op, l, r, node):
        if isinstance(l, _Stack) and isinstance(r, Rat):
            return l.map(lambda x: _arith(op, x, r, node))
        if isinstance(r, _Stack) and isinstance(l, Rat) and op in (ast.Mult, ast.Add):
            return r.map(lambda x: _arith(op, l, x, node))
        if isinstance(l, Rat) and isinstance(r, Rat):
            return {ast.Add: lambda: l + r, ast.Sub: lambda: l - r, ast.Mult: lambda: l * r, ast.Div: lambda: l / r}.get(op, lambda: (_ for _ in ()).throw(_Undec(norm(node))))()
        raise _Undec(norm(node)[:60])

    def block(stmts):
        for st in stmts:
            if isinstance(st, (ast.Expr, ast.Pass)):
                continue
            if isinstance(st, ast.Return):
                out['ret'] = ev(st.value) if st.value is not None else None
                return True
            if isinstance(st, ast.Assign) and len(st.targets) == 1:
                t = st.targets[0]
                if isinstance(t, ast.Tuple):
                    v = ev(st.value)
                    if isinstance(v, tuple) and v and v[0] == 'shape':
                        if v[1] is env[w] or (isinstance(v[1], Rat) and v[1].eq(L('W'))):
                            env[t.elts[0].id], env[t.elts[1].id] = L('m'), L('n')
                            continue
                        raise _Undec('shape of %s' % norm(st.value))
                    if isinstance(v, tuple) and v and v[0] == 'result':
                        for k, x in enumerate(t.elts):
                            if isinstance(x, ast.Name):
                                env[x.id] = v[1][k] if k < len(v[1]) else L('_')
                        continue
                    raise _Undec(norm(st)[:60])
                if isinstance(t, ast.Name):
                    env[t.id] = ev(st.value)
                    continue
                if isinstance(t, ast.Subscript) and isinstance(t.value, ast.Name):
                    base = env.get(t.value.id)
                    v = ev(st.value)
                    if isinstance(base, _Stack):
                        part = row_part(t.slice)
                        if part:
                            env[t.value.id] = _Stack(v if part == 'top' else base.top, v if part == 'bottom' else base.bottom)
                            continue
                    raise _Undec(norm(st)[:60])
                raise _Undec(norm(st)[:60])
            if isinstance(st, ast.If):
                t = st.test
                neg = False
                if isinstance(t, ast.UnaryOp) and isinstance(t.op, ast.Not):
                    t, neg = t.operand, True
                if isinstance(t, ast.Compare) and len(t.ops) == 1 and norm(t.left) == tik and norm(t.comparators[0]) == 'None' \
                        and isinstance(t.ops[0], (ast.Is, ast.IsNot)):
                    truth = (not tik_given) if isinstance(t.ops[0], ast.Is) else tik_given
                    if neg:
                        truth = not truth
                    if block(st.body if truth else st.orelse):
                        return True
                    continue
                if all(isinstance(x, ast.Raise) for x in st.body) and not st.orelse:
                    continue       # argument validation
                raise _Undec('condition %s' % norm(st.test)[:60])
            raise _Undec(norm(st)[:60])
        return False
    block(fn.body)
    return out


def _stacked(run, prog):
    run.describe('C11-R4', 'stacked system [W; alpha L] x = [b; 0]; common scaling of both NNLS arguments; solver output returned unmodified')
    for modname, fname, solver in (('cherab.tools.inversions.nnls', 'invert_regularised_nnls', 'scipy.optimize.nnls'),
                                   ('cherab.tools.inversions.lstsq', 'invert_regularised_lstsq', 'np.linalg.lstsq')):
        mi = prog.modules[modname]
        fn = mi.functions.get(fname)
        if fn is None:
            raise AnalysisError('anchored function vanished: %s' % fname)
        run.functions += 1
        K = '%s|%s|' % (modname, fname)
        for tik_given in (False, True):
            tag = '%s (%s)' % (fname, 'Tikhonov matrix given' if tik_given else 'default identity')
            run.subject('C11-R4')
            try:
                out = _stack_eval(fn, solver, tik_given)
            except _Wrong as e:
                run.fail('C11-R4', K + 'blocks', mi.relpath, fn.lineno, '%s: %s' % (tag, e))
                continue
            except _Undec as e:
                run.undecided('C11-R4', tag, 'cannot interpret %s' % e)
                continue
            if 'args' not in out or len(out['args']) < 2 or 'ret' not in out:
                run.fail('C11-R4', K + 'solver-call', mi.relpath, fn.lineno, '%s does not call %s and return its result' % (fname, solver))
                continue
            A, Bv = out['args'][0], out['args'][1]
            Lm = L('T') if tik_given else L('I')
            if not isinstance(A, _Stack) or not isinstance(Bv, _Stack):
                run.undecided('C11-R4', tag, 'solver arguments are not recognised as stacked blocks')
                continue
            opaque = [l for blk in (A.top, A.bottom, Bv.top, Bv.bottom) for l in blk.leaves() if l.startswith('?')]
            sel = [l for blk in (A.top, A.bottom, Bv.top, Bv.bottom) for l in blk.leaves() if l.startswith('SEL(')]
            if sel and not tik_given and all('[:, ' in l for l in sel):
                # with the identity as regulariser an unknown that is removed because nothing measures it has its optimum at zero anyway:
                # not a violation of this case; the case with a given Tikhonov matrix decides
                run.undecided('C11-R4', tag, 'columns of the system are selected (%s); harmless only for a diagonal regulariser' % sel[0][:40])
                continue
            if sel:
                run.fail('C11-R4', K + 'stacked-system', mi.relpath, fn.lineno,
                         '%s: the solver is given %s: a selection of rows/columns instead of the whole of W, b and L, so the minimised objective '
                         'and the reported norm are not those of |Wx-b|^2 + alpha^2 |Lx|^2' % (tag, sel[0][:80]))
                continue
            if opaque:
                run.undecided('C11-R4', tag, 'uninterpreted terms in the solver arguments: %s' % opaque[:2])
                continue
            # common scale s: A.top = W / s
            probs = []
            s_ = None
            try:
                s_ = L('W') / A.top
            except ZeroDivisionError:
                probs.append('the upper block of the matrix is zero')
            if s_ is not None:
                if any(l.startswith('SEL(') or l in ('W', "W'") for l in s_.leaves()):
                    probs.append('the upper block of the matrix is %s, not W' % A.top.key())
                else:
                    if not (A.bottom * s_).eq(L('alpha') * Lm):
                        probs.append('the lower block of the matrix is %s, expected alpha * %s%s' % (
                            A.bottom.key(), 'L' if tik_given else 'I', '' if s_.eq(C(1)) else ' / %s' % s_.key()))
                    if not (Bv.top * s_).eq(L('B')):
                        probs.append('the upper block of the right-hand side is %s, expected b%s' % (Bv.top.key(), '' if s_.eq(C(1)) else ' / %s' % s_.key()))
                    if not (Bv.bottom.is_const() and Bv.bottom.const_value() == 0):
                        probs.append('the lower block of the right-hand side is %s, expected zeros' % Bv.bottom.key())
            if probs:
                run.fail('C11-R4', K + 'stacked-system', mi.relpath, fn.lineno, '%s: %s' % (tag, '; '.join(probs)))
                continue
            run.ok('C11-R4', tag + ' stacked system', '[W; alpha L] / s, [b; 0] / s with s = %s' % s_.key())
            run.subject('C11-R4')
            ret = out['ret']
            if not (isinstance(ret, tuple) and len(ret) == 2 and all(isinstance(x, Rat) for x in ret)):
                run.undecided('C11-R4', tag + ' result', 'returned value not recognised')
            elif not ret[0].eq(L('X*')):
                run.fail('C11-R4', K + 'solution-modified', mi.relpath, fn.lineno, '%s returns %s as the solution instead of the solver output' % (tag, ret[0].key()))
            elif solver.endswith('nnls') and not ret[1].eq(L('R*') * s_):
                run.fail('C11-R4', K + 'scaling', mi.relpath, fn.lineno,
                         '%s: the system is divided by %s but the returned norm is %s: the reported residual norm is not that of the solution' % (tag, s_.key(), ret[1].key()))
            elif not solver.endswith('nnls') and not ret[1].eq(L('R*')):
                run.fail('C11-R4', K + 'solver-call', mi.relpath, fn.lineno, '%s returns %s as the residuals' % (tag, ret[1].key()))
            else:
                run.ok('C11-R4', tag + ' result', 'solver output returned, norm rescaled by the same factor')


MUTANTS = [
    dict(name='convergence-exit-before-the-copy', file='cherab/tools/inversions/sart.pyx',
         find="        # Set the new solution to be the old solution and get ready to repeat\n        solution_mv[:] = solution_new_mv[:]\n\n        # Check for convergence\n        if k > 0:\n            if np.abs(convergence[k]-convergence[k-1]) < conv_tol:\n                break\n",
         replace="        # Check for convergence\n        if k > 0:\n            if np.abs(convergence[k]-convergence[k-1]) < conv_tol:\n                break\n\n        solution_mv[:] = solution_new_mv[:]\n", occurrence=1, of=2, expect='C11-R2'),
    dict(name='tikhonov-matrix-scaled-in-place', file='cherab/tools/inversions/lstsq.py', find="    tikhonov_matrix = alpha * tikhonov_matrix\n", replace="    tikhonov_matrix *= alpha\n", expect='C11-R5'),
    dict(name='unseen-voxels-dropped-from-the-system', file='cherab/tools/inversions/nnls.py',
         find="    x_vector, rnorm = scipy.optimize.nnls(c_matrix / vmax, d_vector / vmax, **kwargs)\n",
         replace="    seen = np.any(w_matrix != 0, axis=0)\n    x_vector = np.zeros(n)\n    x_vector[seen], rnorm = scipy.optimize.nnls(c_matrix[:, seen] / vmax, d_vector / vmax, **kwargs)\n", expect='C11-R4'),
    dict(name='stacked-system-typed-after-the-geometry-matrix', file='cherab/tools/inversions/nnls.py', find="    c_matrix = np.zeros((m+n, n))\n", replace="    c_matrix = np.zeros_like(w_matrix, shape=(m+n, n))\n", expect='C11-R5'),
    dict(name='ray-sums-memoised-by-identity', file='cherab/tools/inversions/sart.pyx',
         find="    cell_ray_densities = np.sum(geometry_matrix, axis=0)\n", replace="    global _LAST_G, _LAST_RHO\n    if geometry_matrix is not _LAST_G:\n        _LAST_RHO = np.sum(geometry_matrix, axis=0)\n        _LAST_G = geometry_matrix\n    cell_ray_densities = _LAST_RHO\n", occurrence=0, of=2, expect='C11-K'),
    dict(name='lstsq-tikhonov-block-transposed', file=LSTSQ, find="    c_matrix = np.zeros((m+n, n))\n    c_matrix[0:m, :] = w_matrix[:, :]\n    c_matrix[m:, :] = tikhonov_matrix[:, :]\n", replace="    c_matrix = np.concatenate((w_matrix.T, tikhonov_matrix), axis=1).T\n", expect='C11-R4'),
    dict(name='nnls-drops-unobserved-rows', file=NNLS, find="    m, n = w_matrix.shape\n", replace="    observed = np.any(w_matrix != 0, axis=1)\n    w_matrix = w_matrix[observed, :]\n    b_vector = b_vector[observed]\n    m, n = w_matrix.shape\n", expect='C11-R4'),
    dict(name='clip-removed', file=SART, find="            if x_j_new < 0:\n                x_j_new = 0.0\n", replace="", occurrence=0, of=2, expect='C11-R1'),
    dict(name='penalty-sign', file=SART, find="x_j_new = x_j + relax_over_density * obs_diff - grad_penalty_mv[jth_cell]", replace="x_j_new = x_j + relax_over_density * obs_diff + grad_penalty_mv[jth_cell]", expect='C11-R2'),
    dict(name='relaxation-times-density', file=SART, find="relax_over_density = relaxation / cell_ray_densities_mv[jth_cell]", replace="relax_over_density = relaxation * cell_ray_densities_mv[jth_cell]", occurrence=1, of=2, expect='C11-R2'),
    dict(name='penalty-missing-in-else', file=SART, find="                x_j_new = x_j - grad_penalty_mv[jth_cell]", replace="                x_j_new = x_j", expect='C11-R'),
    dict(name='nnls-only-d-scaled', file=NNLS, find="scipy.optimize.nnls(c_matrix / vmax, d_vector / vmax, **kwargs)", replace="scipy.optimize.nnls(c_matrix, d_vector / vmax, **kwargs)", expect='C11-R4'),
    dict(name='residual-sign', file=SART, find="obs_diff += prop_ray_length * (obs_vector_mv[ith_obs] - y_hat_vector_mv[ith_obs])", replace="obs_diff += prop_ray_length * (y_hat_vector_mv[ith_obs] - obs_vector_mv[ith_obs])", occurrence=0, of=2, expect='C11-R2'),
    dict(name='stop-on-first-iteration', file=SART, find="        if k > 0:\n", replace="        if k >= 0:\n", occurrence=0, of=2, expect='C11-R3'),
    dict(name='yhat-from-old-solution', file=SART, find="        y_hat_vector = np.dot(geometry_matrix, solution_new)", replace="        y_hat_vector = np.dot(geometry_matrix, solution)", occurrence=1, of=2, expect='C11-R'),
    dict(name='tikhonov-not-scaled', file=LSTSQ, find="    tikhonov_matrix = alpha * tikhonov_matrix\n", replace="", expect='C11-R4'),
    dict(name='nnls-norm-not-rescaled', file=NNLS, find="    return x_vector, rnorm * vmax", replace="    return x_vector, rnorm", expect='C11-R4'),
    dict(name='ray-lengths-wrong-axis', file=SART, find="    ray_lengths = np.sum(geometry_matrix, axis=1)", replace="    ray_lengths = np.sum(geometry_matrix, axis=0)", occurrence=0, of=2, expect='C11-R2'),
]
TWINS = [
    dict(name='lstsq-vstack', file=LSTSQ, find="    c_matrix = np.zeros((m+n, n))\n    c_matrix[0:m, :] = w_matrix[:, :]\n    c_matrix[m:, :] = tikhonov_matrix[:, :]\n", replace="    c_matrix = np.vstack((w_matrix, tikhonov_matrix))\n"),
    dict(name='sart-positive-length-guard', file=SART, find="                    if ray_lengths_mv[ith_obs] == 0:\n                        continue\n                    prop_ray_length = geometry_matrix_mv[ith_obs, jth_cell] * inv_ray_lengths_mv[ith_obs]  # fraction of ray length/volume\n                    obs_diff += prop_ray_length * (obs_vector_mv[ith_obs] - y_hat_vector_mv[ith_obs])",
         replace="                    if ray_lengths_mv[ith_obs] != 0:\n                        obs_diff += geometry_matrix_mv[ith_obs, jth_cell] / ray_lengths_mv[ith_obs] * (obs_vector_mv[ith_obs] - y_hat_vector_mv[ith_obs])"),
    dict(name='penalty-hoisted', file=SART, find="        grad_penalty = np.dot(laplacian_matrix, solution) * beta_laplace", replace="        grad_penalty = np.dot(laplacian_matrix, solution) * beta_laplace  # (Lap x) scaled"),
]
