"""Shared rule for the 'charged sum' functions (beam stopping, beam emission rate, beam population):

    sum_i (Z_i n_i) c_i(E_int,i , sum_j Z_j^2 n_j / Z_i , T_i)      [ / sum_i Z_i n_i ]

Decided on the propagated body (single-definition locals inlined), with the species / coefficient expressions derived from how
they are used (receiver of .distribution.density, receiver of .evaluate), so neither local names nor the way the (species,
coefficient) pairs are unpacked matter.  The equivalent-density sum must be complete before it is used: a sum that is still
being accumulated in the loop that reads it is a partial, order-dependent sum (violation)."""
import ast

from ..program import dotted, norm
from ..algebra import C, L, run_block
from ..exprcmp import EmEval, expr
from ..inline import propagate


def _recv(node):
    return norm(node)


def charged_sum(run, rule, ci, fn0, mean, energy_fn):
    """energy_fn: name of the conversion applied to the relative speed ('EvAmuToMS.inv' or 'ms_to_evamu')."""
    K = '%s|%s|%s|' % (ci.mod.name, ci.name, fn0.name)
    # every term of the sum is computed from the arguments and its own species: nothing an iteration computes for itself (the relative
    # velocity) may be written back into a name the next iteration starts from
    from ._purity import carried_between_iterations
    for st_, n_ in carried_between_iterations(fn0):
        run.subject(rule)
        run.fail(rule, K + 'carried:' + n_, ci.mod.relpath, st_.lineno,
                 "%s.%s rebinds '%s' inside the loop over the species from its own previous value (%s) and then uses it for the term of that "
                 "species: the term of each species contains what was subtracted for the species before it" % (ci.name, fn0.name, n_, norm(st_)[:60]))
    from ._purity import check_sum, sum_accumulators
    for nm_ in sorted({a[0] for a in sum_accumulators(fn0)}):
        check_sum(run, rule, K + 'sum', ci.mod.relpath, fn0, nm_, '%s.%s' % (ci.name, fn0.name))
    fn = propagate(fn0)
    x, y, z, bv = [a.arg for a in fn.args.args[1:5]]
    XYZ = '(%s, %s, %s)' % (x, y, z)
    loops = [l for l in fn.body if isinstance(l, ast.For)]
    run.subject(rule)
    if not loops or len({norm(l.iter) for l in loops}) != 1:
        run.undecided(rule, '%s.%s' % (ci.name, fn.name), 'loops over the species data not recognised')
        return
    # accumulators per loop
    def accs(lp):
        return [st for st in ast.walk(lp) if isinstance(st, ast.AugAssign) and isinstance(st.target, ast.Name) and isinstance(st.op, (ast.Add, ast.Sub))] + \
               [st for st in ast.walk(lp) if isinstance(st, ast.Assign) and isinstance(st.targets[0], ast.Name) and isinstance(st.value, ast.BinOp)
                and isinstance(st.value.op, ast.Add) and norm(st.targets[0]) in (norm(st.value.left), norm(st.value.right))]
    # the loop that evaluates the coefficients
    main = None
    for lp in loops:
        calls = [c for c in ast.walk(lp) if isinstance(c, ast.Call) and isinstance(c.func, ast.Attribute) and c.func.attr == 'evaluate' and len(c.args) == 3]
        if calls:
            main, call = lp, calls[0]
    if main is None:
        run.undecided(rule, '%s.%s' % (ci.name, fn.name), 'no coefficient evaluation with three arguments found')
        return
    dens_calls = [c for c in ast.walk(main) if isinstance(c, ast.Call) and isinstance(c.func, ast.Attribute) and c.func.attr == 'density'
                  and isinstance(c.func.value, ast.Attribute) and c.func.value.attr == 'distribution']
    if not dens_calls:
        run.undecided(rule, '%s.%s' % (ci.name, fn.name), 'species density not sampled in the coefficient loop')
        return
    SP = _recv(dens_calls[0].func.value.value)
    CF = _recv(call.func.value)
    names_main = {norm(st.target if isinstance(st, ast.AugAssign) else st.targets[0]) for st in accs(main)}
    # the equivalent-density sum: a name read by the second argument of the coefficient
    arg1_names = {n.id for n in ast.walk(call.args[1]) if isinstance(n, ast.Name)}
    grew = True
    while grew:       # through locals of the loop body (the sum itself is assigned more than once, so propagate() leaves such a local)
        grew = False
        for st in ast.walk(main):
            if isinstance(st, ast.Assign) and isinstance(st.targets[0], ast.Name) and st.targets[0].id in arg1_names:
                more = {n.id for n in ast.walk(st.value) if isinstance(n, ast.Name)} - arg1_names
                if more:
                    arg1_names |= more
                    grew = True
    ds_in_main = sorted(arg1_names & names_main)
    if ds_in_main:
        run.fail(rule, K + 'partial-sum', ci.mod.relpath, main.lineno,
                 "%s.%s evaluates the coefficients with '%s' while that sum is still being accumulated in the same loop: each species sees only the "
                 "contribution of the species listed before it, so the result depends on the order of the composition; documented: the complete sum "
                 "sum_j Z_j^2 n_j" % (ci.name, fn.name, ds_in_main[0]))
        return
    others = [l for l in loops if l is not main and l.lineno < main.lineno]
    ds = None
    ok1 = False
    for lp in others:
        for st in accs(lp):
            nm = norm(st.target if isinstance(st, ast.AugAssign) else st.targets[0])
            if nm in arg1_names:
                ds = nm
                e1 = EmEval({nm: L('DS0')})
                run_block(e1, lp.body)
                dcs = [c for c in ast.walk(lp) if isinstance(c, ast.Call) and isinstance(c.func, ast.Attribute) and c.func.attr == 'density']
                if dcs and isinstance(dcs[0].func.value, ast.Attribute):
                    spn = dcs[0].func.value.value
                    z1 = e1.ev(ast.Attribute(value=spn, attr='charge', ctx=ast.Load()))
                    want = L('DS0') + z1 * z1 * e1.ev(dcs[0])
                    ok1 = e1.env.get(nm) is not None and e1.env[nm].eq(want) and [norm(a_) for a_ in dcs[0].args] == [x, y, z]
                else:
                    ok1 = False
                got1 = e1.env.get(nm)
    if ds is None:
        run.undecided(rule, '%s.%s' % (ci.name, fn.name), 'accumulation of the equivalent-density sum not recognised')
        return
    if not ok1:
        run.fail(rule, K + 'density-sum', ci.mod.relpath, fn0.lineno,
                 '%s.%s: the equivalent-density sum accumulates %s; documented: sum_j Z_j^2 n_j' % (ci.name, fn.name, (got1 - L('DS0')).key()[:120] if got1 is not None else None))
        return
    env0 = {ds: L('DS')}
    acc_names = sorted(names_main)
    for a in acc_names:
        env0[a] = L('ACC_' + a)
    e2 = EmEval(env0)
    run_block(e2, main.body)
    spn = dens_calls[0].func.value.value
    dist = ast.Attribute(value=spn, attr='distribution', ctx=ast.Load())
    xyz = [ast.Name(id=v_, ctx=ast.Load()) for v_ in (x, y, z)]
    N = e2.ev(ast.Call(func=ast.Attribute(value=dist, attr='density', ctx=ast.Load()), args=xyz, keywords=[]))
    T = e2.ev(ast.Call(func=ast.Attribute(value=dist, attr='effective_temperature', ctx=ast.Load()), args=xyz, keywords=[]))
    Z = e2.ev(ast.Attribute(value=spn, attr='charge', ctx=ast.Load()))
    a = [e2.ev(v) for v in call.args]
    cleaf = L('%s.evaluate(%s)' % (e2.ev(call.func.value).key() if isinstance(call.func.value, (ast.Name, ast.Attribute, ast.Subscript)) and dotted(call.func.value) in e2.env else CF,
                                  ', '.join(v.key() for v in a)))
    cval = e2.ev(call)
    terms = {n: e2.env[n] - L('ACC_' + n) for n in acc_names}
    num = [n for n, t in terms.items() if t.eq(N * Z * cval)]
    den = [n for n, t in terms.items() if t.eq(N * Z)]
    # the interaction energy: energy_fn(...) of something computed from the beam velocity and this species' bulk velocity
    seen_txt, work, seen_names = [], [call.args[0]], set()
    while work:
        e_ = work.pop()
        seen_txt.append(norm(e_))
        for n_ in ast.walk(e_):
            if isinstance(n_, ast.Name) and n_.id not in seen_names:
                seen_names.add(n_.id)
                for st in ast.walk(main):
                    if isinstance(st, ast.Assign) and isinstance(st.targets[0], ast.Name) and st.targets[0].id == n_.id:
                        work.append(st.value)
                    elif isinstance(st, ast.AnnAssign) and st.value is not None and isinstance(st.target, ast.Name) and st.target.id == n_.id:
                        work.append(st.value)        # a typed local with an initialiser (cdef Vector3D v = ...)
    alltxt = ' '.join(seen_txt)
    e_ok = energy_fn + '(' in alltxt and '.bulk_velocity(' in alltxt and bv in seen_names
    args_ok = a[1].eq(L('DS') / Z) and a[2].eq(T) and e_ok
    rets = [r for r in ast.walk(fn) if isinstance(r, ast.Return) and r.value is not None]
    ret_ok = False
    if rets:
        rv = norm(rets[-1].value).replace(' ', '')
        if mean:
            ret_ok = bool(num) and bool(den) and rv == '%s/%s' % (num[0], den[0])
        else:
            ret_ok = bool(num) and rv == num[0]
    if args_ok and num and ret_ok and (den or not mean):
        run.ok(rule, '%s.%s' % (ci.name, fn.name), 'sum (Z n) c(E_int, sum Z^2 n / Z, T)%s' % (' / sum (Z n)' if mean else ''))
    elif not args_ok:
        run.fail(rule, K + 'arguments', ci.mod.relpath, call.lineno,
                 '%s.%s evaluates the coefficient with (%s); documented: (interaction energy of the species, sum_j Z_j^2 n_j / Z_i, T_i)' % (
                     ci.name, fn.name, ', '.join(v.key()[:60] for v in a)))
    else:
        run.fail(rule, K + 'charged-sum', ci.mod.relpath, main.lineno,
                 '%s.%s: per species it accumulates %s and returns %s; documented: sum_i (Z_i n_i) c_i(...)%s' % (
                     ci.name, fn.name, {n: t.key()[:80] for n, t in terms.items()}, norm(rets[-1].value) if rets else None, ' / sum_i Z_i n_i' if mean else ''))
