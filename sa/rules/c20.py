"""C20 -- derivative stencils and the ADMT operator (DESIGN section 5, C20).

R1: the stencil loop body of generate_derivative_operators is partially
    evaluated for each of the 9 admissible boundary configurations; rows are maps
    neighbour offset -> rational; moment conditions are exact rational identities.
R3-R6: calculate_admt is evaluated symbolically (exact rational functions in the
    jet variables psi_x .. psi_yy, Dperp, Dpar and their first derivatives) and
    compared with div(D grad f) in cylindrical geometry.
"""
import ast
import itertools
from fractions import Fraction as F

from ..program import Program, dotted, norm
from ..report import AnalysisError
from ..algebra import SymEval, C, L, Rat, deriv, coeff_of, Undecided

FILE = 'cherab/tools/inversions/admt_utils.py'
OPS = ('Dx', 'Dy', 'Dxx', 'Dxy', 'Dyy')


class KeyErr(Exception):
    pass


class Unsupported(Exception):
    pass


def _stencil_case(loop, case, loopvar):
    """Abstractly run the loop body for one boundary configuration.
    case: frozenset of missing sides.  Returns {op: {(dix, diy): Fraction}}."""
    env = {loopvar: (0, 0)}
    mats = {o: {} for o in OPS}

    def exists(dix, diy):
        if dix < 0 and 'left' in case:
            return False
        if dix > 0 and 'right' in case:
            return False
        if diy > 0 and 'bottom' in case:   # iy + 1 is documented as *below*
            return False
        if diy < 0 and 'top' in case:
            return False
        return True

    def ev(n):
        if isinstance(n, ast.Constant):
            return n.value
        if isinstance(n, ast.Name):
            if n.id not in env:
                raise Unsupported('unbound name %s' % n.id)
            return env[n.id]
        if isinstance(n, ast.Attribute) and norm(n) in ('np.nan', 'numpy.nan'):
            return None
        if isinstance(n, ast.Tuple):
            return tuple(ev(e) for e in n.elts)
        if isinstance(n, ast.UnaryOp) and isinstance(n.op, ast.USub):
            return -ev(n.operand)
        if isinstance(n, ast.UnaryOp) and isinstance(n.op, ast.Not):
            return not ev(n.operand)
        if isinstance(n, ast.BinOp):
            a, b = ev(n.left), ev(n.right)
            if isinstance(n.op, ast.Add):
                return a + b
            if isinstance(n.op, ast.Sub):
                return a - b
            if isinstance(n.op, ast.Mult):
                return a * b
            if isinstance(n.op, ast.Div):
                return F(a) / F(b)
        if isinstance(n, ast.BoolOp):
            vals = [ev(v) for v in n.values]
            return all(vals) if isinstance(n.op, ast.And) else any(vals)
        if isinstance(n, ast.Subscript):
            base = norm(n.value)
            if base == 'grid_index_2d_to_1d_map':
                ix, iy = ev(n.slice)
                if not exists(ix, iy):
                    raise KeyErr()
                return (ix, iy)
            if base == 'grid_index_1d_to_2d_map':
                return (0, 0)
        raise Unsupported('expression %s' % norm(n))

    def ex(stmts):
        for st in stmts:
            if isinstance(st, ast.Assign):
                val = ev(st.value)
                for t in st.targets:
                    if isinstance(t, ast.Tuple):
                        for e, v in zip(t.elts, val):
                            env[e.id] = v
                    elif isinstance(t, ast.Name):
                        env[t.id] = val
                    elif isinstance(t, ast.Subscript) and isinstance(t.value, ast.Name) and t.value.id in OPS:
                        row, col = ev(t.slice)
                        if row != (0, 0):
                            raise Unsupported('store to a row other than the current cell: %s' % norm(st))
                        if col is None:
                            raise Unsupported('NAN-COLUMN store through an absent neighbour: %s' % norm(st))
                        mats[t.value.id][col] = F(val)
                    else:
                        raise Unsupported('assignment %s' % norm(st))
            elif isinstance(st, ast.Try):
                try:
                    ex(st.body)
                except KeyErr:
                    if len(st.handlers) != 1 or norm(st.handlers[0].type) != 'KeyError':
                        raise Unsupported('handler of %s' % norm(st.body[0]))
                    ex(st.handlers[0].body)
                else:
                    ex(st.orelse)
            elif isinstance(st, ast.If):
                ex(st.body if ev(st.test) else st.orelse)
            elif isinstance(st, (ast.Pass, ast.Expr)):
                pass
            else:
                raise Unsupported('statement %s' % type(st).__name__)
    ex(loop.body)
    return mats


def _moment(row, px, py):
    # offset (dix, diy): x offset = dix ; y offset = -diy (iy + 1 is below => y decreases)
    return sum(c * (F(o[0]) ** px) * (F(-o[1]) ** py) for o, c in row.items())


def check(run):
    prog = Program()
    mi = prog.load(FILE)
    run.use_file(FILE)
    run.explanation = (
        'Decides (R1) for every one of the 9 admissible boundary configurations of a cell that each generated stencil row '
        'annihilates constants, Dx/Dy are exact on linear fields, Dxy on bilinear fields and Dxx/Dyy on quadratics in '
        'interior cells -- a row depends only on the configuration, so this covers all grids >= 2x2 -- and the scaling by '
        'dx, dy; (R3) the isotropic reduction of calculate_admt to the cylindrical Laplacian identically in the flux '
        'derivatives; (R4) the assembly cx Dx + cy Dy + cxx Dxx + 2 cxy Dxy + cyy Dyy times sqrt(dx dy); (R5) that cx, cy '
        'equal the formal divergence terms d_x cxx + d_y cxy + cxx/R, d_x cxy + d_y cyy + cxy/R of the tensor '
        'Dperp n n^T + Dpar t t^T for arbitrary smooth psi and D (exact rational identities in jet variables). '
        'Does not decide convergence on curved fields or finiteness where grad psi vanishes.')
    run.assumptions = ['floating-point arithmetic treated as exact real arithmetic',
                       "orientation convention: 'below' is iy + 1 (as the variable names document)"]
    run.functions = 2
    _stencils(run, prog, mi)
    _spacing_axes(run, mi)
    _admt(run, prog, mi)
    _inputs_kept(run, mi)
    from ..cachekey import check_caches
    check_caches(run, [mi], 'C20-K', prog=prog)
    run.include('C11', {'cherab/tools/inversions/nnls.py', 'cherab/tools/inversions/lstsq.py'},
                'the operator is handed to the regularised solvers as their Tikhonov matrix and reused between calls: they must not change it')
    run.include('C13', {'cherab/core/math/samplers.pyx'}, 'the flux map at the voxel centres is produced by sample2d_points: values in the order of the points')


def _stencils(run, prog, mi):
    fn = mi.functions.get('generate_derivative_operators')
    if fn is None:
        raise AnalysisError('anchored function vanished: generate_derivative_operators')
    loops = [n for n in fn.body if isinstance(n, ast.For)]
    if not loops:
        raise AnalysisError('stencil loop vanished in generate_derivative_operators')
    loop = loops[-1]
    if not isinstance(loop.target, ast.Name):
        raise AnalysisError('stencil loop target is not a name')
    run.describe('C20-R1', 'per boundary configuration: moment conditions of the five stencil rows (exact rationals)')
    sides = ['left', 'right', 'top', 'bottom']
    cases = [frozenset(s) for k in range(3) for s in itertools.combinations(sides, k)
             if not ({'left', 'right'} <= set(s) or {'top', 'bottom'} <= set(s))]
    target = {'Dx': (1, 0), 'Dy': (0, 1), 'Dxx': (2, 0), 'Dxy': (1, 1), 'Dyy': (0, 2)}
    for case in cases:
        cname = '+'.join(sorted(case)) or 'interior'
        run.subject('C20-R1')
        try:
            m = _stencil_case(loop, case, loop.target.id)
        except Unsupported as e:
            if 'NAN-COLUMN' in str(e):
                run.fail('C20-R1', 'cherab.tools.inversions.admt_utils|generate_derivative_operators|%s|absent-neighbour' % cname,
                         FILE, loop.lineno, 'configuration %s: %s' % (cname, e))
                continue
            run.undecided('C20-R1', 'configuration ' + cname, 'stencil loop not interpreted: %s' % str(e)[:80])
            continue
        for op, (a, b) in target.items():
            row = m[op]
            fields = [(0, 0), (1, 0), (0, 1)]
            if op == 'Dxy':
                fields.append((1, 1))
            if op in ('Dxx', 'Dyy'):
                if not case:
                    fields += [(2, 0), (1, 1), (0, 2)]
                else:
                    fields = [(0, 0)]
            for (p, q) in fields:
                exact = 0
                if (p, q) == (a, b):
                    exact = 1 if op in ('Dx', 'Dy', 'Dxy') else 2
                got = _moment(row, p, q)
                name = 'x^%d y^%d' % (p, q)
                if got == exact:
                    run.ok('C20-R1', '%s %s on %s' % (cname, op, name), 'row=%s' % {str(k): str(v) for k, v in sorted(row.items())})
                else:
                    run.fail('C20-R1', 'cherab.tools.inversions.admt_utils|generate_derivative_operators|%s|%s|%s' % (cname, op, name),
                             FILE, loop.lineno,
                             'cell configuration %s: operator %s applied to the field %s gives %s, exact value %s (row %s)'
                             % (cname, op, name, got, exact, {str(k): str(v) for k, v in sorted(row.items())}))
    run.floor('C20-R1', 9)
    # scaling after the loop
    run.describe('C20-R1s', 'scaling of the operators by the voxel sizes and the returned mapping')
    expected = {'Dx': L('Dx') / L('dx'), 'Dy': L('Dy') / L('dy'), 'Dxx': L('Dxx') / (L('dx') * L('dx')),
                'Dyy': L('Dyy') / (L('dy') * L('dy')), 'Dxy': L('Dxy') / (L('dx') * L('dy'))}
    idx = fn.body.index(loop)
    ev = SymEval()
    for op in OPS:
        ev.env[op] = L(op)
    maps = {}

    def mapping_of(e):
        """key -> value expression of a dict display / dict(...) call / a name bound to one"""
        if isinstance(e, ast.Name):
            return maps.get(e.id)
        if isinstance(e, ast.Dict) and all(isinstance(k, ast.Constant) for k in e.keys):
            return {k.value: v for k, v in zip(e.keys, e.values)}
        if isinstance(e, ast.Call) and dotted(e.func) == 'dict' and not e.args and all(k.arg for k in e.keywords):
            return {k.arg: k.value for k in e.keywords}
        return None
    returned = None
    KS = 'cherab.tools.inversions.admt_utils|generate_derivative_operators|'
    for st in fn.body[idx + 1:]:
        if isinstance(st, ast.Assign) and len(st.targets) == 1 and isinstance(st.targets[0], ast.Name):
            m = mapping_of(st.value)
            if m is not None:
                maps[st.targets[0].id] = {k: ev.ev(v) for k, v in m.items()}
            else:
                ev.env[st.targets[0].id] = ev.ev(st.value)
        elif isinstance(st, ast.Return) and st.value is not None:
            m = mapping_of(st.value)
            if m is not None:
                returned = {k: (v if isinstance(v, Rat) else ev.ev(v)) for k, v in m.items()}
    if returned is None:
        run.subject('C20-R1s')
        run.undecided('C20-R1s', 'returned mapping', 'the value returned after the stencil loop is not a recognised mapping')
    else:
        for op in OPS:
            run.subject('C20-R1s')
            got = returned.get(op)
            if got is None:
                run.fail('C20-R1s', KS + 'mapping|' + op, FILE, fn.lineno, "the returned mapping has no entry '%s'" % op)
            elif got.eq(expected[op]):
                run.ok('C20-R1s', 'returned %s' % op, '%s = %s' % (op, expected[op].key()))
            else:
                run.fail('C20-R1s', KS + 'scale|' + op, FILE, fn.lineno,
                         "the operator returned under '%s' is %s, expected %s (stencil divided by the voxel size)" % (op, got.key(), expected[op].key()))


class AdmtEval(SymEval):
    def subscript(self, n):
        if isinstance(n.value, ast.Name) and n.value.id == 'derivative_operators' and isinstance(n.slice, ast.Constant):
            return L('OP:' + str(n.slice.value))
        sl = n.slice.elts if isinstance(n.slice, ast.Tuple) else [n.slice]
        if all((isinstance(x, ast.Slice) and x.lower is None and x.upper is None and x.step is None)
               or (isinstance(x, ast.Constant) and x.value is None) or norm(x) in ('np.newaxis', 'numpy.newaxis') for x in sl):
            # c[:, np.newaxis] * D scales the rows of D by c, which is diag(c) @ D; c[np.newaxis, :] * D (like a plain 1D c * D) scales the
            # columns.  A vector prepared for row scaling carries the marker ROW until it meets an operator.
            v = self.ev(n.value)
            row = len(sl) == 2 and isinstance(sl[0], ast.Slice) and not isinstance(sl[1], ast.Slice)
            return v * L('ROW') if row and not self._has(v, 'ROW') else v
        return super().subscript(n)

    SCALARS = ('anisotropy', 'dx', 'dy')

    @staticmethod
    def _has(v, what):
        return any(l == what or l.startswith(what) for l in v.leaves())

    def _scalar(self, v):
        return all(l in self.SCALARS or l.startswith('sqrt(') for l in v.leaves())

    def mul(self, a, b):
        """element-wise product with numpy's broadcasting of a 1D vector against a matrix: rows only when the vector was given a second axis"""
        ha, hb = self._has(a, 'OP:'), self._has(b, 'OP:')
        if ha == hb:
            if self._has(a, 'ROW') and self._has(b, 'ROW'):
                return a * b.subst({'ROW': C(1)})
            return a * b
        vec, op = (b, a) if ha else (a, b)
        if self._scalar(vec):
            return a * b
        if self._has(vec, 'ROW'):
            return vec.subst({'ROW': C(1)}) * op
        return vec * op * L('COLSCALED')

    def call(self, n):
        f = dotted(n.func)
        if f in ('np.diag', 'numpy.diag') and len(n.args) == 1:
            v = self.ev(n.args[0])
            return v if self._has(v, 'ROW') else v * L('ROW')       # diag(c) @ D scales rows
        if f in ('np.zeros_like', 'numpy.zeros_like', 'np.zeros', 'numpy.zeros'):
            return C(0)
        if f in ('np.ones_like', 'numpy.ones_like', 'np.ones', 'numpy.ones'):
            return C(1)
        if f in ('np.full', 'numpy.full') and len(n.args) == 2:
            return self.ev(n.args[1])
        if f in ('np.asarray', 'numpy.asarray', 'np.array', 'numpy.array', 'np.asanyarray', 'np.ascontiguousarray') and n.args \
                and not isinstance(n.args[0], (ast.List, ast.Tuple)):
            return self.ev(n.args[0])
        return super().call(n)

    def ev(self, n):
        if isinstance(n, ast.BinOp) and isinstance(n.op, ast.MatMult):
            a, b = self.ev(n.left), self.ev(n.right)
            ka, kb = a.key(), b.key()
            if ka.startswith('OP:') and a.n.is_const() is False and len(a.n) == 1 and a.d.is_const():
                return L('%s(%s)' % (ka[3:], kb))
            if kb.startswith('OP:') and len(b.n) == 1:
                if self._has(a, 'ROW'):
                    return a.subst({'ROW': C(1)}) * b
                if self._scalar(a):
                    return a * b
                return L('matmul(%s,%s)' % (ka, kb))
            return L('matmul(%s,%s)' % (ka, kb))
        if isinstance(n, ast.BinOp) and isinstance(n.op, ast.Mult):
            return self.mul(self.ev(n.left), self.ev(n.right))
        if isinstance(n, ast.BinOp) and isinstance(n.op, ast.Div):
            a, b = self.ev(n.left), self.ev(n.right)
            if self._has(a, 'OP:') and not self._has(b, 'OP:') and not self._scalar(b):
                # D / c[:, np.newaxis] divides the rows of D by c; D / c (1D) divides its columns
                if self._has(b, 'ROW'):
                    return a / b.subst({'ROW': C(1)})
                return a / b * L('COLSCALED')
            return a / b
        return super().ev(n)


def _spacing_axes(run, mi):
    """R1a: dx is computed from quantities of the x axis only and dy from the y axis only.  Axis tags: column k of the cell
    centres / their differences, component k of the (ix, iy) grid indices (and of reductions over them along axis 0)."""
    run.describe('C20-R1a', 'voxel spacings: dx derives from x-axis quantities only, dy from y-axis quantities only')
    fn = mi.functions['generate_derivative_operators']
    K = 'cherab.tools.inversions.admt_utils|generate_derivative_operators|'
    tags = {}          # name -> set of axes, or list of per-component sets for 2-vectors

    def tag(e):
        if isinstance(e, ast.Name):
            t = tags.get(e.id)
            if isinstance(t, list):
                return set().union(*t)
            return set(t or ())
        if isinstance(e, ast.Subscript):
            sl = e.slice
            if isinstance(sl, ast.Tuple) and len(sl.elts) == 2 and isinstance(sl.elts[1], ast.Constant) and sl.elts[1].value in (0, 1) \
                    and isinstance(e.value, ast.Name) and tags.get(e.value.id) == 'points':
                return {sl.elts[1].value}
            if isinstance(e.value, ast.Name) and isinstance(tags.get(e.value.id), list) and isinstance(sl, ast.Constant) and sl.value in (0, 1):
                return set(tags[e.value.id][sl.value])
            return tag(e.value)
        out = set()
        for c in ast.iter_child_nodes(e):
            if isinstance(c, ast.expr):
                out |= tag(c)
        return out

    def vec(e):
        """per-component tags of an expression that is a 2-vector of (x-ish, y-ish) quantities, else None"""
        if isinstance(e, ast.Call):
            d = dotted(e.func) or ''
            ax = [k.value for k in e.keywords if k.arg == 'axis']
            if d in ('np.max', 'np.min', 'np.amax', 'np.amin', 'np.ptp', 'np.mean') and ax and isinstance(ax[0], ast.Constant) and ax[0].value == 0 and e.args:
                a0 = e.args[0]
                if any(isinstance(x, ast.Call) and isinstance(x.func, ast.Attribute) and x.func.attr == 'values' and 'index' in norm(x.func.value) for x in ast.walk(a0)):
                    return [{0}, {1}]
                if isinstance(a0, ast.Name) and tags.get(a0.id) == 'points':
                    return [{0}, {1}]
        if isinstance(e, ast.BinOp):
            l, r = vec(e.left), vec(e.right)
            return l or r
        if isinstance(e, ast.Subscript) and isinstance(e.value, ast.Name) and 'index' in e.value.id and 'map' in e.value.id:
            return [{0}, {1}]
        return None
    for st in sorted([x for x in ast.walk(fn) if isinstance(x, ast.Assign)], key=lambda x: x.lineno):
        t, v = st.targets[0], st.value
        if isinstance(t, ast.Name):
            if isinstance(v, ast.Call) and dotted(v.func) in ('np.mean', 'np.diff', 'np.asarray', 'np.array') and v.args and (
                    norm(v.args[0]) in ('voxel_vertices',) or (isinstance(v.args[0], ast.Name) and tags.get(v.args[0].id) == 'points')):
                tags[t.id] = 'points'
                continue
            vv = vec(v)
            tags[t.id] = vv if vv is not None else tag(v)
        elif isinstance(t, ast.Tuple) and len(t.elts) == 2 and all(isinstance(x, ast.Name) for x in t.elts):
            vv = vec(v)
            if vv is not None:
                tags[t.elts[0].id], tags[t.elts[1].id] = vv
    # a cell count taken as 'largest grid index + 1' is the count only for index maps that start at 0: the function accepts any (ix, iy) keys
    for e in ast.walk(fn):
        if isinstance(e, ast.BinOp) and isinstance(e.op, ast.Add) and any(isinstance(c_, ast.Constant) and c_.value == 1 for c_ in (e.left, e.right)):
            other = e.right if isinstance(e.left, ast.Constant) else e.left
            if isinstance(other, ast.Call) and (dotted(other.func) or '').split('.')[-1] in ('max', 'amax') and other.args \
                    and not any(isinstance(x, ast.Call) and (dotted(x.func) or '').split('.')[-1] in ('min', 'amin', 'ptp') for x in ast.walk(other)):
                gen_ = [g_ for g_ in ast.walk(fn) if isinstance(g_, (ast.GeneratorExp, ast.ListComp)) and any(x is e for x in ast.walk(g_))]
                src_ = norm(gen_[0].generators[0].iter) if gen_ else norm(other.args[0])
                if 'index' in src_ or 'map' in src_:
                    run.subject('C20-R1a')
                    run.fail('C20-R1a', K + 'count-from-largest-index', FILE, e.lineno,
                             "generate_derivative_operators takes the number of rows / columns as %s: that is the count only when the grid "
                             "indices start at 0; for an index map with an offset (a window of a larger grid, negative indices) the voxel "
                             "spacing derived from it is wrong and every operator is mis-scaled" % norm(e)[:50])
    for nm, want in (('dx', 0), ('dy', 1)):
        run.subject('C20-R1a')
        got = tags.get(nm)
        got = set().union(*got) if isinstance(got, list) else (set(got) if isinstance(got, set) else set())
        if got == {want}:
            run.ok('C20-R1a', nm, 'depends on axis %d quantities only' % want)
        elif got and got != {want}:
            run.fail('C20-R1a', K + 'spacing-axis:' + nm, FILE, fn.lineno,
                     "%s is computed from quantities of axis %s (0 = x / first grid index, 1 = y / second grid index): it mixes the axes, so the operators "
                     "are mis-scaled on any grid that is not square" % (nm, sorted(got)))
        else:
            run.undecided('C20-R1a', nm, 'no axis-tagged quantity found in its definition')


def _inputs_kept(run, mi):
    """R8: neither function changes the arrays it is given (the operator matrices handed to calculate_admt are reused for the next
    call); the operator matrices are floating point whatever the type of the grid coordinates (their entries are +-1/2, +-1/4)."""
    from ._purity import mutations, aliases
    run.describe('C20-R8', 'inputs are not modified in place; operator matrices are not typed after an input array')
    for name in ('generate_derivative_operators', 'calculate_admt'):
        fn = mi.functions.get(name)
        if fn is None:
            continue
        run.subject('C20-R8')
        try:
            # private helpers work on the arrays they are handed: read them where they are called
            from ..inline import flatten, module_lookup
            fn = flatten(fn, module_lookup(mi))
        except Exception:
            pass
        bad = mutations(fn)
        for st, text in bad:
            run.fail('C20-R8', 'cherab.tools.inversions.admt_utils|%s|mutates-argument' % name, FILE, st.lineno,
                     "%s changes data it was given in place (%s): the caller's operators are overwritten, so the next call with the same "
                     "operators does not return the operator of its arguments" % (name, text))
        ps, alias, rebound = aliases(fn)
        typed = []
        # result matrices of calculate_admt may follow the operators they combine; only the grid must not type the operators
        for c in (ast.walk(fn) if name == 'generate_derivative_operators' else ()):
            if isinstance(c, ast.Call) and dotted(c.func) in ('np.zeros', 'np.empty', 'np.ones', 'np.full', 'numpy.zeros', 'numpy.empty'):
                for k in c.keywords:
                    if k.arg == 'dtype' and any(isinstance(x, ast.Name) and x.id in alias for x in ast.walk(k.value)):
                        typed.append((c, norm(k.value)))
                    elif k.arg == 'dtype' and norm(k.value) in ('int', 'np.int64', 'np.int32', 'np.intp', "'int'", "'i'", 'bool'):
                        typed.append((c, norm(k.value)))
            if isinstance(c, ast.Call) and dotted(c.func) in ('np.zeros_like', 'np.empty_like', 'np.ones_like', 'np.full_like') and c.args \
                    and not any(k.arg == 'dtype' for k in c.keywords) and isinstance(c.args[0], ast.Name) and c.args[0].id in alias - rebound:
                typed.append((c, norm(c)))
        for c, text in typed:
            run.fail('C20-R8', 'cherab.tools.inversions.admt_utils|%s|typed-after-input' % name, FILE, c.lineno,
                     "%s allocates a result matrix typed after an input (%s): for integer-typed grid coordinates the stencil weights +-1/2 and "
                     "+-1/4 are truncated to zero" % (name, text[:50]))
        if not bad and not typed:
            run.ok('C20-R8', name, 'no in-place change of an argument; result matrices have the default floating type')


def _admt_theory(run, fn, pinned, K):
    """R7: on every returning path the assembled operator is the theory operator sqrt(dx dy) * (cx Dx + cy Dy + cxx Dxx + 2 cxy Dxy +
    cyy Dyy) with the coefficients of div(D grad f), D = Dperp n n^T + Dpar t t^T, n = grad psi / |grad psi| -- either identically in
    the diffusivities, or for Dpar = 1, Dperp = 1 / anisotropy under what the path's own conditions fix (a special-cased anisotropy)."""
    run.describe('C20-R7', 'every returning path of calculate_admt yields the theory operator (under the conditions of that path)')
    psi = 'psi_at_voxels'
    ren = {'Dx(%s)' % psi: L('px'), 'Dy(%s)' % psi: L('py'), 'Dxx(%s)' % psi: L('pxx'), 'Dxy(%s)' % psi: L('pxy'), 'Dyy(%s)' % psi: L('pyy'),
           'Dx(Dperp)': L('dPx'), 'Dy(Dperp)': L('dPy'), 'Dx(Dpar)': L('dLx'), 'Dy(Dpar)': L('dLy'),
           'voxel_radii': L('R'), 'Dperp': L('P'), 'Dpar': L('Lp')}
    P, Lp, px, py = L('P'), L('Lp'), L('px'), L('py')
    n2 = px * px + py * py
    c = {'cxx': (P * px ** 2 + Lp * py ** 2) / n2, 'cyy': (P * py ** 2 + Lp * px ** 2) / n2, 'cxy': (P - Lp) * px * py / n2}
    dxr = {'px': L('pxx'), 'py': L('pxy'), 'P': L('dPx'), 'Lp': L('dLx')}
    dyr = {'px': L('pxy'), 'py': L('pyy'), 'P': L('dPy'), 'Lp': L('dLy')}
    try:
        c['cx'] = deriv(c['cxx'], dxr) + deriv(c['cxy'], dyr) + c['cxx'] / L('R')
        c['cy'] = deriv(c['cxy'], dxr) + deriv(c['cyy'], dyr) + c['cxy'] / L('R')
    except Undecided as e:
        run.subject('C20-R7')
        run.undecided('C20-R7', 'theory operator', str(e))
        return
    scale = SymEval().sqrt(L('dx') * L('dy'))
    want = (c['cx'] * L('OP:Dx') + c['cy'] * L('OP:Dy') + c['cxx'] * L('OP:Dxx') + C(2) * c['cxy'] * L('OP:Dxy') + c['cyy'] * L('OP:Dyy')) * scale
    actual = {'P': C(1) / L('anisotropy'), 'Lp': C(1), 'dPx': C(0), 'dPy': C(0), 'dLx': C(0), 'dLy': C(0)}
    for p, env in pinned:
        run.subject('C20-R7')
        cond = ' and '.join('%s%s' % ('' if t else 'not ', k) for k, t in p.decisions) or 'unconditional'
        got = p.returned.subst(ren)
        if 'COLSCALED' in got.leaves():
            run.fail('C20-R7', K + 'path|' + cond[:40] + '|columns', FILE, fn.lineno,
                     'on the path [%s] a per-voxel coefficient multiplies an operator matrix as a plain 1D array: numpy broadcasts it along the '
                     'last axis, which scales the columns (D @ diag(c)) where the operator needs its rows scaled (diag(c) @ D)' % cond[:80])
            continue
        if any('?' in l for l in got.leaves()) or any(l.startswith('matmul(') for l in got.leaves()) or 'ROW' in got.leaves():
            run.undecided('C20-R7', 'path [%s]' % cond[:60], 'returned operator has parts that were not interpreted')
            continue
        if got.eq(want):
            run.ok('C20-R7', 'path [%s]' % cond[:60], 'identically in Dpar, Dperp and the flux derivatives')
            continue
        sub = _path_subst(p)
        g2, w2 = got.subst(actual).subst(sub), want.subst(actual).subst(sub)
        if g2.eq(w2):
            run.ok('C20-R7', 'path [%s]' % cond[:60], 'for Dpar = 1, Dperp = 1 / anisotropy under %s' % (sub or 'no condition'))
        else:
            miss = [op for op in ('Dx', 'Dy', 'Dxx', 'Dxy', 'Dyy') if not _coeff(g2, op).eq(_coeff(w2, op))]
            run.fail('C20-R7', K + 'path|' + cond[:40], FILE, fn.lineno,
                     'on the path [%s] the returned operator is not the diffusion operator: the coefficient(s) of %s differ from '
                     'div(D grad f) (e.g. the cylindrical term cxx/R on Dx)' % (cond[:80], miss or 'the assembled terms'))


def _coeff(v, op):
    try:
        return coeff_of(v, 'OP:' + op)
    except Undecided:
        return L('?coefficient')


def _admt_paths(fn, pinned=()):
    """[(Path, final environment)] of calculate_admt, one per combination of its branch decisions; names in `pinned` stay symbols."""
    from ..pathinterp import PathInterp

    class E(AdmtEval):
        def name(self, n):
            if n.id in pinned:
                return L(n.id)
            return super().name(n)
    out = []
    for p in PathInterp(fn, sinks=(), evaluator=E, store_prefixes=('',), max_paths=64).run():
        if p.returned is None or p.returned.key() == 'raise':
            continue
        env = {}
        for key, val, tags, st, aug in p.stores:
            env[key] = val
        out.append((p, env))
    return out


def _path_subst(p):
    """what the path's decisions fix: 'name == constant' taken true -> {name: constant}"""
    sub = {}
    for text, taken in p.decisions:
        try:
            t = ast.parse(text, mode='eval').body
        except SyntaxError:
            continue
        if taken and isinstance(t, ast.Compare) and len(t.ops) == 1 and isinstance(t.ops[0], ast.Eq):
            l, r = t.left, t.comparators[0]
            if isinstance(l, ast.Constant):
                l, r = r, l
            if isinstance(l, ast.Name) and isinstance(r, ast.Constant) and isinstance(r.value, (int, float)) and float(r.value) == int(r.value):
                sub[l.id] = C(int(r.value))
    return sub


def _admt(run, prog, mi):
    fn = mi.functions.get('calculate_admt')
    if fn is None:
        raise AnalysisError('anchored function vanished: calculate_admt')
    K = 'cherab.tools.inversions.admt_utils|calculate_admt|'
    COEF = ('cx', 'cy', 'cxx', 'cxy', 'cyy')
    from ..inline import flatten, module_lookup
    fn = flatten(fn, module_lookup(mi))        # private helpers (assembly, shared sub-expressions) are read where they are called
    try:
        plain = _admt_paths(fn)
        pinned = _admt_paths(fn, ('Dpar', 'Dperp'))
    except Exception as e:      # a statement form the interpreter does not model
        for r in ('C20-R3', 'C20-R4', 'C20-R5', 'C20-R6', 'C20-R7'):
            run.subject(r)
            run.undecided(r, 'calculate_admt', 'body not interpreted: %s' % str(e)[:80])
        return
    if not plain:
        raise AnalysisError('calculate_admt has no return value')
    _admt_theory(run, fn, pinned, K)
    main = [(p, env) for p, env in plain if all(k in env for k in COEF + ('Dpar', 'Dperp'))]
    main2 = [(p, env) for p, env in pinned if all(k in env for k in COEF)]
    if not main or not main2:
        for r in ('C20-R3', 'C20-R4', 'C20-R5', 'C20-R6'):
            run.subject(r)
            run.undecided(r, 'calculate_admt', 'the coefficient locals cx, cy, cxx, cxy, cyy / Dpar, Dperp are not all assigned on one path')
        return
    def unrow(v):
        # np.diag(c) / c[:, np.newaxis] carry the row-scaling marker until they meet an operator: the coefficient itself is without it
        try:
            return v.subst({'ROW': C(1)}) if 'ROW' in v.leaves() else v
        except Exception:
            return v
    ev = type('Env', (), {})()
    ev.env = {k_: unrow(v_) for k_, v_ in main[0][1].items()}
    ev2 = AdmtEval()
    ev2.env = {k_: unrow(v_) for k_, v_ in main2[0][1].items()}
    final2 = main2[0][0].returned
    # canonical jet names
    psi = 'psi_at_voxels'
    ren = {'Dx(%s)' % psi: L('px'), 'Dy(%s)' % psi: L('py'), 'Dxx(%s)' % psi: L('pxx'), 'Dxy(%s)' % psi: L('pxy'),
           'Dyy(%s)' % psi: L('pyy')}
    # R6: Dpar is a field of ones and Dperp = Dpar / anisotropy
    run.describe('C20-R6', 'Dpar == 1 everywhere and Dperp == Dpar / anisotropy')
    run.subject('C20-R6')
    dpar, dperp = ev.env.get('Dpar'), ev.env.get('Dperp')
    if dpar is None or dperp is None:
        raise AnalysisError('Dpar/Dperp vanished from calculate_admt')
    if dpar.eq(C(1)) and dperp.eq(C(1) / L('anisotropy')):
        run.ok('C20-R6', 'Dpar, Dperp', 'Dpar=%s Dperp=%s' % (dpar, dperp))
    else:
        run.fail('C20-R6', K + 'diffusivities', FILE, fn.lineno,
                 'Dpar=%s, Dperp=%s; expected 1 and 1/anisotropy' % (dpar, dperp))
    ren2 = dict(ren)
    ren2.update({'Dx(Dperp)': L('dPx'), 'Dy(Dperp)': L('dPy'), 'Dx(Dpar)': L('dLx'), 'Dy(Dpar)': L('dLy'),
                 'voxel_radii': L('R'), 'Dperp': L('P'), 'Dpar': L('Lp')})
    # R4 assembly
    run.describe('C20-R4', 'operator == (cx Dx + cy Dy + cxx Dxx + 2 cxy Dxy + cyy Dyy) * sqrt(dx dy)')
    scale = ev2.sqrt(L('dx') * L('dy'))
    names = {'Dx': 'cx', 'Dy': 'cy', 'Dxx': 'cxx', 'Dxy': 'cxy', 'Dyy': 'cyy'}
    coef = {}
    try:
        for op, cname in names.items():
            run.subject('C20-R4')
            got = coeff_of(final2, 'OP:' + op)
            # recover the pre-diag coefficient: find assignment "c = (...)" before np.diag
            coef[cname] = got
    except Undecided as e:
        run.undecided('C20-R4', 'calculate_admt assembly', 'cannot extract operator coefficients: %s' % str(e)[:80])
        return
    # coefficients as assigned in the function (before assembly), from ev2.env
    for op, cname in names.items():
        want = ev2.env[cname] * scale * (2 if op == 'Dxy' else 1)
        if coef[cname].eq(want):
            run.ok('C20-R4', 'coefficient of ' + op, '%s%s * sqrt(dx*dy)' % ('2*' if op == 'Dxy' else '', cname))
        else:
            run.fail('C20-R4', K + 'assembly|' + op, FILE, fn.lineno,
                     'coefficient of %s in the assembled operator is not %s%s*sqrt(dx*dy)' % (op, '2*' if op == 'Dxy' else '', cname))
    rest = final2
    for op in names:
        rest = rest - coef[names[op]] * L('OP:' + op)
    run.subject('C20-R4')
    if rest.is_zero():
        run.ok('C20-R4', 'no other terms', '0')
    else:
        run.fail('C20-R4', K + 'assembly|extra', FILE, fn.lineno, 'assembled operator has extra terms: %s' % rest.key()[:200])
    c = {k: ev2.env[k].subst(ren2) for k in ('cx', 'cy', 'cxx', 'cxy', 'cyy')}
    n2 = L('px') * L('px') + L('py') * L('py')
    # R5a tensor
    run.describe('C20-R5', 'cxx,cxy,cyy == Dperp n n^T + Dpar t t^T; cx == d_x cxx + d_y cxy + cxx/R; cy == d_x cxy + d_y cyy + cxy/R')
    want = {'cxx': (L('P') * L('px') ** 2 + L('Lp') * L('py') ** 2) / n2,
            'cyy': (L('P') * L('py') ** 2 + L('Lp') * L('px') ** 2) / n2,
            'cxy': (L('P') - L('Lp')) * L('px') * L('py') / n2}
    for k, w in want.items():
        run.subject('C20-R5')
        if c[k].eq(w):
            run.ok('C20-R5', k + ' tensor component', str(w))
        else:
            run.fail('C20-R5', K + k, FILE, fn.lineno, '%s is not the %s component of Dperp n n^T + Dpar t t^T: %s' % (k, k[1:], c[k].key()[:200]))
    dx_rules = {'px': L('pxx'), 'py': L('pxy'), 'P': L('dPx'), 'Lp': L('dLx')}
    dy_rules = {'px': L('pxy'), 'py': L('pyy'), 'P': L('dPy'), 'Lp': L('dLy')}
    try:
        want_cx = deriv(c['cxx'], dx_rules) + deriv(c['cxy'], dy_rules) + c['cxx'] / L('R')
        want_cy = deriv(c['cxy'], dx_rules) + deriv(c['cyy'], dy_rules) + c['cxy'] / L('R')
    except Undecided as e:
        run.undecided('C20-R5', 'cx, cy', str(e))
        want_cx = want_cy = None
    if want_cx is not None:
        for k, w in (('cx', want_cx), ('cy', want_cy)):
            run.subject('C20-R5')
            if c[k].eq(w):
                run.ok('C20-R5', k + ' divergence identity', 'exact rational identity in px,py,pxx,pxy,pyy,P,Lp,dP*,dL*,R')
            else:
                diff = (c[k] - w)
                terms = sorted(diff.n.leaves())
                run.fail('C20-R5', K + k + '|divergence', FILE, fn.lineno,
                         '%s differs from the expansion of div(D grad f): residual involves %s' % (k, terms))
    # R3 isotropic limit
    run.describe('C20-R3', 'Dpar := Dperp, dD := 0 gives cxx = cyy = Dperp, cxy = 0, cx = Dperp/R, cy = 0 for any psi')
    iso = {'Lp': L('P'), 'dPx': C(0), 'dPy': C(0), 'dLx': C(0), 'dLy': C(0)}
    exp = {'cxx': L('P'), 'cyy': L('P'), 'cxy': C(0), 'cx': L('P') / L('R'), 'cy': C(0)}
    for k, w in exp.items():
        run.subject('C20-R3')
        got = c[k].subst(iso)
        if got.eq(w):
            run.ok('C20-R3', k + ' isotropic', str(w))
        else:
            run.fail('C20-R3', K + k + '|isotropic', FILE, fn.lineno,
                     'with anisotropy one %s does not reduce to %s whatever the flux map: residual %s' % (k, w, (got - w).key()[:160]))
    run.floor('C20-R5', 5)
    run.floor('C20-R3', 5)


MUTANTS = [
    dict(name='coefficients-broadcast-along-columns', file=FILE,
         find="    cx = np.diag(cx)\n    cy = np.diag(cy)\n    cxx = np.diag(cxx)\n    cyy = np.diag(cyy)\n    cxy = np.diag(cxy)\n    admt_operator = cx @ Dx + cy @ Dy + cxx @ Dxx + 2 * cxy @ Dxy + cyy @ Dyy\n",
         replace="    cx = cx[:, np.newaxis]\n    cy = cy[:, np.newaxis]\n    admt_operator = cx * Dx + cy * Dy + cxx * Dxx + 2 * cxy * Dxy + cyy * Dyy\n", expect='C20-R7'),
    dict(name='operators-scaled-in-place', file=FILE, find="    cx = np.diag(cx)\n", replace="    Dx *= cx[:, np.newaxis]\n    cx = np.diag(np.ones_like(cx))\n", expect='C20-R8'),
    dict(name='operators-typed-after-the-grid', file=FILE, find="    Dx = np.zeros((num_cells, num_cells))\n", replace="    Dx = np.zeros((num_cells, num_cells), dtype=voxel_vertices.dtype)\n", expect='C20-R8'),
    dict(name='isotropic-fast-path', file=FILE, find="    cx = np.diag(cx)\n", replace="    if anisotropy == 1:\n        return (Dxx + Dyy) * np.sqrt(dx * dy)\n    cx = np.diag(cx)\n", expect='C20-R7'),
    dict(name='dx-from-y-differences', file=FILE, find="    dx = cell_sizes[:, 0]\n    dy = cell_sizes[:, 1]", replace="    dx = cell_sizes[:, 1]\n    dy = cell_sizes[:, 0]", expect='C20-R1a'),
    dict(name='stencil-coefficient', file=FILE, find="            Dx[ith_cell, n_left] = -1 / 2", replace="            Dx[ith_cell, n_left] = -1 / 4", expect='C20-R1'),
    dict(name='stencil-neighbour-flipped', file=FILE, find="n_below = grid_index_2d_to_1d_map[ix, iy + 1]", replace="n_below = grid_index_2d_to_1d_map[ix, iy - 1]", expect='C20-R1'),
    dict(name='corner-mixed-sign', file=FILE, find="        if top_right:\n            Dxy[ith_cell, ith_cell] = 1", replace="        if top_right:\n            Dxy[ith_cell, ith_cell] = -1", expect='C20-R1'),
    dict(name='edge-mixed-wrong-neighbour', file=FILE, find="            if not (top_left or bottom_left):\n                Dxy[ith_cell, n_above_right] = 1 / 2\n                Dxy[ith_cell, n_below] = 1 / 2",
         replace="            if not (top_left or bottom_left):\n                Dxy[ith_cell, n_above_right] = 1 / 2\n                Dxy[ith_cell, n_above] = 1 / 2", expect='C20-R1'),
    dict(name='scale-dxx-by-dx', file=FILE, find="Dxx = Dxx / dx**2", replace="Dxx = Dxx / dx", expect='C20-R1s'),
    dict(name='psi-derivative-swapped-in-cy', file=FILE, find="(dpsidxdy * dpsidx + dpsidxx * dpsidy)", replace="(dpsidxdy * dpsidx + dpsidyy * dpsidy)", expect='C20-R5'),
    dict(name='D17-reintroduced', file=FILE, find="(dpsidx * dpsidxx + dpsidy * dpsidxdy)\n        + (Dperp - Dpar) * (dpsidx * dpsidy) * (dpsidx * dpsidxdy + dpsidy * dpsidyy)",
         replace="(dpsidx * dpsidxx + dpsidy * dpsidyy)\n        + (Dperp - Dpar) * (dpsidx * dpsidy) * (dpsidx * dpsidxdy + dpsidy * dpsidyy)", expect='C20-R5'),
    dict(name='cxy-factor-2-dropped', file=FILE, find="cxx @ Dxx + 2 * cxy @ Dxy + cyy @ Dyy", replace="cxx @ Dxx + cxy @ Dxy + cyy @ Dyy", expect='C20-R4'),
    dict(name='cyy-uses-wrong-weights', file=FILE, find="cyy = (Dperp * (dpsidy)**2 + Dpar * (dpsidx)**2) / normalisation", replace="cyy = (Dperp * (dpsidx)**2 + Dpar * (dpsidy)**2) / normalisation", expect='C20-R5'),
    dict(name='toroidal-term-missing-in-cx', file=FILE, find="        + ddiff_term_cx + dnorm_term_cx + toroidal_term_cx", replace="        + ddiff_term_cx + dnorm_term_cx", expect='C20-R'),
    dict(name='anisotropy-inverted', file=FILE, find="Dperp = Dpar / anisotropy", replace="Dperp = Dpar * anisotropy", expect='C20-R6'),
    dict(name='ddiff-derivative-direction', file=FILE, find="dpsidx**2 * ddperpdx + dpsidy**2 * ddpardx", replace="dpsidx**2 * ddperpdy + dpsidy**2 * ddpardx", expect='C20-R5'),
]
TWINS = [
    dict(name='assembly-by-row-scaling', file=FILE,
         find="    cx = np.diag(cx)\n    cy = np.diag(cy)\n    cxx = np.diag(cxx)\n    cyy = np.diag(cyy)\n    cxy = np.diag(cxy)\n    admt_operator = cx @ Dx + cy @ Dy + cxx @ Dxx + 2 * cxy @ Dxy + cyy @ Dyy\n",
         replace="    admt_operator = np.zeros_like(Dxx)\n    for coeff, operator in ((cx, Dx), (cy, Dy), (cxx, Dxx), (2 * cxy, Dxy), (cyy, Dyy)):\n        admt_operator += operator * coeff[:, np.newaxis]\n"),
    dict(name='terms-reordered', file=FILE, find="cxx = (Dperp * (dpsidx)**2 + Dpar * (dpsidy)**2) / normalisation", replace="cxx = (Dpar * dpsidy * dpsidy + (dpsidx)**2 * Dperp) / normalisation"),
    dict(name='assembly-reordered', file=FILE, find="admt_operator = cx @ Dx + cy @ Dy + cxx @ Dxx + 2 * cxy @ Dxy + cyy @ Dyy", replace="admt_operator = cyy @ Dyy + cx @ Dx + cy @ Dy + cxx @ Dxx + cxy @ Dxy * 2"),
    dict(name='half-as-decimal', file=FILE, find="            Dx[ith_cell, n_left] = -1 / 2", replace="            Dx[ith_cell, n_left] = -0.5"),
]
