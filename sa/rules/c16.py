"""C16 -- spectroscopic instruments (DESIGN section 5, C16)."""
import ast

from ..program import Program, dotted, norm
from ..report import AnalysisError
from ..effects import Effects, self_chain
from ..flow import guards_of, facts

FILES = ['cherab/tools/spectroscopy/instrument.py', 'cherab/tools/spectroscopy/spectrometer.py',
         'cherab/tools/spectroscopy/polychromator.py']
BASE = 'cherab.tools.spectroscopy.instrument.SpectroscopicInstrument'


def _init_writes(prog, eff, ci, seen=None):
    """Fields assigned while constructing an instance of ci (own __init__, setters it invokes, super().__init__ chain)."""
    seen = seen or set()
    out = set()
    mro = prog.mro(ci)
    for i, c in enumerate(mro):
        init = c.methods.get('__init__')
        if init is None:
            continue
        if id(init) in seen:
            break
        seen.add(id(init))
        clo = eff.closure(ci, init)
        out |= set(clo.writes)
        calls_super = any(isinstance(n, ast.Call) and norm(n.func) == 'super().__init__' for n in ast.walk(init))
        if not calls_super:
            break
    return out


def _always_reaches(eff, ci, fn, is_reset, builder, depth=0):
    """On every normal pass through fn a reset statement or a call of the builder is executed (directly or through
    unconditional self-calls)."""
    from ..flow import enclosing_conditions
    for st in ast.walk(fn):
        hit = False
        if isinstance(st, ast.Assign) and is_reset(st):
            hit = True
        elif isinstance(st, ast.Call) and isinstance(st.func, ast.Attribute) and isinstance(st.func.value, ast.Name) and st.func.value.id == 'self':
            if st.func.attr == builder:
                hit = True
            elif depth < 3:
                m = eff.resolve(ci, st.func.attr)
                if m is not None and m is not fn and _always_reaches(eff, ci, m, is_reset, builder, depth + 1):
                    hit = True
        if hit:
            conds = list(enclosing_conditions(fn, st))
            # an early 'return' before the statement is a condition on reaching it as well (an early 'raise' rejects the update: nothing changes)
            # (only in the mutator itself: a builder that returns early while the object is still being constructed has nothing to rebuild yet)
            for iff in (ast.walk(fn) if depth == 0 else ()):
                if isinstance(iff, ast.If) and iff.lineno < st.lineno and not any(x is st for x in ast.walk(iff)) \
                        and any(isinstance(x, ast.Return) for b_ in iff.body for x in ast.walk(b_)) \
                        and not any(isinstance(x, ast.Raise) for b_ in iff.body for x in ast.walk(b_)):
                    conds.append((iff.test, False))
            if not conds or (depth == 0 and all(_changed_test(fn, e, pol) for e, pol in conds)):
                return True
    return False


def _changed_test(fn, e, pol):
    """'<new value> != self.<field>' (or 'is not'): skipping the reset when nothing changes is not a loss."""
    ps = {a.arg for a in fn.args.args[1:]}
    differs = (pol is True and isinstance(e, ast.Compare) and len(e.ops) == 1 and isinstance(e.ops[0], (ast.NotEq, ast.IsNot))) or \
              (pol is False and isinstance(e, ast.Compare) and len(e.ops) == 1 and isinstance(e.ops[0], (ast.Eq, ast.Is)))
    if differs:
        l, r = e.left, e.comparators[0]
        for a, b in ((l, r), (r, l)):
            if isinstance(a, ast.Name) and a.id in ps and norm(b).startswith('self._'):
                # "unchanged" is only meaningful when the stored value cannot change behind the object's back: a container kept by reference
                # (self._f = value, with value iterated / measured in the setter) compares equal to itself after the caller edited it in place
                fld = norm(b)
                by_ref = any(isinstance(st_, ast.Assign) and any(norm(t_) == fld for t_ in st_.targets) and isinstance(st_.value, ast.Name) and st_.value.id == a.id
                             for st_ in ast.walk(fn))
                container = any((isinstance(x, ast.For) and isinstance(x.iter, ast.Name) and x.iter.id == a.id)
                                or (isinstance(x, ast.Call) and dotted(x.func) == 'len' and x.args and norm(x.args[0]) == a.id)
                                or (isinstance(x, ast.comprehension) and isinstance(x.iter, ast.Name) and x.iter.id == a.id) for x in ast.walk(fn))
                return not (by_ref and container)
    return False


def check(run):
    prog = Program()
    prog.load_many(FILES)
    for f in FILES:
        run.use_file(f)
    eff = Effects(prog)
    base = prog.cls(BASE)
    concrete = [c for c in prog.classes.values() if base in prog.mro(c) and c is not base]
    if len(concrete) < 3:
        raise AnalysisError('expected Spectrometer, CzernyTurnerSpectrometer and Polychromator below SpectroscopicInstrument')
    run.explanation = (
        'Decides structural necessary conditions of C16 for every instrument class below SpectroscopicInstrument: (R1) each '
        'lazily computed setting (spectral range, bin count, pipeline classes and kwargs) is guarded by a sentinel that its '
        'builder sets, that every constructor initialises, and that every setter writing a field the builder reads (resolved on '
        'the concrete class) resets or rebuilds -- so a setting can never survive a change of a parameter it was computed from; '
        'eager derived state (pixel wavelength arrays) is rebuilt by every setter of its sources; (R2) calibrate divides the '
        'integral over [e_i, e_(i+1)] by the width of the same pixel, after the range check; the spectral range is the min of '
        'first edges / max of last edges (filters: min/max of filter bounds), the step the narrowest pixel (window) over '
        'min_bins_per_pixel (window), the bin count ceil(range / step). Does not decide the floating-point bin-width inequality '
        'or conservation under arbitrary source binning (raysect Spectrum.integrate).')
    run.assumptions = ['raysect Spectrum.integrate(a, b) returns the integral of the spectrum over [a, b]']
    _r1(run, prog, eff, base, concrete)
    _r2(run, prog, eff, concrete)
    from ._fresh import fresh_per_iteration
    nf = 0
    for ci_ in [base] + concrete:
        for mname_, fn_ in sorted(ci_.methods.items()):
            nf += fresh_per_iteration(run, 'C16-R3', ci_.name, ci_.mod, fn_, describe=(nf == 0))
    run.floor('C16-R3', 1)
    from ._memo import check_inline_memos, selfcheck
    selfcheck()
    check_inline_memos(run, 'C16-R4', prog, eff, sorted(concrete, key=lambda c_: c_.qual))
    run.subject('C16-R4')
    run.ok('C16-R4', 'inline memo rule', 'self-check on the built-in example: late reset and missing reset reported, correct mutator accepted', sample=False)
    _filter_range(run, prog)
    _unconditional_clear(run, prog)
    _lazy_getters_compute(run, prog)
    from ..cachekey import check_caches
    check_caches(run, [m for k, m in prog.modules.items() if k.startswith('cherab.tools.spectroscopy')], 'C16-K', prog=prog)


def _lazy_getters(prog, ci):
    """(getter name, fn, sentinel field, builder name) for 'if self.S is None: self.B()' patterns over the MRO."""
    out = []
    for c in prog.mro(ci):
        for name, fn in list(c.getters.items()) + [(n, f) for n, f in c.methods.items() if n == 'create_pipelines']:
            try:
                # a lazy-update body shared through a private helper (self._setting('_field')) is read where it is called
                from ..inline import prep, class_lookup
                keep_ = tuple(n_ for k_ in prog.mro(ci) for n_ in k_.methods if n_.startswith(('_update', '_clear', 'create')))
                fn = prep(fn, class_lookup(prog, c), keep=keep_)
            except Exception:
                pass
            for st in fn.body:
                if isinstance(st, ast.If) and isinstance(st.test, ast.Compare) and isinstance(st.test.ops[0], ast.Is) \
                        and norm(st.test.comparators[0]) == 'None' and self_chain(st.test.left):
                    calls = [self_chain(x.func) for s in st.body for x in ast.walk(s) if isinstance(x, ast.Call) and self_chain(x.func)]
                    if calls:
                        out.append((name, fn, self_chain(st.test.left), calls[0], c))
    return out


def _r1(run, prog, eff, base, concrete):
    run.describe('C16-R1', 'lazy settings: sentinel set by builder, initialised by every constructor, reset by every setter of a source')
    for ci in sorted(concrete, key=lambda c: c.qual):
        run.functions += len(ci.methods) + len(ci.setters) + len(ci.getters)
        lazies = _lazy_getters(prog, ci)
        if not lazies:
            raise AnalysisError('no lazy getters found for %s' % ci.name)
        K = '%s|%s|' % (ci.mod.name, ci.name)
        iw = _init_writes(prog, eff, ci)
        seen_pairs = set()
        for gname, gfn, sent, bname, dc in lazies:
            bfn = eff.resolve(ci, bname)
            if bfn is None:
                raise AnalysisError('%s: builder %s not found' % (ci.name, bname))
            bclo = eff.closure(ci, bfn)
            # getter returns the field it guards
            run.subject('C16-R1')
            rets = [r for r in ast.walk(gfn) if isinstance(r, ast.Return) and r.value is not None]
            if gname == 'create_pipelines' or (rets and self_chain(rets[-1].value) == sent):
                run.ok('C16-R1', '%s.%s returns its guarded field' % (ci.name, gname), sent, sample=False)
            else:
                run.fail('C16-R1', K + 'getter:%s|wrong-sentinel' % gname, dc.mod.relpath, gfn.lineno,
                         "%s.%s tests '%s' but returns %s: the value returned is not the one whose freshness was tested"
                         % (ci.name, gname, sent, norm(rets[-1].value) if rets else None))
            if (sent, bname) in seen_pairs:
                continue
            seen_pairs.add((sent, bname))
            run.subject('C16-R1')
            if sent in bclo.writes:
                run.ok('C16-R1', '%s: %s sets %s' % (ci.name, bname, sent), 'builder assigns the sentinel')
            else:
                run.fail('C16-R1', K + '%s|builder-does-not-set:%s' % (bname, sent), ci.mod.relpath, bfn.lineno,
                         '%s.%s never assigns %s, the field its lazy getter tests' % (ci.name, bname, sent))
            run.subject('C16-R1')
            if sent in iw:
                run.ok('C16-R1', '%s: constructor initialises %s' % (ci.name, sent), 'assigned during construction')
            else:
                run.fail('C16-R1', K + '__init__|uninitialised:%s' % sent, ci.mod.relpath, (ci.methods.get('__init__') or ci.node).lineno,
                         "%s.__init__ never assigns '%s' (it does not run the base-class constructor): reading %s raises AttributeError "
                         "instead of computing the setting" % (ci.name, sent, gname))
            derived = set(bclo.writes)
            src = {r.split('.')[0] for r in bclo.reads if r.split('.')[0].startswith('_')} - derived
            for kind, name, fn, c in eff.public_mutators(ci):
                if kind != 'setter':
                    continue
                clo = eff.closure(ci, fn)
                hit = sorted(f for f in clo.writes if f in src)
                if not hit:
                    continue
                run.subject('C16-R1')
                resets = [st for st in clo.writes.get(sent, []) if isinstance(st, ast.Assign) and norm(st.value) == 'None']
                always = _always_reaches(eff, ci, fn, lambda st: isinstance(st, ast.Assign) and norm(st.value) == 'None' and
                                         any(norm(t) == 'self.' + sent for t in st.targets), bname)
                if (resets or bname in clo.selfcalls) and always:
                    run.ok('C16-R1', '%s.%s invalidates %s' % (ci.name, name, sent), 'writes %s' % hit)
                elif resets or bname in clo.selfcalls:
                    run.fail('C16-R1', K + 'setter:%s|conditional-reset:%s' % (name, sent), c.mod.relpath, fn.lineno,
                             "%s.%s writes %s, which %s reads, but resets '%s' only under a condition: after the other assignments %s keeps "
                             "the value computed from the old parameters" % (ci.name, name, hit, bname, sent, gname))
                else:
                    run.fail('C16-R1', K + 'setter:%s|stale:%s' % (name, sent), c.mod.relpath, fn.lineno,
                             "%s.%s writes %s, which %s reads, but neither resets '%s' nor recomputes it: %s keeps the value computed "
                             "from the old parameters" % (ci.name, name, hit, bname, sent, gname))
        # eager builders (called from setters, no sentinel): _update_wavelength_to_pixel
        for bname, bfn in [(n, f) for c in prog.mro(ci) for n, f in c.methods.items() if n.startswith('_update_') and
                           not any(n == l[3] for l in lazies)]:
            bclo = eff.closure(ci, bfn)
            derived = set(bclo.writes)
            src = {r.split('.')[0] for r in bclo.reads if r.split('.')[0].startswith('_')} - derived
            for kind, name, fn, c in eff.public_mutators(ci):
                if kind != 'setter':
                    continue
                own = eff.closure(ci, fn, stop=(bname,))
                hit = sorted(f for f in own.writes if f in src)
                if not hit:
                    continue
                run.subject('C16-R1')
                if bname in eff.closure(ci, fn).selfcalls and _always_reaches(eff, ci, fn, lambda st: False, bname):
                    run.ok('C16-R1', '%s.%s rebuilds via %s' % (ci.name, name, bname), 'writes %s' % hit)
                elif bname in eff.closure(ci, fn).selfcalls:
                    run.fail('C16-R1', K + 'setter:%s|conditional-rebuild:%s' % (name, bname), c.mod.relpath, fn.lineno,
                             '%s.%s writes %s, which %s reads, but re-runs it only under a condition' % (ci.name, name, hit, bname))
                else:
                    run.fail('C16-R1', K + 'setter:%s|stale:%s' % (name, bname), c.mod.relpath, fn.lineno,
                             '%s.%s writes %s, which %s reads, but does not re-run it' % (ci.name, name, hit, bname))
    run.floor('C16-R1', 40)


def _r2(run, prog, eff, concrete):
    """Pixel values and spectral settings, decided on the flattened + propagated bodies (helpers expanded, single-definition
    locals replaced by their definitions) so that the shape of the code does not matter; a form that is not recognised is
    reported as undecided, a recognised wrong form as a violation."""
    from ..inline import prep, class_lookup
    run.describe('C16-R2', 'calibrate: integral over a pixel / width of the same pixel after the range check; spectral settings formulas')
    spec = [c for c in concrete if c.name == 'Spectrometer']
    if not spec:
        raise AnalysisError('anchored class vanished: Spectrometer')
    ci = spec[0]
    K = '%s|Spectrometer|' % ci.mod.name
    cal0 = ci.methods.get('calibrate')
    if cal0 is None:
        raise AnalysisError('anchored method vanished: Spectrometer.calibrate')
    from ..inline import append_helper_bodies, desugar_pairwise
    cal = prep(cal0, class_lookup(prog, ci))
    sp = cal.args.args[1].arg
    # helpers that could not be expanded in place (called from a comprehension) are read as well; pairwise iteration reads as the index form
    cal_all = desugar_pairwise(append_helper_bodies(cal, class_lookup(prog, ci)))
    _calibrate_pixels(run, ci, cal_all, sp, K)
    # range check precedes the integration and raises
    run.subject('C16-R2')
    okr = False
    loops = [l for l in cal.body if isinstance(l, ast.For)]
    if not loops:
        # no loop in calibrate itself (the pixels are averaged in a helper / comprehension): "before integrating" is "before the first
        # statement that is not a guard"
        loops = [st for st in cal.body if not (isinstance(st, ast.If) and any(isinstance(x, ast.Raise) for x in ast.walk(st)))
                 and not (isinstance(st, ast.Expr) and isinstance(st.value, ast.Constant))][:1]
    for r in [r for r in ast.walk(cal) if isinstance(r, ast.Raise)]:
        t = _enclosing_if(cal, r)
        if t is None or not loops or t.lineno >= loops[0].lineno:
            continue
        tests = t.test.values if isinstance(t.test, ast.BoolOp) and isinstance(t.test.op, ast.Or) else [t.test]
        tx = {norm(x) for x in tests}
        lo_ok = any(x in tx for x in ('%s.min_wavelength > self.min_wavelength' % sp, 'self.min_wavelength < %s.min_wavelength' % sp,
                                      '%s.min_wavelength > self._min_wavelength' % sp))
        hi_ok = any(x in tx for x in ('%s.max_wavelength < self.max_wavelength' % sp, 'self.max_wavelength > %s.max_wavelength' % sp,
                                      '%s.max_wavelength < self._max_wavelength' % sp))
        if lo_ok and hi_ok:
            okr = True
    # two separate guards are the same check
    if not okr:
        seen = set()
        for r in [r for r in ast.walk(cal) if isinstance(r, ast.Raise)]:
            t = _enclosing_if(cal, r)
            if t is not None and loops and t.lineno < loops[0].lineno:
                seen.add(norm(t.test))
        if any('%s.min_wavelength > self.min_wavelength' % sp in x for x in seen) and any('%s.max_wavelength < self.max_wavelength' % sp in x for x in seen):
            okr = True
    if okr:
        run.ok('C16-R2', 'calibrate range check', 'spectrum must cover [min_wavelength, max_wavelength]')
    else:
        run.fail('C16-R2', K + 'calibrate|range-check', ci.mod.relpath, cal0.lineno,
                 'calibrate does not reject spectra narrower than the instrument range before integrating')
    _spectrometer_settings(run, prog, ci, K)
    poly = [c for c in concrete if c.name == 'Polychromator']
    if poly:
        _polychromator_settings(run, prog, poly[0])
    run.floor('C16-R2', 12)


def _calibrate_pixels(run, ci, cal, sp, K):
    run.subject('C16-R2')
    stores = [st for st in ast.walk(cal) if isinstance(st, ast.Assign) and isinstance(st.targets[0], ast.Subscript)]
    cands = []
    for st in stores:
        v = st.value
        if isinstance(v, ast.BinOp) and isinstance(v.op, ast.Div) and isinstance(v.left, ast.Call) and norm(v.left.func) == sp + '.integrate' \
                and len(v.left.args) == 2:
            cands.append(st)
    if not cands:
        run.undecided('C16-R2', 'calibrate pixel value', 'no store of %s.integrate(a, b) / width recognised: %s' % (sp, [norm(s.value)[:60] for s in stores]))
        return
    outs = {norm(st.targets[0].value) for st in cands}
    for st in stores:
        if st not in cands and norm(st.targets[0].value) in outs and not (isinstance(st.value, ast.Constant) and st.value.value == 0):
            run.subject('C16-R2')
            run.fail('C16-R2', K + 'calibrate|other-pixel-value', ci.mod.relpath, st.lineno,
                     "calibrate also stores %s into the calibrated spectrum (%s): on that path the pixel is not the spectrum's integral over the "
                     "pixel divided by its width, so value times width is not conserved" % (norm(st.value)[:50], norm(st.targets[0])))
    for st in cands:
        v = st.value
        idx = norm(st.targets[0].slice)
        lo, hi = v.left.args
        w = v.right
        lp = [l for l in ast.walk(cal) if isinstance(l, ast.For) and any(x is st for x in ast.walk(l))]
        inner = lp[-1] if lp else None
        if not (isinstance(w, ast.BinOp) and isinstance(w.op, ast.Sub)):
            run.undecided('C16-R2', 'calibrate pixel value', 'width %s not recognised' % norm(w))
            continue
        if (norm(w.left), norm(w.right)) != (norm(hi), norm(lo)):
            run.fail('C16-R2', K + 'calibrate|pixel-value', ci.mod.relpath, st.lineno,
                     'calibrate divides the integral over [%s, %s] by %s, which is not the width of that same pixel' % (norm(lo), norm(hi), norm(w)))
            continue
        # the integration limits are consecutive edges e[i], e[i+1] of the array being iterated
        carried = [x for x in (lo, hi) if isinstance(x, ast.Name)]
        if carried:
            nm = carried[0].id
            defs = [d for d in ast.walk(cal) if isinstance(d, ast.Assign) and any(isinstance(t, ast.Name) and t.id == nm for t in d.targets)]
            outer = lp[0] if len(lp) > 1 else None
            outside = [d for d in defs if outer is not None and not any(x is d for x in ast.walk(outer))]
            if outside and any(any(x is d for x in ast.walk(inner)) for d in defs):
                run.fail('C16-R2', K + 'calibrate|pixel-value', ci.mod.relpath, st.lineno,
                         "calibrate integrates from '%s', a value carried from one pixel to the next that is initialised once outside the loop over "
                         "the accommodated spectra (line %d): the first pixel of every spectrum but the first starts at the previous spectrum's "
                         "last edge, so value * width is not the integral over that pixel" % (nm, outside[0].lineno))
            else:
                run.undecided('C16-R2', 'calibrate pixel value', "integration limit '%s' is a loop-carried local" % nm)
            continue
        lo_t, hi_t = norm(lo), norm(hi)
        if lo_t.endswith('[%s]' % idx) and hi_t.endswith('[%s + 1]' % idx) and lo_t.split('[')[0] == hi_t.split('[')[0]:
            edges_name = lo_t.split('[')[0]
            it = norm(inner.iter) if inner is not None else ''
            if it in ('range(%s.size - 1)' % edges_name, 'range(len(%s) - 1)' % edges_name, 'range(%s.shape[0] - 1)' % edges_name):
                run.ok('C16-R2', 'calibrate pixel value', 'integrate(e[i], e[i+1]) / (e[i+1] - e[i]) for every pixel')
            elif inner is not None and isinstance(inner.iter, ast.Call) and dotted(inner.iter.func) == 'range':
                run.fail('C16-R2', K + 'calibrate|pixel-loop', ci.mod.relpath, inner.lineno,
                         'calibrate iterates %s instead of every pixel range(%s.size - 1)' % (it, edges_name))
            else:
                run.undecided('C16-R2', 'calibrate pixel loop', 'loop %s not recognised' % it)
        elif lo_t.split('[')[0] == hi_t.split('[')[0] and '[' in lo_t:
            run.fail('C16-R2', K + 'calibrate|pixel-value', ci.mod.relpath, st.lineno,
                     'calibrate stores pixel %s as the integral over [%s, %s]: not the edges of that pixel' % (idx, lo_t, hi_t))
        else:
            run.undecided('C16-R2', 'calibrate pixel value', 'integration limits %s, %s not recognised' % (lo_t, hi_t))


def _gen_over(e, fname):
    """e is fname(<elt> for <v> in <iterable>) (generator or list comprehension): (elt, var, iterable) else None"""
    if isinstance(e, ast.Call) and dotted(e.func) in (fname, 'np.' + fname) and len(e.args) == 1 \
            and isinstance(e.args[0], (ast.GeneratorExp, ast.ListComp)) and len(e.args[0].generators) == 1 \
            and isinstance(e.args[0].generators[0].target, ast.Name) and not e.args[0].generators[0].ifs:
        g = e.args[0].generators[0]
        return e.args[0].elt, g.target.id, norm(g.iter)
    return None


def _all_widths_min(e, v):
    """True: e is the smallest width of all pixels of the edge array v; False: e reads only fixed edges; None: not recognised."""
    t = norm(e).replace(' ', '')
    whole = ('np.diff(%s).min()' % v, 'min(np.diff(%s))' % v, 'np.min(np.diff(%s))' % v, 'np.amin(np.diff(%s))' % v,
             '(%s[1:]-%s[:-1]).min()' % (v, v), 'np.min(%s[1:]-%s[:-1])' % (v, v), 'min(%s[1:]-%s[:-1])' % (v, v))
    if t in whole:
        return True
    subs = [x for x in ast.walk(e) if isinstance(x, ast.Subscript) and isinstance(x.value, ast.Name) and x.value.id == v]
    uses = [x for x in ast.walk(e) if isinstance(x, ast.Name) and x.id == v]
    if subs and len(subs) == len(uses) and all(not isinstance(x.slice, ast.Slice) and const_index(x.slice) for x in subs):
        return False
    return None


def const_index(sl):
    from ..program import const_fold
    return const_fold(sl) is not None


def _lazy_getters_compute(run, prog):
    """R7: a property that hands out a field which the invalidation routines / setters reset to None computes it first: the getter
    contains 'if self.<field> is None: self._update...()' before the return (a getter that lost the call, or whose test was inverted,
    returns None or a stale value)."""
    run.describe('C16-R7', 'getters of lazily computed fields test the sentinel for None and run the builder before returning')
    from ..inline import prep, class_lookup
    n = 0
    for ci in sorted(prog.classes.values(), key=lambda c: c.qual):
        if not ci.mod.relpath.startswith('cherab/tools/spectroscopy/'):
            continue
        sentinels = set()
        for c in prog.mro(ci):
            for mname, m in list(c.methods.items()) + list(c.setters.items()):
                if mname == '__init__':
                    continue
                for st in ast.walk(m):
                    if isinstance(st, ast.Assign) and norm(st.value) == 'None':
                        for t in st.targets:
                            if isinstance(t, ast.Attribute) and norm(t.value) == 'self':
                                sentinels.add(t.attr)
        for gname, g in sorted(ci.getters.items()):
            try:
                keep_ = tuple(n_ for k_ in prog.mro(ci) for n_ in k_.methods if n_.startswith(('_update', '_clear', 'create')))
                g2 = prep(g, class_lookup(prog, ci), keep=keep_)
            except Exception:
                g2 = g
            rets = [r for r in ast.walk(g2) if isinstance(r, ast.Return) and isinstance(r.value, ast.Attribute) and norm(r.value.value) == 'self']
            if not rets or len({r.value.attr for r in rets}) != 1 or rets[0].value.attr not in sentinels:
                continue
            fld = rets[0].value.attr
            n += 1
            run.subject('C16-R7')
            good = False
            inverted = False
            for st in ast.walk(g2):
                if isinstance(st, ast.If) and isinstance(st.test, ast.Compare) and len(st.test.ops) == 1 and norm(st.test.left) == 'self.' + fld \
                        and norm(st.test.comparators[0]) == 'None':
                    calls = [c for x in st.body for c in ast.walk(x) if isinstance(c, ast.Call) and (dotted(c.func) or '').startswith('self._update')]
                    if isinstance(st.test.ops[0], ast.Is) and calls:
                        good = True
                    elif isinstance(st.test.ops[0], ast.IsNot):
                        inverted = True
            K = '%s|%s|%s|lazy' % (ci.mod.name, ci.name, gname)
            if good:
                run.ok('C16-R7', '%s.%s' % (ci.name, gname), 'if self.%s is None: self._update...()' % fld, sample=False)
            elif inverted:
                run.fail('C16-R7', K, ci.mod.relpath, g.lineno, '%s.%s tests self.%s "is not None" before running the builder: it recomputes what is '
                         'there and returns None when the value has been invalidated' % (ci.name, gname, fld))
            else:
                run.fail('C16-R7', K, ci.mod.relpath, g.lineno, '%s.%s returns self.%s, which the setters reset to None, without running the builder when '
                         'it is None: after a parameter change it returns None (or whatever another getter happened to compute)' % (ci.name, gname, fld))
    run.floor('C16-R7', 4)


def _unconditional_clear(run, prog):
    """R6: the routines the setters call to invalidate the computed settings reset every field they are responsible for on every call: a
    reset that is skipped on the strength of *one* of the fields (bins still None) leaves the others as an interrupted computation left
    them, and they are then served as the settings of the new parameters."""
    run.describe('C16-R6', 'invalidation routines (_clear_*) reset their fields unconditionally')
    n = 0
    for ci in sorted(prog.classes.values(), key=lambda c: c.qual):
        if not ci.mod.relpath.startswith('cherab/tools/spectroscopy/'):
            continue
        for mname, m in sorted(ci.methods.items()):
            if not mname.startswith('_clear'):
                continue
            resets = [st for st in ast.walk(m) if isinstance(st, ast.Assign) and norm(st.value) == 'None' and norm(st.targets[0]).startswith('self.')]
            if not resets:
                continue
            n += 1
            run.subject('C16-R6')
            top = [st for st in m.body if st in resets]
            early = [x for x in ast.walk(m) if isinstance(x, ast.Return)]
            if len(top) == len(resets) and not early:
                run.ok('C16-R6', '%s.%s' % (ci.name, mname), 'resets %s on every call' % [norm(st.targets[0])[5:] for st in resets])
            else:
                where = (early or [r for r in resets if r not in top])[0]
                run.fail('C16-R6', '%s|%s|%s|conditional' % (ci.mod.name, ci.name, mname), ci.mod.relpath, where.lineno,
                         '%s.%s does not reset %s on every call (%s): after a computation of the settings that stopped half-way the fields it '
                         'had already set survive the next parameter change and are returned as current'
                         % (ci.name, mname, [norm(st.targets[0])[5:] for st in resets], 'early return' if early else 'reset under a condition'))
    run.floor('C16-R6', 1)


def _filter_range(run, prog):
    """R5: the wavelength range a filter reports (which the polychromator's spectral range is the union of) is that of its samples: the
    first / last element of the wavelength array is its minimum / maximum only once the array has been sorted."""
    run.describe('C16-R5', 'PolychromatorFilter: the reported wavelength range is taken from the sorted wavelength array (or is its min / max)')
    ci = next((c for c in prog.classes.values() if c.name == 'PolychromatorFilter'), None)
    if ci is None or '__init__' not in ci.methods:
        raise AnalysisError('anchored class vanished: PolychromatorFilter')
    fn = ci.methods['__init__']
    K = '%s|PolychromatorFilter|__init__|range' % ci.mod.name
    srt = set()           # names holding an ascending array at this point
    idx = {}              # index name -> array it sorts
    seen = 0
    for st in fn.body:
        if not isinstance(st, ast.Assign) or len(st.targets) != 1:
            continue
        t, v = st.targets[0], st.value
        if isinstance(t, ast.Name):
            if isinstance(v, ast.Call) and (dotted(v.func) or '').split('.')[-1] == 'argsort' and v.args and isinstance(v.args[0], ast.Name) and not v.keywords:
                idx[t.id] = v.args[0].id
                continue
            if isinstance(v, ast.Call) and (dotted(v.func) or '').split('.')[-1] == 'argsort' and isinstance(v.func, ast.Attribute) \
                    and isinstance(v.func.value, ast.Name) and not v.args:
                idx[t.id] = v.func.value.id
                continue
            if isinstance(v, ast.Subscript) and isinstance(v.value, ast.Name) and isinstance(v.slice, ast.Name) and idx.get(v.slice.id) == v.value.id:
                if t.id == v.value.id:
                    srt.add(t.id)
                    idx = {k_: a_ for k_, a_ in idx.items()}
                else:
                    srt.add(t.id)
                continue
            if isinstance(v, ast.Call) and (dotted(v.func) or '').split('.')[-1] == 'sort' and v.args and isinstance(v.args[0], ast.Name):
                srt.add(t.id)
                continue
            if t.id in srt and not (isinstance(v, ast.Call) and (dotted(v.func) or '').split('.')[-1] in ('insert', 'append')):
                srt.discard(t.id)
            continue
        tn = norm(t)
        if tn in ('self._min_wavelength', 'self._max_wavelength'):
            seen += 1
            run.subject('C16-R5')
            want = '0' if 'min' in tn else '-1'
            if isinstance(v, ast.Subscript) and isinstance(v.value, ast.Name) and norm(v.slice) == want:
                if v.value.id in srt:
                    run.ok('C16-R5', tn, '%s of the sorted array' % norm(v), sample=False)
                elif any(a_ == v.value.id for a_ in idx.values()) or any(
                        isinstance(x, ast.Call) and (dotted(x.func) or '').split('.')[-1] in ('argsort', 'sort') for q in fn.body for x in ast.walk(q)):
                    run.fail('C16-R5', K + '|' + tn, ci.mod.relpath, st.lineno,
                             "PolychromatorFilter takes %s = %s before the wavelength array is sorted: for samples not given in ascending order "
                             "the reported range (and the window and central wavelength derived from it) is not that of the filter, so the "
                             "polychromator's spectral range does not cover it" % (tn, norm(v)))
                else:
                    run.undecided('C16-R5', tn, 'no sorting of the wavelength array found')
            elif isinstance(v, ast.Call) and (dotted(v.func) or '').split('.')[-1] in ('min', 'max', 'amin', 'amax', 'nanmin', 'nanmax') \
                    and ('min' in (dotted(v.func) or '')) == ('min' in tn):
                run.ok('C16-R5', tn, norm(v), sample=False)
            else:
                run.undecided('C16-R5', tn, 'range value %s not recognised' % norm(v)[:40])
    if not seen:
        run.subject('C16-R5')
        run.undecided('C16-R5', 'PolychromatorFilter range', 'stores of the range not found at the top level of __init__')
    run.floor('C16-R5', 1)


def _spectrometer_settings(run, prog, ci, K):
    from ..inline import prep, class_lookup
    us0 = ci.methods.get('_update_spectral_settings')
    if us0 is None:
        raise AnalysisError('anchored method vanished: Spectrometer._update_spectral_settings')
    from ..inline import desugar_reductions
    us = prep(desugar_reductions(us0), class_lookup(prog, ci))
    tx = {}
    for st in ast.walk(us):
        if isinstance(st, ast.Assign) and len(st.targets) == 1:
            tx[norm(st.targets[0])] = st.value
    W = 'self._wavelength_to_pixel'
    for x_ in ast.walk(us):
        if isinstance(x_, ast.Call) and dotted(x_.func) == '__last__':
            run.subject('C16-R2')
            run.fail('C16-R2', K + '_update_spectral_settings|last-only', ci.mod.relpath, getattr(x_, 'lineno', us0.lineno),
                     'Spectrometer._update_spectral_settings overwrites %s for every accommodated spectrum instead of accumulating over them: '
                     'the value of the last array is used, so the settings depend on the order of the spectra and the bins can be wider than the '
                     'narrowest pixel / min_bins_per_pixel' % norm(x_.args[0].elt)[:60])
    for fld, fname, want_idx, other in (('self._min_wavelength', 'min', '0', 'max'), ('self._max_wavelength', 'max', '-1', 'min')):
        run.subject('C16-R2')
        e = tx.get(fld)
        g = _gen_over(e, fname) if e is not None else None
        gbad = _gen_over(e, other) if e is not None else None
        if g and g[2] in (W, 'self.wavelength_to_pixel') and norm(g[0]) == '%s[%s]' % (g[1], want_idx):
            run.ok('C16-R2', 'Spectrometer ' + fld, norm(e))
        elif (g or gbad) and (g or gbad)[2] in (W, 'self.wavelength_to_pixel'):
            run.fail('C16-R2', K + '_update_spectral_settings|' + fld, ci.mod.relpath, us0.lineno,
                     'Spectrometer._update_spectral_settings: %s = %s; the instrument range is %s of the %s edge of every accommodated spectrum'
                     % (fld, norm(e), fname, 'first' if want_idx == '0' else 'last'))
        elif isinstance(e, ast.Subscript) and isinstance(e.value, ast.Subscript) and norm(e.value.value) in (W, 'self.wavelength_to_pixel') \
                and norm(e.value.slice) in ('0', '-1') and norm(e.slice) in ('0', '-1'):
            # one edge of one particular array: the arrays need not be listed in ascending, disjoint order
            run.fail('C16-R2', K + '_update_spectral_settings|' + fld + '|one-array', ci.mod.relpath, us0.lineno,
                     'Spectrometer._update_spectral_settings: %s = %s reads the %s accommodated spectrum only; the instrument range is the %s of the '
                     '%s edge over every accommodated spectrum (nested or unordered spectra are not covered otherwise)'
                     % (fld, norm(e), 'first' if norm(e.value.slice) == '0' else 'last', fname, 'first' if want_idx == '0' else 'last'))
        else:
            run.undecided('C16-R2', 'Spectrometer ' + fld, 'form not recognised: %s' % (norm(e) if e is not None else None))
    # bins = int(ceil((max - min) / step)),  step = min over spectra of the narrowest pixel / min_bins_per_pixel
    run.subject('C16-R2')
    e = tx.get('self._spectral_bins')
    step = None
    if isinstance(e, ast.Call) and dotted(e.func) == 'int' and len(e.args) == 1 and isinstance(e.args[0], ast.Call) \
            and dotted(e.args[0].func) in ('np.ceil', 'ceil', 'math.ceil') and isinstance(e.args[0].args[0], ast.BinOp) \
            and isinstance(e.args[0].args[0].op, ast.Div):
        q = e.args[0].args[0]
        same_ = tx.get('self._max_wavelength') is not None and tx.get('self._min_wavelength') is not None and isinstance(q.left, ast.BinOp) \
            and isinstance(q.left.op, ast.Sub) and norm(q.left.left) == norm(tx['self._max_wavelength']) and norm(q.left.right) == norm(tx['self._min_wavelength'])
        if same_ or norm(q.left) in ('self._max_wavelength - self._min_wavelength', 'self.max_wavelength - self.min_wavelength'):
            step = q.right
            run.ok('C16-R2', 'Spectrometer bins', 'int(ceil((max - min) / step))')
        else:
            run.fail('C16-R2', K + '_update_spectral_settings|bins-range', ci.mod.relpath, us0.lineno,
                     'Spectrometer._update_spectral_settings: bins computed from %s, expected the range max - min' % norm(q.left))
    elif isinstance(e, ast.Call) and dotted(e.func) in ('int', 'round') and e.args and not any(
            isinstance(x, ast.Call) and dotted(x.func) in ('np.ceil', 'ceil', 'math.ceil') for x in ast.walk(e)):
        run.fail('C16-R2', K + '_update_spectral_settings|bins-rounding', ci.mod.relpath, us0.lineno,
                 'Spectrometer._update_spectral_settings: %s rounds the number of bins down, so a bin can be wider than the narrowest pixel / '
                 'min_bins_per_pixel' % norm(e))
    else:
        run.undecided('C16-R2', 'Spectrometer bins', 'form not recognised: %s' % (norm(e) if e is not None else None))
    run.subject('C16-R2')
    if step is None:
        run.undecided('C16-R2', 'Spectrometer step', 'bin width expression not found')
        return
    if not (isinstance(step, ast.BinOp) and isinstance(step.op, ast.Div) and norm(step.right) in ('self._min_bins_per_pixel', 'self.min_bins_per_pixel')):
        if not any(isinstance(x, ast.Attribute) and x.attr in ('_min_bins_per_pixel', 'min_bins_per_pixel') for x in ast.walk(us)):
            run.fail('C16-R2', K + '_update_spectral_settings|step', ci.mod.relpath, us0.lineno,
                     'Spectrometer._update_spectral_settings never reads min_bins_per_pixel: the bin width is %s' % norm(step))
        else:
            run.undecided('C16-R2', 'Spectrometer step', 'form not recognised: %s' % norm(step))
        return
    g = _gen_over(step.left, 'min')
    if not g or g[2] not in (W, 'self.wavelength_to_pixel'):
        run.undecided('C16-R2', 'Spectrometer step', 'form not recognised: %s' % norm(step.left))
        return
    verdict = _all_widths_min(g[0], g[1])
    if verdict is True:
        run.ok('C16-R2', 'Spectrometer step', norm(step))
    elif verdict is False:
        run.fail('C16-R2', K + '_update_spectral_settings|step', ci.mod.relpath, us0.lineno,
                 'Spectrometer._update_spectral_settings: the narrowest pixel is taken as %s, which reads only fixed edges of each array: a '
                 'narrower pixel elsewhere makes the bins wider than narrowest pixel / min_bins_per_pixel' % norm(g[0]))
    else:
        run.undecided('C16-R2', 'Spectrometer step', 'narrowest-pixel form not recognised: %s' % norm(g[0]))


def _polychromator_settings(run, prog, pc):
    from ..inline import prep, class_lookup
    KP = '%s|Polychromator|_update_spectral_settings|' % pc.mod.name
    us0 = pc.methods.get('_update_spectral_settings')
    us = prep(us0, class_lookup(prog, pc))
    FILTERS = ('self._filters', 'self.filters')
    from ..inline import resolver
    from ..algebra import SymEval
    res = resolver(us)

    def elementwise_text(e, var):
        class R(ast.NodeTransformer):
            def visit_Name(self, n):
                return ast.Name(id='f', ctx=n.ctx) if n.id == var else n
        import copy
        return norm(R().visit(copy.deepcopy(e)))

    def elementwise(e, var):
        t = elementwise_text(e, var)
        try:
            return SymEval().ev(ast.parse(t, mode='eval').body).key()
        except Exception:
            return t

    def lam_key(call):
        for k in call.keywords:
            if k.arg == 'key' and isinstance(k.value, ast.Lambda) and len(k.value.args.args) == 1:
                return elementwise(k.value.body, k.value.args.args[0].arg)
        return None

    def seq_of(e):
        """the filters, possibly sorted: (sort key or None, reversed)"""
        if norm(e) in FILTERS:
            return (None, False)
        if isinstance(e, ast.Name):
            r = res(e)
            if norm(r) != norm(e):
                return seq_of(r)
        if isinstance(e, ast.Call) and dotted(e.func) in ('sorted', 'list', 'tuple') and e.args and seq_of(e.args[0]) is not None:
            if dotted(e.func) != 'sorted':
                return seq_of(e.args[0])
            rev = any(k.arg == 'reverse' and norm(k.value) == 'True' for k in e.keywords)
            return (lam_key(e) or '?', rev)
        return None

    def reduction(e, depth=0):
        """('min'|'max', elementwise normal form) | ('pick', sort key, 'min'|'max', attribute) | ('badinit', text) | None"""
        if depth > 6 or e is None:
            return None
        if isinstance(e, ast.Name):
            # accumulator of a loop over the filters
            for lp in [l for l in ast.walk(us) if isinstance(l, ast.For) and seq_of(l.iter) is not None and isinstance(l.target, ast.Name)]:
                for st in ast.walk(lp):
                    if isinstance(st, ast.Assign) and len(st.targets) == 1 and norm(st.targets[0]) == e.id and isinstance(st.value, ast.Call) \
                            and dotted(st.value.func) in ('min', 'max') and len(st.value.args) == 2:
                        others = [x for x in st.value.args if norm(x) != e.id]
                        if len(others) != 1:
                            continue
                        fnm = dotted(st.value.func)
                        init = [norm(s_.value) for s_ in us.body if isinstance(s_, ast.Assign) and len(s_.targets) == 1 and norm(s_.targets[0]) == e.id
                                and s_.lineno < lp.lineno]
                        good = ('np.inf', "float('inf')", 'math.inf', 'inf') if fnm == 'min' else ('0', '0.0', '-np.inf', "-float('inf')", '-math.inf')
                        if not init:
                            return None
                        if init[-1] not in good:
                            return ('badinit', '%s starts from %s' % (e.id, init[-1]))
                        return (fnm, elementwise(others[0], lp.target.id), elementwise_text(others[0], lp.target.id))
            r = res(e)
            return reduction(r, depth + 1) if norm(r) != norm(e) else None
        if isinstance(e, ast.BinOp) and isinstance(e.op, (ast.Div, ast.Mult)):
            inner = reduction(e.left, depth + 1)
            if inner and inner[0] in ('min', 'max') and not any(norm(x) in FILTERS for x in ast.walk(e.right)):
                # min(E) / c == min(E / c) for a positive c that does not depend on the filter
                t = '(%s) %s (%s)' % (inner[2], '/' if isinstance(e.op, ast.Div) else '*', norm(res(e.right)))
                return (inner[0], elementwise(ast.parse(t, mode='eval').body, 'f'), t)
            return None
        if isinstance(e, ast.Call) and dotted(e.func) in ('min', 'max', 'np.min', 'np.max', 'np.amin', 'np.amax') and len(e.args) == 1 \
                and isinstance(e.args[0], (ast.GeneratorExp, ast.ListComp)) and len(e.args[0].generators) == 1 and not e.args[0].generators[0].ifs \
                and seq_of(e.args[0].generators[0].iter) is not None and isinstance(e.args[0].generators[0].target, ast.Name):
            g = e.args[0].generators[0]
            return (dotted(e.func).split('.')[-1].replace('a', '', 1) if dotted(e.func).split('.')[-1].startswith('am') else dotted(e.func).split('.')[-1],
                    elementwise(e.args[0].elt, g.target.id), elementwise_text(e.args[0].elt, g.target.id))
        if isinstance(e, ast.Attribute):
            v = e.value if not isinstance(e.value, ast.Name) else res(e.value)
            # min(filters, key=...).attr
            if isinstance(v, ast.Call) and dotted(v.func) in ('min', 'max') and len(v.args) == 1 and seq_of(v.args[0]) is not None:
                k = lam_key(v)
                attr = 'f.' + e.attr
                if k == elementwise(ast.parse(attr, mode='eval').body, 'f'):
                    return (dotted(v.func), k, attr)
                return ('pick', k, dotted(v.func), e.attr)
            # sorted(filters, key=...)[0].attr
            if isinstance(v, ast.Subscript) and isinstance(v.slice, (ast.Constant, ast.UnaryOp)) and norm(v.slice) in ('0', '-1'):
                sq = seq_of(v.value)
                if sq is not None and sq[0] is not None:
                    which = 'min' if (norm(v.slice) == '0') != sq[1] else 'max'
                    attr = elementwise(ast.parse('f.' + e.attr, mode='eval').body, 'f')
                    if sq[0] == attr:
                        return (which, attr, 'f.' + e.attr)
                    return ('pick', sq[0], which, e.attr)
        return None

    post = {}
    for st in ast.walk(us):
        if isinstance(st, ast.Assign) and len(st.targets) == 1 and norm(st.targets[0]).startswith('self._'):
            post[norm(st.targets[0])] = st.value
    ew = lambda t: elementwise(ast.parse(t, mode='eval').body, 'f')
    WANT = {'min': ('min', [ew('f.min_wavelength')]), 'max': ('max', [ew('f.max_wavelength')]),
            'step': ('min', [ew('f.window / self._min_bins_per_window'), ew('f.window / self.min_bins_per_window')])}
    got = {}
    for role, fld in (('min', 'self._min_wavelength'), ('max', 'self._max_wavelength')):
        got[role] = (post.get(fld), reduction(post.get(fld)))
    # the step is whatever divides the range in the bin count
    bins = post.get('self._spectral_bins')
    parts = None
    if bins is not None:
        x = res(bins)
        while isinstance(x, ast.Call) and dotted(x.func) in ('int', 'np.ceil', 'ceil', 'math.ceil', 'round', 'np.floor', 'floor', 'math.floor') and len(x.args) == 1:
            x = x.args[0]
        if isinstance(x, ast.BinOp) and isinstance(x.op, ast.Div) and isinstance(x.left, ast.BinOp) and isinstance(x.left.op, ast.Sub):
            parts = (x.left.left, x.left.right, x.right)
    orig_bins = bins
    if parts is not None:
        # unresolved spelling of the step operand (resolution may have expanded it): find it in the original expression
        y = bins
        while isinstance(y, ast.Call) and len(y.args) == 1:
            y = y.args[0]
        step_e = y.right if isinstance(y, ast.BinOp) and isinstance(y.op, ast.Div) else parts[2]
        got['step'] = (step_e, reduction(step_e))
    for role in ('min', 'max', 'step'):
        run.subject('C16-R2')
        e, r = got.get(role, (None, None))
        if r is None:
            run.undecided('C16-R2', 'Polychromator ' + role, 'reduction over the filters not recognised: %s' % (norm(e)[:50] if e is not None else None))
        elif r[0] == 'badinit':
            run.fail('C16-R2', KP + role + '-init', pc.mod.relpath, us0.lineno, 'Polychromator._update_spectral_settings: the %s accumulation %s' % (role, r[1]))
        elif r[0] == 'pick':
            run.fail('C16-R2', KP + role, pc.mod.relpath, us0.lineno,
                     "Polychromator._update_spectral_settings takes the %s from the filter with the %s %s, not the %s of %s over all filters: "
                     "with nested or overlapping filters the range does not cover every filter" % (role, r[2], r[1], WANT[role][0], r[3]))
        elif r[0] != WANT[role][0]:
            run.fail('C16-R2', KP + role, pc.mod.relpath, us0.lineno,
                     'Polychromator._update_spectral_settings accumulates the %s with %s(): %s' % (role, r[0], norm(e)[:60]))
        elif r[1] not in WANT[role][1]:
            run.fail('C16-R2', KP + role, pc.mod.relpath, us0.lineno,
                     'Polychromator._update_spectral_settings takes the %s over %s; expected %s' % (role, r[1], WANT[role][1][0]))
        else:
            run.ok('C16-R2', 'Polychromator ' + role, '%s over the filters of %s' % (r[0], r[1]), sample=False)
    run.subject('C16-R2')
    if parts is None:
        run.undecided('C16-R2', 'Polychromator bins', 'form not recognised: %s' % (norm(bins) if bins is not None else None))
    else:
        rmx, rmn = reduction(parts[0]), reduction(parts[1])
        ceil_ = any(isinstance(x, ast.Call) and dotted(x.func) in ('np.ceil', 'ceil', 'math.ceil') for x in ast.walk(res(orig_bins)))
        if not ceil_:
            run.fail('C16-R2', KP + 'bins', pc.mod.relpath, us0.lineno, 'Polychromator rounds the number of bins down: %s' % norm(orig_bins))
        elif rmx and rmn and rmx[0] == 'max' and rmn[0] == 'min' and rmx[1] in WANT['max'][1] and rmn[1] in WANT['min'][1]:
            run.ok('C16-R2', 'Polychromator bins', 'ceil((max - min) / step)', sample=False)
        elif rmx and rmn and rmx[0] in ('min', 'max') and rmn[0] in ('min', 'max'):
            run.fail('C16-R2', KP + 'bins', pc.mod.relpath, us0.lineno, 'Polychromator bin count is not ceil((max - min) / step): %s' % norm(orig_bins)[:80])
        else:
            run.undecided('C16-R2', 'Polychromator bins', 'range operands not recognised: %s' % norm(orig_bins)[:60])
    # one pipeline (class and kwargs) per filter, in filter order
    for bname, elt_has in (('_update_pipeline_classes', None), ('_update_pipeline_kwargs', "'filter'")):
        run.subject('C16-R2')
        fn = pc.methods.get(bname)
        comps = [c for c in ast.walk(fn) if isinstance(c, ast.ListComp)] if fn is not None else []
        loops2 = [l for l in ast.walk(fn) if isinstance(l, ast.For)] if fn is not None else []
        if comps and len(comps[0].generators) == 1 and norm(comps[0].generators[0].iter) in ('self._filters', 'self.filters'):
            g = comps[0].generators[0]
            okk = not g.ifs
            if elt_has:
                okk = okk and isinstance(comps[0].elt, ast.Dict) and any(norm(k) == elt_has and norm(v) == norm(g.target)
                                                                        for k, v in zip(comps[0].elt.keys, comps[0].elt.values))
            if okk:
                run.ok('C16-R2', 'Polychromator ' + bname, 'one entry per filter', sample=False)
            else:
                run.fail('C16-R2', '%s|Polychromator|%s|per-filter' % (pc.mod.name, bname), pc.mod.relpath, fn.lineno,
                         'Polychromator.%s does not produce one entry per filter' % bname)
        elif loops2:
            run.undecided('C16-R2', 'Polychromator ' + bname, 'loop form not analysed')
        else:
            run.undecided('C16-R2', 'Polychromator ' + bname, 'form not recognised')


def _enclosing_if(fn, node):
    best = None
    for n in ast.walk(fn):
        if isinstance(n, ast.If) and any(x is node for s in n.body for x in ast.walk(s)):
            best = n
    return best


def _same_modulo_names(a, b):
    import re
    canon = lambda s: re.sub(r'\bwl2pix\b|\bedges\b|\bw2p\b', 'E', s).replace(' ', '')
    return canon(a) == canon(b)


_SP = 'cherab/tools/spectroscopy/spectrometer.py'
_PO = 'cherab/tools/spectroscopy/polychromator.py'
_IN = 'cherab/tools/spectroscopy/instrument.py'
MUTANTS = [
    dict(name='range-from-first-and-last-array', file='cherab/tools/spectroscopy/spectrometer.py',
         find="        self._min_wavelength = min(wl2pix[0] for wl2pix in self._wavelength_to_pixel)\n", replace="        self._min_wavelength = self._wavelength_to_pixel[0][0]\n", expect='C16-R2'),
    dict(name='narrow-pixels-take-the-sample-under-their-centre', file='cherab/tools/spectroscopy/spectrometer.py',
         find="            for i in range(wl2pix.size - 1):\n                calibrated_spectrum[i] = spectrum.integrate(",
         replace="            for i in range(wl2pix.size - 1):\n                if wl2pix[i + 1] - wl2pix[i] < spectrum.delta_wavelength:\n                    calibrated_spectrum[i] = spectrum.samples[int((wl2pix[i] - spectrum.min_wavelength) / spectrum.delta_wavelength)]\n                    continue\n                calibrated_spectrum[i] = spectrum.integrate(", expect='C16-R2'),
    dict(name='unchanged-test-on-a-list-kept-by-reference', file='cherab/tools/spectroscopy/spectrometer.py',
         find="        self._accommodated_spectra = value\n        self._update_wavelength_to_pixel()", replace="        if value == self._accommodated_spectra:\n            return\n        self._accommodated_spectra = value\n        self._update_wavelength_to_pixel()", expect='C16-R1'),
    dict(name='polychromator-range-from-outermost-centres', file='cherab/tools/spectroscopy/polychromator.py', find="        min_wavelength = np.inf\n        max_wavelength = 0\n        step = np.inf\n        for poly_filter in self._filters:\n            step = min(step, poly_filter.window / self._min_bins_per_window)\n            min_wavelength = min(min_wavelength, poly_filter.min_wavelength)\n            max_wavelength = max(max_wavelength, poly_filter.max_wavelength)\n",
         replace="        ordered = sorted(self._filters, key=lambda f: f.central_wavelength)\n        min_wavelength = ordered[0].min_wavelength\n        max_wavelength = ordered[-1].max_wavelength\n        step = min(f.window for f in ordered) / self._min_bins_per_window\n", expect='C16-R2'),
    dict(name='czerny-turner-angle-memo-reset-late', file='cherab/tools/spectroscopy/spectrometer.py',
         find="        angle = self._diffraction_angle\n        fl = self._focal_length\n",
         replace="        if getattr(self, '_angle_memo', None) is None:\n            pass\n        if self._angle_memo is None:\n            self._angle_memo = self._diffraction_angle\n        angle = self._angle_memo\n        fl = self._focal_length\n", expect='C16-R4'),
    dict(name='calibrated-spectra-share-one-buffer', file='cherab/tools/spectroscopy/spectrometer.py',
         find="        for wl2pix in self.wavelength_to_pixel:\n            calibrated_spectrum = np.zeros(wl2pix.size - 1)\n",
         replace="        output = np.zeros(max(wl2pix.size for wl2pix in self.wavelength_to_pixel) - 1)\n        for wl2pix in self.wavelength_to_pixel:\n            calibrated_spectrum = output[:wl2pix.size - 1]\n", expect='C16-R3'),
    dict(name='filters-reset-only-when-count-changes', file='cherab/tools/spectroscopy/polychromator.py',
         find="        self._pipeline_classes = None\n        self._pipeline_kwargs = None\n\n    def _update_pipeline_classes",
         replace="        if self._pipeline_classes is None or len(self._pipeline_classes) != len(value):\n            self._pipeline_classes = None\n            self._pipeline_kwargs = None\n\n    def _update_pipeline_classes", expect='C16-R1'),
    dict(name='setter-does-not-clear', file=_SP, find="        self._min_bins_per_pixel = value\n        self._clear_spectral_settings()", replace="        self._min_bins_per_pixel = value", expect='C16-R1'),
    dict(name='name-setter-keeps-kwargs', file=_IN, find="        self._name = str(value)\n        self._pipeline_kwargs = None", replace="        self._name = str(value)", expect='C16-R1'),
    dict(name='lazy-getter-wrong-sentinel', file=_IN, find="        if self._max_wavelength is None:\n            self._update_spectral_settings()\n\n        return self._max_wavelength",
         replace="        if self._min_wavelength is None:\n            self._update_spectral_settings()\n\n        return self._max_wavelength", expect='C16-R1'),
    dict(name='width-from-wrong-edges', file=_SP, find="/ (wl2pix[i + 1] - wl2pix[i])", replace="/ (wl2pix[i] - wl2pix[i - 1])", expect='C16-R2'),
    dict(name='filters-setter-keeps-pipeline-classes', file=_PO, find="        self._clear_spectral_settings()\n        self._pipeline_classes = None\n        self._pipeline_kwargs = None", replace="        self._clear_spectral_settings()\n        self._pipeline_kwargs = None", expect='C16-R1'),
    dict(name='grating-setter-no-rebuild', file=_SP, find="        self._grating = value\n        # resolution has changed, recalculating wavelength_to_pixel\n        self._update_wavelength_to_pixel()", replace="        self._grating = value", expect='C16-R1'),
    dict(name='D21-reintroduced', file=_SP, find="        self._accommodated_spectra = None\n        self._pipeline_classes = None\n", replace="        self._accommodated_spectra = None\n", expect='C16-R1'),
    dict(name='range-from-pixel-centres', file=_SP, find="self._max_wavelength = max(wl2pix[-1] for wl2pix in self._wavelength_to_pixel)", replace="self._max_wavelength = max(wl2pix[-2] for wl2pix in self._wavelength_to_pixel)", expect='C16-R2'),
    dict(name='step-not-divided', file=_SP, find=" / self._min_bins_per_pixel\n", replace="\n", expect='C16-R2'),
    dict(name='range-check-dropped', file=_SP, find="        if spectrum.min_wavelength > self.min_wavelength or spectrum.max_wavelength < self.max_wavelength:", replace="        if False:", expect='C16-R2'),
    dict(name='update-w2p-keeps-settings', file=_SP, find="        self._wavelengths = tuple(_wavelengths)\n\n        self._clear_spectral_settings()\n\n    @property\n    def wavelength_to_pixel(self):\n        # Wavelength-to-pixel calibration arrays.\n        return self._wavelength_to_pixel\n\n    def resolution",
         replace="        self._wavelengths = tuple(_wavelengths)\n\n    @property\n    def wavelength_to_pixel(self):\n        # Wavelength-to-pixel calibration arrays.\n        return self._wavelength_to_pixel\n\n    def resolution", expect='C16-R1'),
]
TWINS = [
    dict(name='polychromator-range-by-generators', file='cherab/tools/spectroscopy/polychromator.py', find="        min_wavelength = np.inf\n        max_wavelength = 0\n        step = np.inf\n        for poly_filter in self._filters:\n            step = min(step, poly_filter.window / self._min_bins_per_window)\n            min_wavelength = min(min_wavelength, poly_filter.min_wavelength)\n            max_wavelength = max(max_wavelength, poly_filter.max_wavelength)\n",
         replace="        min_wavelength = min(f.min_wavelength for f in self._filters)\n        max_wavelength = max([f.max_wavelength for f in self._filters])\n        step = min(f.window for f in self._filters) / self._min_bins_per_window\n"),
    dict(name='polychromator-range-by-sorting-on-the-bound', file='cherab/tools/spectroscopy/polychromator.py', find="        min_wavelength = np.inf\n        max_wavelength = 0\n        step = np.inf\n        for poly_filter in self._filters:\n            step = min(step, poly_filter.window / self._min_bins_per_window)\n            min_wavelength = min(min_wavelength, poly_filter.min_wavelength)\n            max_wavelength = max(max_wavelength, poly_filter.max_wavelength)\n",
         replace="        step = min(f.window / self._min_bins_per_window for f in self._filters)\n        min_wavelength = sorted(self._filters, key=lambda f: f.min_wavelength)[0].min_wavelength\n        max_wavelength = max(self._filters, key=lambda f: f.max_wavelength).max_wavelength\n"),
    dict(name='setter-skips-unchanged-value', file='cherab/tools/spectroscopy/polychromator.py',
         find="        self._min_bins_per_window = value\n        self._clear_spectral_settings()",
         replace="        if value != self._min_bins_per_window:\n            self._min_bins_per_window = value\n            self._clear_spectral_settings()"),
    dict(name='message-change', file=_SP, find='"Attribute \'grating\' must be positive."', replace='"grating must be > 0"'),
]
