"""C16 -- spectroscopic instruments (DESIGN section 5, C16)."""
import ast

from ..program import Program, dotted, norm
from ..report import AnalysisError
from ..effects import Effects, self_chain
from ..flow import guards_of, facts

FILES = ['cherab/tools/spectroscopy/instrument.py', 'cherab/tools/spectroscopy/spectrometer.py',
         'cherab/tools/spectroscopy/polychromator.py']
BASE = 'cherab.tools.spectroscopy.instrument.SpectroscopicInstrument'


def _init_writes(prog, eff, ci, seen=None):
    """Fields assigned while constructing an instance of ci (own __init__, setters it invokes, super().__init__ chain)."""
    seen = seen or set()
    out = set()
    mro = prog.mro(ci)
    for i, c in enumerate(mro):
        init = c.methods.get('__init__')
        if init is None:
            continue
        if id(init) in seen:
            break
        seen.add(id(init))
        clo = eff.closure(ci, init)
        out |= set(clo.writes)
        calls_super = any(isinstance(n, ast.Call) and norm(n.func) == 'super().__init__' for n in ast.walk(init))
        if not calls_super:
            break
    return out


def _always_reaches(eff, ci, fn, is_reset, builder, depth=0):
    """On every normal pass through fn a reset statement or a call of the builder is executed (directly or through
    unconditional self-calls)."""
    from ..flow import enclosing_conditions
    for st in ast.walk(fn):
        hit = False
        if isinstance(st, ast.Assign) and is_reset(st):
            hit = True
        elif isinstance(st, ast.Call) and isinstance(st.func, ast.Attribute) and isinstance(st.func.value, ast.Name) and st.func.value.id == 'self':
            if st.func.attr == builder:
                hit = True
            elif depth < 3:
                m = eff.resolve(ci, st.func.attr)
                if m is not None and m is not fn and _always_reaches(eff, ci, m, is_reset, builder, depth + 1):
                    hit = True
        if hit:
            conds = enclosing_conditions(fn, st)
            if not conds or (depth == 0 and all(_changed_test(fn, e, pol) for e, pol in conds)):
                return True
    return False


def _changed_test(fn, e, pol):
    """'<new value> != self.<field>' (or 'is not'): skipping the reset when nothing changes is not a loss."""
    ps = {a.arg for a in fn.args.args[1:]}
    if pol is True and isinstance(e, ast.Compare) and len(e.ops) == 1 and isinstance(e.ops[0], (ast.NotEq, ast.IsNot)):
        l, r = e.left, e.comparators[0]
        for a, b in ((l, r), (r, l)):
            if isinstance(a, ast.Name) and a.id in ps and norm(b).startswith('self._'):
                return True
    return False


def check(run):
    prog = Program()
    prog.load_many(FILES)
    for f in FILES:
        run.use_file(f)
    eff = Effects(prog)
    base = prog.cls(BASE)
    concrete = [c for c in prog.classes.values() if base in prog.mro(c) and c is not base]
    if len(concrete) < 3:
        raise AnalysisError('expected Spectrometer, CzernyTurnerSpectrometer and Polychromator below SpectroscopicInstrument')
    run.explanation = (
        'Decides structural necessary conditions of C16 for every instrument class below SpectroscopicInstrument: (R1) each '
        'lazily computed setting (spectral range, bin count, pipeline classes and kwargs) is guarded by a sentinel that its '
        'builder sets, that every constructor initialises, and that every setter writing a field the builder reads (resolved on '
        'the concrete class) resets or rebuilds -- so a setting can never survive a change of a parameter it was computed from; '
        'eager derived state (pixel wavelength arrays) is rebuilt by every setter of its sources; (R2) calibrate divides the '
        'integral over [e_i, e_(i+1)] by the width of the same pixel, after the range check; the spectral range is the min of '
        'first edges / max of last edges (filters: min/max of filter bounds), the step the narrowest pixel (window) over '
        'min_bins_per_pixel (window), the bin count ceil(range / step). Does not decide the floating-point bin-width inequality '
        'or conservation under arbitrary source binning (raysect Spectrum.integrate).')
    run.assumptions = ['raysect Spectrum.integrate(a, b) returns the integral of the spectrum over [a, b]']
    _r1(run, prog, eff, base, concrete)
    _r2(run, prog, eff, concrete)
    from ..cachekey import check_caches
    check_caches(run, [m for k, m in prog.modules.items() if k.startswith('cherab.tools.spectroscopy')], 'C16-K')


def _lazy_getters(prog, ci):
    """(getter name, fn, sentinel field, builder name) for 'if self.S is None: self.B()' patterns over the MRO."""
    out = []
    for c in prog.mro(ci):
        for name, fn in list(c.getters.items()) + [(n, f) for n, f in c.methods.items() if n == 'create_pipelines']:
            for st in fn.body:
                if isinstance(st, ast.If) and isinstance(st.test, ast.Compare) and isinstance(st.test.ops[0], ast.Is) \
                        and norm(st.test.comparators[0]) == 'None' and self_chain(st.test.left):
                    calls = [self_chain(x.func) for s in st.body for x in ast.walk(s) if isinstance(x, ast.Call) and self_chain(x.func)]
                    if calls:
                        out.append((name, fn, self_chain(st.test.left), calls[0], c))
    return out


def _r1(run, prog, eff, base, concrete):
    run.describe('C16-R1', 'lazy settings: sentinel set by builder, initialised by every constructor, reset by every setter of a source')
    for ci in sorted(concrete, key=lambda c: c.qual):
        run.functions += len(ci.methods) + len(ci.setters) + len(ci.getters)
        lazies = _lazy_getters(prog, ci)
        if not lazies:
            raise AnalysisError('no lazy getters found for %s' % ci.name)
        K = '%s|%s|' % (ci.mod.name, ci.name)
        iw = _init_writes(prog, eff, ci)
        seen_pairs = set()
        for gname, gfn, sent, bname, dc in lazies:
            bfn = eff.resolve(ci, bname)
            if bfn is None:
                raise AnalysisError('%s: builder %s not found' % (ci.name, bname))
            bclo = eff.closure(ci, bfn)
            # getter returns the field it guards
            run.subject('C16-R1')
            rets = [r for r in ast.walk(gfn) if isinstance(r, ast.Return) and r.value is not None]
            if gname == 'create_pipelines' or (rets and self_chain(rets[-1].value) == sent):
                run.ok('C16-R1', '%s.%s returns its guarded field' % (ci.name, gname), sent, sample=False)
            else:
                run.fail('C16-R1', K + 'getter:%s|wrong-sentinel' % gname, dc.mod.relpath, gfn.lineno,
                         "%s.%s tests '%s' but returns %s: the value returned is not the one whose freshness was tested"
                         % (ci.name, gname, sent, norm(rets[-1].value) if rets else None))
            if (sent, bname) in seen_pairs:
                continue
            seen_pairs.add((sent, bname))
            run.subject('C16-R1')
            if sent in bclo.writes:
                run.ok('C16-R1', '%s: %s sets %s' % (ci.name, bname, sent), 'builder assigns the sentinel')
            else:
                run.fail('C16-R1', K + '%s|builder-does-not-set:%s' % (bname, sent), ci.mod.relpath, bfn.lineno,
                         '%s.%s never assigns %s, the field its lazy getter tests' % (ci.name, bname, sent))
            run.subject('C16-R1')
            if sent in iw:
                run.ok('C16-R1', '%s: constructor initialises %s' % (ci.name, sent), 'assigned during construction')
            else:
                run.fail('C16-R1', K + '__init__|uninitialised:%s' % sent, ci.mod.relpath, (ci.methods.get('__init__') or ci.node).lineno,
                         "%s.__init__ never assigns '%s' (it does not run the base-class constructor): reading %s raises AttributeError "
                         "instead of computing the setting" % (ci.name, sent, gname))
            derived = set(bclo.writes)
            src = {r.split('.')[0] for r in bclo.reads if r.split('.')[0].startswith('_')} - derived
            for kind, name, fn, c in eff.public_mutators(ci):
                if kind != 'setter':
                    continue
                clo = eff.closure(ci, fn)
                hit = sorted(f for f in clo.writes if f in src)
                if not hit:
                    continue
                run.subject('C16-R1')
                resets = [st for st in clo.writes.get(sent, []) if isinstance(st, ast.Assign) and norm(st.value) == 'None']
                always = _always_reaches(eff, ci, fn, lambda st: isinstance(st, ast.Assign) and norm(st.value) == 'None' and
                                         any(norm(t) == 'self.' + sent for t in st.targets), bname)
                if (resets or bname in clo.selfcalls) and always:
                    run.ok('C16-R1', '%s.%s invalidates %s' % (ci.name, name, sent), 'writes %s' % hit)
                elif resets or bname in clo.selfcalls:
                    run.fail('C16-R1', K + 'setter:%s|conditional-reset:%s' % (name, sent), c.mod.relpath, fn.lineno,
                             "%s.%s writes %s, which %s reads, but resets '%s' only under a condition: after the other assignments %s keeps "
                             "the value computed from the old parameters" % (ci.name, name, hit, bname, sent, gname))
                else:
                    run.fail('C16-R1', K + 'setter:%s|stale:%s' % (name, sent), c.mod.relpath, fn.lineno,
                             "%s.%s writes %s, which %s reads, but neither resets '%s' nor recomputes it: %s keeps the value computed "
                             "from the old parameters" % (ci.name, name, hit, bname, sent, gname))
        # eager builders (called from setters, no sentinel): _update_wavelength_to_pixel
        for bname, bfn in [(n, f) for c in prog.mro(ci) for n, f in c.methods.items() if n.startswith('_update_') and
                           not any(n == l[3] for l in lazies)]:
            bclo = eff.closure(ci, bfn)
            derived = set(bclo.writes)
            src = {r.split('.')[0] for r in bclo.reads if r.split('.')[0].startswith('_')} - derived
            for kind, name, fn, c in eff.public_mutators(ci):
                if kind != 'setter':
                    continue
                own = eff.closure(ci, fn, stop=(bname,))
                hit = sorted(f for f in own.writes if f in src)
                if not hit:
                    continue
                run.subject('C16-R1')
                if bname in eff.closure(ci, fn).selfcalls and _always_reaches(eff, ci, fn, lambda st: False, bname):
                    run.ok('C16-R1', '%s.%s rebuilds via %s' % (ci.name, name, bname), 'writes %s' % hit)
                elif bname in eff.closure(ci, fn).selfcalls:
                    run.fail('C16-R1', K + 'setter:%s|conditional-rebuild:%s' % (name, bname), c.mod.relpath, fn.lineno,
                             '%s.%s writes %s, which %s reads, but re-runs it only under a condition' % (ci.name, name, hit, bname))
                else:
                    run.fail('C16-R1', K + 'setter:%s|stale:%s' % (name, bname), c.mod.relpath, fn.lineno,
                             '%s.%s writes %s, which %s reads, but does not re-run it' % (ci.name, name, hit, bname))
    run.floor('C16-R1', 40)


def _r2(run, prog, eff, concrete):
    run.describe('C16-R2', 'calibrate: integral over a pixel / width of the same pixel after the range check; spectral settings formulas')
    spec = [c for c in concrete if c.name == 'Spectrometer']
    if not spec:
        raise AnalysisError('anchored class vanished: Spectrometer')
    ci = spec[0]
    K = '%s|Spectrometer|' % ci.mod.name
    cal = ci.methods.get('calibrate')
    if cal is None:
        raise AnalysisError('anchored method vanished: Spectrometer.calibrate')
    sp = cal.args.args[1].arg
    stores = [st for st in ast.walk(cal) if isinstance(st, ast.Assign) and isinstance(st.targets[0], ast.Subscript)]
    run.subject('C16-R2')
    good = False
    for st in stores:
        v = st.value
        idx = norm(st.targets[0].slice)
        if isinstance(v, ast.BinOp) and isinstance(v.op, ast.Div) and isinstance(v.left, ast.Call) and norm(v.left.func) == sp + '.integrate' \
                and len(v.left.args) == 2:
            lo, hi = norm(v.left.args[0]), norm(v.left.args[1])
            w = v.right
            if isinstance(w, ast.BinOp) and isinstance(w.op, ast.Sub) and norm(w.left) == hi and norm(w.right) == lo \
                    and lo.endswith('[%s]' % idx) and hi.endswith('[%s + 1]' % idx) and lo.split('[')[0] == hi.split('[')[0]:
                good = True
                edges_name = lo.split('[')[0]
                # loop covers all pixels: range(size - 1)
                lp = [l for l in ast.walk(cal) if isinstance(l, ast.For) and any(x is st for x in ast.walk(l))][-1]
                if norm(lp.iter) != 'range(%s.size - 1)' % edges_name:
                    run.fail('C16-R2', K + 'calibrate|pixel-loop', ci.mod.relpath, lp.lineno,
                             'calibrate iterates %s instead of every pixel range(%s.size - 1)' % (norm(lp.iter), edges_name))
                    good = None
    if good:
        run.ok('C16-R2', 'calibrate pixel value', 'integrate(e[i], e[i+1]) / (e[i+1] - e[i])')
    elif good is False:
        run.fail('C16-R2', K + 'calibrate|pixel-value', ci.mod.relpath, cal.lineno,
                 'calibrate does not divide the integral over [e_i, e_(i+1)] by the width of that same pixel: %s' % [norm(s.value)[:80] for s in stores])
    # range check precedes the loop and raises
    run.subject('C16-R2')
    raises = [r for r in ast.walk(cal) if isinstance(r, ast.Raise)]
    okr = False
    for r in raises:
        f = facts(guards_of(cal, r) or [])
        txt = ' '.join(a[0] for a in f)
        t = _enclosing_if(cal, r)
        if t is not None:
            tt = norm(t.test)
            if ('%s.min_wavelength > self.min_wavelength' % sp in tt and '%s.max_wavelength < self.max_wavelength' % sp in tt and ' or ' in tt):
                loops = [l for l in cal.body if isinstance(l, ast.For)]
                if loops and t.lineno < loops[0].lineno:
                    okr = True
    if okr:
        run.ok('C16-R2', 'calibrate range check', 'spectrum must cover [min_wavelength, max_wavelength]')
    else:
        run.fail('C16-R2', K + 'calibrate|range-check', ci.mod.relpath, cal.lineno,
                 'calibrate does not reject spectra narrower than the instrument range before integrating')
    # spectral settings of the spectrometer
    us = ci.methods.get('_update_spectral_settings')
    tx = {norm(st.targets[0]): norm(st.value) for st in us.body if isinstance(st, ast.Assign)}
    want = {'self._min_wavelength': 'min((wl2pix[0] for wl2pix in self._wavelength_to_pixel))',
            'self._max_wavelength': 'max((wl2pix[-1] for wl2pix in self._wavelength_to_pixel))',
            'step': 'min((np.diff(wl2pix).min() for wl2pix in self._wavelength_to_pixel)) / self._min_bins_per_pixel',
            'self._spectral_bins': 'int(np.ceil((self._max_wavelength - self._min_wavelength) / step))'}
    for k, w in want.items():
        run.subject('C16-R2')
        got = tx.get(k)
        if got is not None and _same_modulo_names(got, w):
            run.ok('C16-R2', 'Spectrometer ' + k, got)
        else:
            run.fail('C16-R2', K + '_update_spectral_settings|' + k, ci.mod.relpath, us.lineno,
                     'Spectrometer._update_spectral_settings: %s = %s; documented: %s' % (k, got, w))
    poly = [c for c in concrete if c.name == 'Polychromator']
    if poly:
        pc = poly[0]
        us = pc.methods.get('_update_spectral_settings')
        body = norm(us.body)
        checks = {'step': 'step = min(step, poly_filter.window / self._min_bins_per_window)',
                  'min': 'min_wavelength = min(min_wavelength, poly_filter.min_wavelength)',
                  'max': 'max_wavelength = max(max_wavelength, poly_filter.max_wavelength)',
                  'bins': 'self._spectral_bins = int(np.ceil((max_wavelength - min_wavelength) / step))',
                  'store-min': 'self._min_wavelength = min_wavelength', 'store-max': 'self._max_wavelength = max_wavelength',
                  'init': 'min_wavelength = np.inf; max_wavelength = 0; step = np.inf'}
        for k, w in checks.items():
            run.subject('C16-R2')
            if w in body:
                run.ok('C16-R2', 'Polychromator ' + k, w, sample=False)
            else:
                run.fail('C16-R2', '%s|Polychromator|_update_spectral_settings|%s' % (pc.mod.name, k), pc.mod.relpath, us.lineno,
                         'Polychromator._update_spectral_settings lacks "%s"' % w)
        # one pipeline (class and kwargs) per filter, in filter order
        for bname, want in (('_update_pipeline_classes', 'for poly_filter in self._filters'), ('_update_pipeline_kwargs', "'filter': poly_filter")):
            run.subject('C16-R2')
            fn = pc.methods.get(bname)
            if fn is not None and want in norm(fn.body) and 'for poly_filter in self._filters' in norm(fn.body) and ' if ' not in norm(fn.body):
                run.ok('C16-R2', 'Polychromator ' + bname, 'one entry per filter', sample=False)
            else:
                run.fail('C16-R2', '%s|Polychromator|%s|per-filter' % (pc.mod.name, bname), pc.mod.relpath, pc.node.lineno,
                         'Polychromator.%s does not produce one entry per filter' % bname)
    run.floor('C16-R2', 12)


def _enclosing_if(fn, node):
    best = None
    for n in ast.walk(fn):
        if isinstance(n, ast.If) and any(x is node for s in n.body for x in ast.walk(s)):
            best = n
    return best


def _same_modulo_names(a, b):
    import re
    canon = lambda s: re.sub(r'\bwl2pix\b|\bedges\b|\bw2p\b', 'E', s).replace(' ', '')
    return canon(a) == canon(b)


_SP = 'cherab/tools/spectroscopy/spectrometer.py'
_PO = 'cherab/tools/spectroscopy/polychromator.py'
_IN = 'cherab/tools/spectroscopy/instrument.py'
MUTANTS = [
    dict(name='filters-reset-only-when-count-changes', file='cherab/tools/spectroscopy/polychromator.py',
         find="        self._pipeline_classes = None\n        self._pipeline_kwargs = None\n\n    def _update_pipeline_classes",
         replace="        if self._pipeline_classes is None or len(self._pipeline_classes) != len(value):\n            self._pipeline_classes = None\n            self._pipeline_kwargs = None\n\n    def _update_pipeline_classes", expect='C16-R1'),
    dict(name='setter-does-not-clear', file=_SP, find="        self._min_bins_per_pixel = value\n        self._clear_spectral_settings()", replace="        self._min_bins_per_pixel = value", expect='C16-R1'),
    dict(name='name-setter-keeps-kwargs', file=_IN, find="        self._name = str(value)\n        self._pipeline_kwargs = None", replace="        self._name = str(value)", expect='C16-R1'),
    dict(name='lazy-getter-wrong-sentinel', file=_IN, find="        if self._max_wavelength is None:\n            self._update_spectral_settings()\n\n        return self._max_wavelength",
         replace="        if self._min_wavelength is None:\n            self._update_spectral_settings()\n\n        return self._max_wavelength", expect='C16-R1'),
    dict(name='width-from-wrong-edges', file=_SP, find="/ (wl2pix[i + 1] - wl2pix[i])", replace="/ (wl2pix[i] - wl2pix[i - 1])", expect='C16-R2'),
    dict(name='filters-setter-keeps-pipeline-classes', file=_PO, find="        self._clear_spectral_settings()\n        self._pipeline_classes = None\n        self._pipeline_kwargs = None", replace="        self._clear_spectral_settings()\n        self._pipeline_kwargs = None", expect='C16-R1'),
    dict(name='grating-setter-no-rebuild', file=_SP, find="        self._grating = value\n        # resolution has changed, recalculating wavelength_to_pixel\n        self._update_wavelength_to_pixel()", replace="        self._grating = value", expect='C16-R1'),
    dict(name='D21-reintroduced', file=_SP, find="        self._accommodated_spectra = None\n        self._pipeline_classes = None\n", replace="        self._accommodated_spectra = None\n", expect='C16-R1'),
    dict(name='range-from-pixel-centres', file=_SP, find="self._max_wavelength = max(wl2pix[-1] for wl2pix in self._wavelength_to_pixel)", replace="self._max_wavelength = max(wl2pix[-2] for wl2pix in self._wavelength_to_pixel)", expect='C16-R2'),
    dict(name='step-not-divided', file=_SP, find=" / self._min_bins_per_pixel\n", replace="\n", expect='C16-R2'),
    dict(name='range-check-dropped', file=_SP, find="        if spectrum.min_wavelength > self.min_wavelength or spectrum.max_wavelength < self.max_wavelength:", replace="        if False:", expect='C16-R2'),
    dict(name='update-w2p-keeps-settings', file=_SP, find="        self._wavelengths = tuple(_wavelengths)\n\n        self._clear_spectral_settings()\n\n    @property\n    def wavelength_to_pixel(self):\n        # Wavelength-to-pixel calibration arrays.\n        return self._wavelength_to_pixel\n\n    def resolution",
         replace="        self._wavelengths = tuple(_wavelengths)\n\n    @property\n    def wavelength_to_pixel(self):\n        # Wavelength-to-pixel calibration arrays.\n        return self._wavelength_to_pixel\n\n    def resolution", expect='C16-R1'),
]
TWINS = [
    dict(name='setter-skips-unchanged-value', file='cherab/tools/spectroscopy/polychromator.py',
         find="        self._min_bins_per_window = value\n        self._clear_spectral_settings()",
         replace="        if value != self._min_bins_per_window:\n            self._min_bins_per_window = value\n            self._clear_spectral_settings()"),
    dict(name='message-change', file=_SP, find='"Attribute \'grating\' must be positive."', replace='"grating must be > 0"'),
]
