"""C14 -- caching functions (DESIGN section 5, C14)."""
import ast
import re
import itertools
from fractions import Fraction

from ..program import Program, dotted, norm
from ..report import AnalysisError
from ..flow import guards_of, facts, stores
from ..algebra import SymEval, C, L, Rat, run_block

D = 'cherab/core/math/caching/'
FILES = [D + 'caching1d.pyx', D + 'caching2d.pyx', D + 'caching3d.pyx']
AX = ['x', 'y', 'z']
PERSIST = ('self.data_view', 'self.coeffs_view', 'self.calculated_view')


def check(run):
    prog = Program()
    prog.load_many(FILES)
    _PROG[0] = prog
    for f in FILES:
        run.use_file(f)
    run.explanation = (
        'Decides structural necessary conditions of C14 for Caching1D/2D/3D: (R1) noninterference: nothing stored into the persistent '
        'sample, coefficient and flag arrays (nor into the local system that produces the coefficients) depends on the query '
        'coordinates -- only the subscripts may; necessary for history independence; (R2) the cell flag is set after every coefficient '
        'store of that cell, the wrapped function is sampled at grid nodes x_domain[u] (, y_domain[v], z_domain[w]) in argument order '
        'and stored normalised with (min, 1/delta), which the coefficients undo (delta factor, + min on the constant term); (R3) '
        'out-of-range policy: inside the index window -> cached evaluation, else no_boundary_error -> the wrapped function on the '
        'original arguments, else ValueError; (R4) Hermite table: every entry of the constraint matrix equals the corresponding mixed '
        'derivative of the basis monomial of its column evaluated at the node (rows: value, first and mixed derivatives -- 4x4, 16x16, '
        '64x64 tables), the right-hand sides are the node value and the matching central differences over the same nodes, and the '
        'returned polynomial uses the same column-to-monomial map: the cached polynomial is the Hermite interpolant of the sampled '
        'nodes, which implies equality at nodes and exactness for functions linear in each coordinate given an exact solve. Does '
        'not decide the floating-point solve / re-expansion or the error bound for twice-differentiable functions.')
    run.assumptions = ['numpy.linalg.solve solves the linear system', 'raysect find_index returns the cell index of a coordinate',
                       'the Taylor re-expansion of the coefficients to un-normalised coordinates is exact']
    for nd, f in enumerate(FILES, 1):
        mi = prog.modules[f[:-4].replace('/', '.')]
        ci = prog.classes.get('%s.Caching%dD' % (mi.name, nd))
        if ci is None:
            raise AnalysisError('anchored class vanished: Caching%dD' % nd)
        _one(run, ci, nd)
        _once_and_nodes(run, ci, nd)
        _normalisation(run, ci, nd)
    run.floor('C14-R5', 6)
    run.floor('C14-R6', 3)
    _utility(run, prog)
    run.floor('C14-R1', 3)
    run.floor('C14-R2', 9, 'obligations')
    run.floor('C14-R3', 3)
    run.floor('C14-R4', 3 * 8, 'obligations')
    from ..cachekey import check_caches
    check_caches(run, [m_ for m_ in prog.modules.values() if m_.relpath in set(FILES) and not m_.name.endswith('#pxd')], 'C14-K', prog=prog)


def _utility(run, prog):
    """R7: the helpers the caching objects are built on (cherab/core/math/interpolators/utility.pyx): derivatives_array(v, k)[j] is the
    k-th derivative of v^j; factorial; find_index returns the lower index of the cell containing the value (documented end and
    extrapolation codes, bisection that keeps x[bottom] <= v < x[top])."""
    from ..pathinterp import PathInterp
    run.describe('C14-R7', 'interpolation helpers: derivatives_array = d^k/dv^k [1, v, v^2, v^3]; factorial; find_index end cases and bisection')
    rel = 'cherab/core/math/interpolators/utility.pyx'
    mi = prog.load(rel, required=False)
    if mi is None:
        raise AnalysisError('anchored source file vanished: %s' % rel)
    run.use_file(rel)
    K = mi.name + '|'
    # ---- derivatives_array
    fn = mi.functions.get('derivatives_array')
    if fn is None:
        raise AnalysisError('anchored function vanished: derivatives_array')
    vname, kname = [a.arg for a in fn.args.args[:2]]
    for k in range(0, 5):
        run.subject('C14-R7')
        try:
            paths = PathInterp(fn, (), {kname: k}, evaluator=SymEval, store_prefixes=('',), max_paths=8).run()
        except Exception as e:
            run.undecided('C14-R7', 'derivatives_array(v, %d)' % k, 'not interpreted: %s' % str(e)[:50])
            continue
        if len(paths) != 1:
            run.undecided('C14-R7', 'derivatives_array(v, %d)' % k, '%d paths' % len(paths))
            continue
        got = {}
        whole = None
        arr = None
        for key, val, tags, st, aug in paths[0].stores:
            m = re.match(r'^(\w+)\[(\d+)\]$', key)
            if m:
                arr = m.group(1)
                got[int(m.group(2))] = val
            elif re.match(r'^\w+\[:\]$', key) or re.match(r'^\w+\[None:None(:None)?\]$', key):
                whole = val
        want = []
        for j in range(4):
            c = 1
            for q in range(k):
                c *= (j - q)
            want.append(C(c) * (L(vname) ** (j - k)) if c else C(0))
        vals = [got.get(j, whole) for j in range(4)]
        if any(v is None for v in vals):
            run.undecided('C14-R7', 'derivatives_array(v, %d)' % k, 'entries %s not all stored' % sorted(got))
        elif all(a.eq(b) for a, b in zip(vals, want)):
            run.ok('C14-R7', 'derivatives_array(v, %d)' % k, '[%s]' % ', '.join(w.key() for w in want), sample=(k == 1))
        else:
            j = [i for i in range(4) if not vals[i].eq(want[i])][0]
            run.fail('C14-R7', K + 'derivatives_array|k=%d|j=%d' % (k, j), rel, fn.lineno,
                     'derivatives_array(v, %d)[%d] is %s; the %s derivative of v^%d is %s: the constraint rows and the evaluation of the cached '
                     'polynomial use a wrong power basis' % (k, j, vals[j].key(), ['0th', '1st', '2nd', '3rd', '4th'][k], j, want[j].key()))
    # ---- factorial
    fn = mi.functions.get('factorial')
    if fn is None:
        raise AnalysisError('anchored function vanished: factorial')
    run.subject('C14-R7')
    n = fn.args.args[0].arg
    rets = [r for r in ast.walk(fn) if isinstance(r, ast.Return) and r.value is not None]
    base = [r for r in rets if isinstance(r.value, ast.Constant)]
    rec = [r for r in rets if not isinstance(r.value, ast.Constant)]
    okf = None
    if len(base) == 1 and len(rec) == 1 and base[0].value.value == 1:
        g = facts(guards_of(fn, base[0]) or [])
        cond_ok = (n, '<=', '0') in g or (n, '<', '1') in g or (n, '==', '0') in g or (n, '<=', '1') in g or (n, '<', '2') in g
        txt = norm(rec[0].value).replace(' ', '')
        rec_ok = txt in ('%s*factorial(%s-1)' % (n, n), 'factorial(%s-1)*%s' % (n, n))
        okf = cond_ok and rec_ok
        if okf:
            run.ok('C14-R7', 'factorial', '1 for n <= 0, n * factorial(n - 1) otherwise')
        else:
            run.fail('C14-R7', K + 'factorial', rel, fn.lineno, 'factorial returns 1 under %s and %s otherwise: not n!' % (sorted(g), norm(rec[0].value)))
    else:
        loops = [x for x in ast.walk(fn) if isinstance(x, (ast.For, ast.While))]
        run.undecided('C14-R7', 'factorial', 'form not recognised (%d loops)' % len(loops))
    # ---- find_index
    fn = mi.functions.get('find_index')
    if fn is None:
        raise AnalysisError('anchored function vanished: find_index')
    xs, v = fn.args.args[0].arg, fn.args.args[1].arg
    pad = fn.args.args[2].arg if len(fn.args.args) > 2 else 'padding'
    tops = [norm(st.targets[0]) for st in fn.body if isinstance(st, ast.Assign) and norm(st.value).replace(' ', '') in ('%s.shape[0]-1' % xs, 'len(%s)-1' % xs)]
    wl = [w for w in fn.body if isinstance(w, ast.While)]
    run.subject('C14-R7')
    if len(tops) != 1 or len(wl) != 1:
        run.undecided('C14-R7', 'find_index', 'top index or search loop not found')
        return
    top = tops[0]
    pre = fn.body[:fn.body.index(wl[0])]
    table = {}
    for st in pre:
        if isinstance(st, ast.If) and len(st.body) == 1 and isinstance(st.body[0], ast.Return) and not st.orelse:
            table[norm(st.test).replace(' ', '')] = norm(st.body[0].value).replace(' ', '')
    want = {'%s==%s[0]' % (v, xs): '0', '%s==%s[%s]' % (v, xs, top): '%s-1' % top,
            '%s<%s[0]-%s' % (v, xs, pad): '-2', '%s>%s[%s]+%s' % (v, xs, top, pad): '%s+1' % top,
            '%s<%s[0]' % (v, xs): '-1', '%s>%s[%s]' % (v, xs, top): top}
    if table == want:
        # the order matters only between a test and the stricter test that must come first
        order = [norm(st.test).replace(' ', '') for st in pre if isinstance(st, ast.If)]
        strict_first = order.index('%s<%s[0]-%s' % (v, xs, pad)) < order.index('%s<%s[0]' % (v, xs)) and \
            order.index('%s>%s[%s]+%s' % (v, xs, top, pad)) < order.index('%s>%s[%s]' % (v, xs, top))
        if strict_first:
            run.ok('C14-R7', 'find_index end cases', '0 / top - 1 on the ends, -2 / top + 1 beyond the padding, -1 / top inside it')
        else:
            run.fail('C14-R7', K + 'find_index|order', rel, fn.lineno, 'find_index tests the extrapolation region before the region beyond it: a value '
                     'outside the permitted range is reported as inside the extrapolation range')
    elif set(table) == set(want):
        bad = sorted(k_ for k_ in want if table[k_] != want[k_])[0]
        run.fail('C14-R7', K + 'find_index|code', rel, fn.lineno, 'find_index returns %s when %s; documented: %s' % (table[bad], bad, want[bad]))
    else:
        run.undecided('C14-R7', 'find_index end cases', 'tests %s' % sorted(table)[:3])
    # bisection: invariant x[bottom] <= v < x[top]
    run.subject('C14-R7')
    w = wl[0]
    ifs = [x for x in w.body if isinstance(x, ast.If)]
    tt = norm(w.test).replace(' ', '').strip('()')
    ret = [st for st in fn.body[fn.body.index(w) + 1:] if isinstance(st, ast.Return)]
    if len(ifs) != 1 or not ret:
        run.undecided('C14-R7', 'find_index bisection', 'loop body not recognised')
        return
    t = ifs[0].test
    if not (isinstance(t, ast.Compare) and len(t.ops) == 1 and norm(t.left) == v and isinstance(t.comparators[0], ast.Subscript)
            and norm(t.comparators[0].value) == xs):
        run.undecided('C14-R7', 'find_index bisection', 'comparison %s' % norm(t)[:40])
        return
    mid = norm(t.comparators[0].slice)
    a_true = {norm(st.targets[0]): norm(st.value) for st in ifs[0].body if isinstance(st, ast.Assign)}
    a_false = {norm(st.targets[0]): norm(st.value) for st in ifs[0].orelse if isinstance(st, ast.Assign)}
    bottoms = [k_ for k_ in list(a_true) + list(a_false) if k_ != top]
    bottom = bottoms[0] if bottoms else None
    ge = isinstance(t.ops[0], (ast.GtE, ast.Gt))
    lower_arm, upper_arm = (a_true, a_false) if ge else (a_false, a_true)
    mids = [norm(st.value).replace(' ', '') for st in ast.walk(fn) if isinstance(st, ast.Assign) and norm(st.targets[0]) == mid]
    mid_ok = all(m_ in ('(%s+%s)/2' % (top, bottom), '(%s+%s)/2' % (bottom, top), '(%s+%s)//2' % (top, bottom), '(%s+%s)//2' % (bottom, top),
                                    '%s/2' % top, '%s//2' % top) for m_ in mids) and len(mids) >= 2
    problems = []
    if lower_arm != {bottom: mid} or upper_arm != {top: mid}:
        problems.append('when %s the search keeps %s and otherwise %s' % (norm(t), a_true, a_false))
    if isinstance(t.ops[0], (ast.Gt, ast.LtE)):
        problems.append('the node itself is compared with %s: a value equal to an interior node is placed in the cell below it, whose cached '
                        'polynomial it does not belong to when the cells are sampled lazily' % type(t.ops[0]).__name__)
    if tt not in ('%s-%s!=1' % (top, bottom), '%s-%s>1' % (top, bottom)):
        problems.append('the loop runs while %s' % norm(w.test))
    if norm(ret[0].value) != bottom:
        problems.append('%s is returned' % norm(ret[0].value))
    if not mid_ok:
        problems.append('the probe index is %s' % mids)
    if not problems:
        run.ok('C14-R7', 'find_index bisection', 'x[bottom] <= v < x[top] kept; the lower index returned when the bracket has width one')
    elif problems and ('the search keeps' in problems[0] or 'is returned' in ' '.join(problems) or 'the loop runs' in ' '.join(problems) or 'probe index' in ' '.join(problems)):
        run.fail('C14-R7', K + 'find_index|bisection', rel, w.lineno, 'find_index: %s; documented: the lower index of the cell that contains the value '
                 '(bisection keeping x[bottom] <= v < x[top])' % '; '.join(problems))
    else:
        run.undecided('C14-R7', 'find_index bisection', '; '.join(problems)[:80])


def _normalisation(run, ci, nd):
    """R6: samples are stored as (f - data_min) * data_delta_inv and the coefficients are scaled back with data_delta: on every path
    through the constructor the two constants are reciprocal (data_delta_inv * data_delta = 1), also for the degenerate bounds
    min = max that the constructor special-cases."""
    from ..pathinterp import PathInterp
    from ..algebra import SymEval, C, L
    run.describe('C14-R6', 'normalisation constants: data_delta_inv * data_delta = 1 on every path through the constructor')
    init = ci.methods.get('__init__')
    if init is None:
        raise AnalysisError('anchored method vanished: Caching%dD.__init__' % nd)
    words = ('data_delta', 'data_min', 'data_max')
    keep = [st for st in init.body if any(isinstance(x, ast.Attribute) and x.attr.startswith(words) for x in ast.walk(st))]
    run.subject('C14-R6')
    if not keep:
        run.undecided('C14-R6', 'Caching%dD.__init__' % nd, 'the normalisation constants are not set at the top level of the constructor')
        return
    synth = ast.FunctionDef(name='norm', args=init.args, body=keep, decorator_list=[], lineno=init.lineno)

    class E(SymEval):
        def call(self, n):
            if dotted(n.func) == 'float':
                return L('NAN')
            return super().call(n)
    try:
        paths = PathInterp(synth, (), {}, evaluator=E, store_prefixes=('self.data_',), max_paths=32).run()
    except Exception as e:
        run.undecided('C14-R6', 'Caching%dD.__init__' % nd, 'not interpreted: %s' % str(e)[:60])
        return
    K = '%s|Caching%dD|__init__|normalisation' % (ci.mod.name, nd)
    bad = None
    n = 0
    for p in paths:
        last = {}
        for key, val, tags, st, aug in p.stores:
            last[key] = (val, st)
        if 'self.data_delta' not in last or 'self.data_delta_inv' not in last:
            continue
        D, I = last['self.data_delta'][0], last['self.data_delta_inv'][0]
        if 'NAN' in D.leaves() | I.leaves():
            continue
        n += 1
        try:
            ok = (D * I).eq(C(1))
        except Exception:
            ok = None
        if ok is False:
            bad = (p, D, I, last['self.data_delta_inv'][1])
    if bad:
        p, D, I, st = bad
        run.fail('C14-R6', K, ci.mod.relpath, st.lineno,
                 'Caching%dD.__init__: on the path %s data_delta = %s but data_delta_inv = %s: the samples are normalised with one constant and '
                 'the coefficients scaled back with another that is not its reciprocal (bounds with min = max), so the cached function is '
                 'not the sampled one' % (nd, dict(p.decisions), D.key()[:40], I.key()[:40]))
    elif n:
        run.ok('C14-R6', 'Caching%dD.__init__' % nd, 'reciprocal on %d paths' % n)
    else:
        run.undecided('C14-R6', 'Caching%dD.__init__' % nd, 'no path sets both constants')


def _once_and_nodes(run, ci, nd):
    """R5: a sample is normalised exactly once (stores into the sample cache are dominated by 'not cached yet' and store the
    fresh function value); every axis has at least two nodes (one cell)."""
    run.describe('C14-R5', 'samples are normalised once, when first computed; every axis of the cache grid has at least two nodes')
    K = '%s|Caching%dD|' % (ci.mod.name, nd)
    fn = ci.methods['_evaluate']
    sts = [st for st in ast.walk(fn) if isinstance(st, ast.Assign) and isinstance(st.targets[0], ast.Subscript) and norm(st.targets[0].value) == 'self.data_view']
    run.subject('C14-R5')
    if not sts:
        run.undecided('C14-R5', 'Caching%dD sample store' % nd, 'no store into self.data_view')
    for st in sts:
        f = facts(guards_of(fn, st) or [])
        tgt = norm(st.targets[0])
        cached_test = ('isnan(%s)' % tgt, 'true', '') in f
        # the stored value is built from a local whose only definition is the function call
        names = [x.id for x in ast.walk(st.value) if isinstance(x, ast.Name)]
        fresh = False
        for nm in names:
            ds = [v for t, v, s2 in stores(fn) if isinstance(t, ast.Name) and t.id == nm]
            if ds and all(isinstance(v, ast.Call) and norm(v.func) == 'self.function.evaluate' for v in ds):
                fresh = True
        if any(isinstance(x, ast.Call) and norm(x.func) == 'self.function.evaluate' for x in ast.walk(st.value)):
            fresh = True
        if cached_test and fresh:
            run.ok('C14-R5', 'Caching%dD sample store' % nd, 'only when isnan(%s), from a fresh function value' % tgt)
        elif not cached_test:
            run.fail('C14-R5', K + '_evaluate|renormalised', ci.mod.relpath, st.lineno,
                     'Caching%dD stores the normalised sample %s also when it is already cached: neighbouring cells share samples, so a sample is '
                     'normalised again each time a neighbouring cell is built and the cached values depend on the order of evaluation' % (nd, tgt))
        else:
            run.fail('C14-R5', K + '_evaluate|stale-value', ci.mod.relpath, st.lineno,
                     'Caching%dD normalises %s, which is not always a fresh value of the wrapped function' % (nd, norm(st.value)[:60]))
    init = ci.methods.get('__init__')
    lins = [c for c in ast.walk(init) if isinstance(c, ast.Call) and dotted(c.func) in ('linspace', 'np.linspace') and len(c.args) >= 3] if init else []
    tests = ' ; '.join(norm(i.test) for i in ast.walk(init) if isinstance(i, ast.If)) if init else ''
    from ..inline import resolver
    res_init = resolver(init) if init is not None else None
    # axis agreement: the nodes of an axis are laid out from the bounds and the resolution of that same axis.  Each local is tagged with the
    # axis it was unpacked for (space_area = (min0, max0, min1, max1, ...), resolution = (d0, d1, ...)), whatever it is called.
    if init is not None and len(init.args.args) >= 4:
        from ..inline import split_unpacking as _split
        init_s = _split(init)
        area, reso = init.args.args[2].arg, init.args.args[3].arg
        tag = {}
        for st_ in ast.walk(init_s):
            if isinstance(st_, ast.Assign) and len(st_.targets) == 1 and isinstance(st_.targets[0], ast.Name):
                v_ = st_.value
                if isinstance(v_, ast.Subscript) and isinstance(v_.value, ast.Name) and isinstance(v_.slice, ast.Constant) and isinstance(v_.slice.value, int):
                    if v_.value.id == area:
                        tag[st_.targets[0].id] = v_.slice.value // 2
                    elif v_.value.id == reso:
                        tag[st_.targets[0].id] = v_.slice.value
                elif isinstance(v_, ast.Name) and v_.id == reso and nd == 1:
                    tag[st_.targets[0].id] = 0
        if nd == 1:
            for st_ in ast.walk(init_s):
                if isinstance(st_, ast.Assign) and len(st_.targets) == 1 and isinstance(st_.targets[0], ast.Name) and isinstance(st_.value, ast.Subscript) \
                        and isinstance(st_.value.value, ast.Name) and st_.value.value.id == area:
                    tag[st_.targets[0].id] = 0
        for st_ in ast.walk(init_s):
            if isinstance(st_, ast.Assign) and len(st_.targets) == 1 and re.match(r'^self\.[xyz]_np$', norm(st_.targets[0])) \
                    and any(isinstance(c_, ast.Call) and dotted(c_.func) in ('linspace', 'np.linspace', 'arange', 'np.arange') for c_ in ast.walk(st_.value)):
                ax = 'xyz'.index(norm(st_.targets[0])[5])
                used = {n_.id: tag[n_.id] for n_ in ast.walk(st_.value) if isinstance(n_, ast.Name) and n_.id in tag}
                run.subject('C14-R5')
                wrong = sorted(k_ for k_, a_ in used.items() if a_ != ax)
                if wrong:
                    run.fail('C14-R5', K + '__init__|axis-mixed:%s' % 'xyz'[ax], ci.mod.relpath, st_.lineno,
                             "Caching%dD lays out the %s nodes using %s, which belong%s to the %s axis: the node spacing of one axis follows the "
                             "resolution or extent of another" % (nd, 'xyz'[ax], wrong, 's' if len(wrong) == 1 else '', 'xyz'[used[wrong[0]]]))
                elif used:
                    run.ok('C14-R5', 'Caching%dD %s nodes axis' % (nd, 'xyz'[ax]), sorted(used), sample=False)
                else:
                    run.undecided('C14-R5', 'Caching%dD %s nodes axis' % (nd, 'xyz'[ax]), 'bounds / resolution of the axis not traced')
    for c in lins:
        run.subject('C14-R5')
        cnt = res_init(c.args[2]) if res_init is not None else c.args[2]
        mx = [m for m in ast.walk(cnt) if isinstance(m, ast.Call) and dotted(m.func) == 'max' and any(
            isinstance(a, ast.Constant) and isinstance(a.value, int) and a.value >= 2 for a in m.args)]
        if mx and mx[0] is cnt:
            run.ok('C14-R5', 'Caching%dD nodes %s' % (nd, norm(c.args[0])[:12]), norm(cnt), sample=False)
        elif not any(isinstance(m, ast.Call) and dotted(m.func) == 'max' for m in ast.walk(cnt)) and ' - ' not in tests.replace('EPSILON', ''):
            run.fail('C14-R5', K + '__init__|single-node', ci.mod.relpath, c.lineno,
                     'Caching%dD takes %s nodes on an axis with no lower bound of 2: when the resolution exceeds the extent the axis has one node and no '
                     'cell, every point of the area is then out of range' % (nd, norm(cnt)))
        else:
            run.undecided('C14-R5', 'Caching%dD nodes' % nd, 'node count %s not recognised' % norm(cnt))


_PROG = [None]


def _sample_name(block, call):
    """the local that receives the sample of the wrapped function (whatever it is called, also after helper expansion)"""
    if call:
        for st in ast.walk(block):
            if isinstance(st, ast.Assign) and st.value is call[0] and len(st.targets) == 1 and isinstance(st.targets[0], ast.Name):
                return st.targets[0].id
    return 'value'


def _one(run, ci, nd):
    run.describe('C14-R1', 'values stored into persistent arrays do not depend on the query coordinates')
    run.describe('C14-R2', 'flag after fill; nodes sampled at grid coordinates; normalisation and its inverse')
    run.describe('C14-R3', 'out-of-range policy')
    run.describe('C14-R4', 'constraint matrix rows are derivatives of the basis monomials at the node; right-hand sides are node values / central differences')
    K = '%s|Caching%dD|' % (ci.mod.name, nd)
    path = ci.mod.relpath
    fn = ci.methods.get('_evaluate')
    ev = ci.methods.get('evaluate')
    if fn is None or ev is None:
        raise AnalysisError('anchored method vanished: Caching%dD._evaluate/evaluate' % nd)
    if _PROG[0] is not None:
        # blocks of _evaluate moved into private methods are read where they are called (the anchors of the rules themselves stay calls)
        from ..inline import flatten, class_lookup
        keep = ('_constraints3d', '_evaluate_polynomial_derivative', '_evaluate')
        fn = flatten(fn, class_lookup(_PROG[0], ci), keep=keep)
        ev = flatten(ev, class_lookup(_PROG[0], ci), keep=keep)
    run.functions += 2
    coords = [a.arg for a in fn.args.args[1:1 + nd]]
    # ---------------- R1 taint
    tainted = set(coords)
    changed = True
    assigns = [(t, v, st) for t, v, st in stores(fn)]
    while changed:
        changed = False
        for t, v, st in assigns:
            if isinstance(t, ast.Name) and t.id not in tainted and v is not None and any(isinstance(n, ast.Name) and n.id in tainted for n in ast.walk(v)):
                tainted.add(t.id)
                changed = True
    run.subject('C14-R1')
    bad = None
    sinks = 0
    for t, v, st in assigns:
        base = t
        while isinstance(base, ast.Subscript):
            base = base.value
        bt = norm(base)
        if bt.startswith(PERSIST) or bt in ('cm_view', 'cv_view', 'coeffs_view'):
            sinks += 1
            vnames = {n.id for n in ast.walk(v) if isinstance(n, ast.Name)} if v is not None else set()
            # subscripts of the *value* may not be tainted either (they select which data is stored)
            if vnames & tainted:
                bad = (st, sorted(vnames & tainted))
                break
    if bad:
        run.fail('C14-R1', K + '_evaluate|tainted-store', path, bad[0].lineno,
                 "Caching%dD._evaluate stores '%s', which depends on the query coordinate(s) %s, into cached state: the value returned later "
                 "depends on which points were evaluated before" % (nd, norm(bad[0])[:80], bad[1]))
    elif sinks < 6:
        run.undecided('C14-R1', 'Caching%dD' % nd, 'only %d stores into cached state found' % sinks)
    else:
        run.ok('C14-R1', 'Caching%dD noninterference' % nd, '%d stores into cached state, none depends on %s' % (sinks, coords))
    # ---------------- R2 ordering / sampling / normalisation
    blk = [s for s in fn.body if isinstance(s, ast.If) and 'self.calculated_view' in norm(s.test)]
    run.subject('C14-R2')
    if len(blk) != 1 or not norm(blk[0].test).startswith('not self.calculated_view['):
        run.fail('C14-R2', K + '_evaluate|flag-test', path, fn.lineno, 'Caching%dD._evaluate does not test the per-cell flag before computing' % nd)
        return
    body = blk[0].body
    cell = norm(blk[0].test.operand.slice)
    cell_c = cell.replace(' ', '').strip('()')
    flag = [s for s in body if isinstance(s, ast.Assign) and norm(s.targets[0]).replace(' ', '') == 'self.calculated_view[%s]' % cell_c]
    cstores = [s for s in body if isinstance(s, ast.Assign) and norm(s.targets[0]).startswith('self.coeffs_view[')]
    if len(flag) == 1 and norm(flag[0].value) == 'True' and cstores and body.index(flag[0]) == len(body) - 1 \
            and all(body.index(c) < body.index(flag[0]) for c in cstores) \
            and all(norm(c.targets[0]).replace(' ', '').startswith('self.coeffs_view[%s,' % cell.replace(' ', '').strip('()')) for c in cstores):
        run.ok('C14-R2', 'Caching%dD flag after fill' % nd, 'calculated[%s] = True is the last statement, after %d coefficient stores of the same cell' % (cell, len(cstores)))
    else:
        run.fail('C14-R2', K + '_evaluate|flag-order', path, (flag[0] if flag else blk[0]).lineno,
                 'Caching%dD._evaluate marks the cell as calculated before (or without) storing its final coefficients' % nd)
    run.subject('C14-R2')
    call = [c for c in ast.walk(blk[0]) if isinstance(c, ast.Call) and norm(c.func) == 'self.function.evaluate']
    loopvars = []
    for l in ast.walk(blk[0]):
        if isinstance(l, ast.For) and call and any(x is call[0] for x in ast.walk(l)):
            loopvars.append((l.lineno, l.target.id, norm(l.iter)))
    loopvars.sort()
    want_args = ['self.%s_domain_view[%s]' % (AX[k], loopvars[k][1]) for k in range(min(nd, len(loopvars)))]
    want_rng = ['range(i_%s - 1, i_%s + 3)' % (AX[k], AX[k]) for k in range(nd)]
    if call and len(loopvars) == nd and [norm(a) for a in call[0].args] == want_args and [lv[2] for lv in loopvars] == want_rng:
        run.ok('C14-R2', 'Caching%dD node sampling' % nd, 'function(%s) for the 4^%d surrounding nodes' % (', '.join(want_args), nd))
    else:
        run.fail('C14-R2', K + '_evaluate|node-sampling', path, (call[0] if call else blk[0]).lineno,
                 'Caching%dD samples the wrapped function at %s over %s; documented: at the grid nodes %s' % (
                     nd, [norm(a) for a in call[0].args] if call else None, [lv[2] for lv in loopvars], want_args))
    # every empty node of the stencil is sampled: inside the sampling loops nothing but the node's own emptiness decides whether it is sampled
    if call and len(loopvars) == nd:
        run.subject('C14-R2')
        from ..flow import guards_of as _guards_of
        own = 'isnan(self.data_view[%s])' % ', '.join(lv[1] for lv in loopvars)
        first_loop = min(lv[0] for lv in loopvars)
        lnames = {lv[1] for lv in loopvars}
        foreign, unknown = [], []
        for g in (_guards_of(fn, call[0]) or []):
            t, pol = g
            if not isinstance(t, ast.AST) or isinstance(t, ast.For) or getattr(t, 'lineno', 0) < first_loop:
                continue
            if not ({n.id for n in ast.walk(t) if isinstance(n, ast.Name)} & lnames):
                continue
            if norm(t) == own and pol is True:
                continue
            if 'isnan(self.data_view[' in norm(t):
                foreign.append(t)
            else:
                unknown.append(t)
        if foreign:
            run.fail('C14-R2', K + '_evaluate|node-skipped', path, foreign[0].lineno,
                     'Caching%dD decides whether to sample a node from the state of other nodes (%s): a node that is still empty can be '
                     'skipped, and the cell is then built from missing samples depending on which cells were evaluated before' % (nd, norm(foreign[0])[:90]))
        elif unknown:
            run.undecided('C14-R2', 'Caching%dD every empty node sampled' % nd, 'sampling guarded by ' + norm(unknown[0])[:60])
        else:
            run.ok('C14-R2', 'Caching%dD every empty node sampled' % nd, 'the only guard inside the sampling loops is ' + own, sample=False)
    run.subject('C14-R2')
    dstore = [s for s in ast.walk(blk[0]) if isinstance(s, ast.Assign) and norm(s.targets[0]).startswith('self.data_view[')]
    # constant term: + data_min, written as an assignment or as an augmented assignment
    added = None
    for s_ in body:
        if isinstance(s_, ast.Assign) and norm(s_.targets[0]) == 'coeffs_view[0]':
            added = SymEval().ev(s_.value) - L('coeffs_view[0]')
        elif isinstance(s_, ast.AugAssign) and norm(s_.target) == 'coeffs_view[0]' and isinstance(s_.op, ast.Add):
            added = SymEval().ev(s_.value)
    scale = [s for s in ast.walk(blk[0]) if isinstance(s, ast.Assign) and norm(s.targets[0]).startswith('coeffs_view[') and norm(s.value).startswith('self.data_delta * ')]
    idx = ', '.join(lv[1] for lv in loopvars)
    stored = SymEval().ev(dstore[0].value) if dstore else None
    if stored is not None and added is None and 'self.data_min' in stored.leaves():
        run.fail('C14-R2', K + '_evaluate|normalisation', path, blk[0].lineno,
                 'Caching%dD subtracts data_min from the samples it stores but never adds it back to the constant coefficient: cached values are '
                 'shifted by the lower function boundary' % nd)
    elif stored is None or added is None or not scale:
        run.undecided('C14-R2', 'Caching%dD normalisation' % nd, 'store of the normalised sample / de-normalisation of the coefficients not recognised')
    elif stored.eq((L(_sample_name(blk[0], call)) - L('self.data_min')) * L('self.data_delta_inv')) and norm(dstore[0].targets[0]) == 'self.data_view[%s]' % idx \
            and added.eq(L('self.data_min')):
        run.ok('C14-R2', 'Caching%dD normalisation' % nd, 'stored (v - min) / delta; coefficients * delta, constant term + min')
    else:
        run.fail('C14-R2', K + '_evaluate|normalisation', path, blk[0].lineno,
                 'Caching%dD stores %s and de-normalises with %s, constant term + %s: value normalisation is not undone consistently' % (
                     nd, stored.key()[:80], norm(scale[0].value)[:40], added.key()[:40]))
    # ---------------- R3 out-of-range policy
    run.subject('C14-R3')
    pc = [a.arg for a in ev.args.args[1:1 + nd]]
    ret_cached = [r for r in ast.walk(ev) if isinstance(r, ast.Return) and isinstance(r.value, ast.Call) and norm(r.value.func) == 'self._evaluate']
    ret_direct = [r for r in ast.walk(ev) if isinstance(r, ast.Return) and isinstance(r.value, ast.Call) and norm(r.value.func) == 'self.function.evaluate']
    raises = [r for r in ast.walk(ev) if isinstance(r, ast.Raise)]
    ok = False
    why = ''
    if len(ret_cached) == 1 and len(ret_direct) == 1 and raises:
        f = facts(guards_of(ev, ret_cached[0]) or [])
        inwin = all(('i_%s' % AX[k], '>=', '1') in f and ('i_%s' % AX[k], '<=', 'self.top_index_%s - 2' % AX[k]) in f for k in range(nd))
        fd = facts(guards_of(ev, ret_direct[0]) or [])
        fr = facts(guards_of(ev, raises[0]) or [])
        exc = raises[0].exc.func if isinstance(raises[0].exc, ast.Call) else raises[0].exc
        args_c = [norm(a) for a in ret_cached[0].value.args]
        idxdefs = {norm(t): norm(v) for t, v, st in stores(ev) if isinstance(st, ast.Assign)}
        idx_ok = all(idxdefs.get('i_' + AX[k]) == 'find_index(self.%s_domain_view, %s)' % (AX[k], pc[k]) for k in range(nd))
        ok = inwin and ('self.no_boundary_error', 'true', '') in fd and ('self.no_boundary_error', 'false', '') in fr and dotted(exc) == 'ValueError' \
            and [norm(a) for a in ret_direct[0].value.args] == pc and args_c == pc + ['i_' + AX[k] for k in range(nd)] and idx_ok
        why = 'cached under %s; direct %s; raise %s' % (sorted(f)[:4], sorted(fd), dotted(exc))
    if ok:
        run.ok('C14-R3', 'Caching%dD policy' % nd, 'index window -> cached; no_boundary_error -> function(original args); else ValueError')
    else:
        run.fail('C14-R3', K + 'evaluate|policy', path, ev.lineno,
                 'Caching%dD.evaluate does not implement "inside the caching area: cached value; outside: wrapped function on the original '
                 'arguments if no_boundary_error, else ValueError" (%s)' % (nd, why))
    # ---------------- R4 Hermite table
    _hermite(run, ci, nd, fn, blk[0], K, path)


def _helper_row(ci, call, nd, lv):
    """Row produced by self._constraintsNd(u, v, w, x_der, y_der, z_der): products of per-axis component lists."""
    helper = ci.methods.get(call.func.attr)
    if helper is None:
        return None
    params = [a.arg for a in helper.args.args[1:]]
    if len(call.args) != 2 * nd or [norm(a) for a in call.args[:nd]] != lv:
        return None
    flags = {}
    for p, a in zip(params[nd:], call.args[nd:]):
        if not (isinstance(a, ast.Constant) and isinstance(a.value, bool)):
            return None
        flags[p] = a.value
    he = HermEval(nd, params[:nd])
    comps = {}
    for st in helper.body:
        if isinstance(st, ast.If) and isinstance(st.test, ast.Name) and st.test.id in flags:
            for s2 in (st.body if flags[st.test.id] else st.orelse):
                if isinstance(s2, ast.Assign) and isinstance(s2.targets[0], ast.Subscript) and isinstance(s2.targets[0].slice, ast.Constant):
                    comps.setdefault(norm(s2.targets[0].value), {})[s2.targets[0].slice.value] = he.ev(s2.value)
    # run the loop nest concretely: loop variables range over range(4) or over the four components of an axis;
    # stores result_view[<integer expression>] = <product of components>
    row = {}
    ienv = {}

    class RowEval(SymEval):
        def name(self, n):
            if n.id in cenv:
                return cenv[n.id]
            return super().name(n)

        def subscript(self, n):
            b = norm(n.value)
            if b in comps:
                k = _int(n.slice)
                if k is None or k not in comps[b]:
                    raise ValueError('component index')
                return comps[b][k]
            return super().subscript(n)
    cenv = {}

    def _int(e):
        from ..program import const_fold
        class Sub(ast.NodeTransformer):
            def visit_Name(self, n):
                if n.id in ienv:
                    return ast.copy_location(ast.Constant(value=ienv[n.id]), n)
                return n
        import copy
        v = const_fold(Sub().visit(copy.deepcopy(e)))
        return int(v) if v is not None and float(v) == int(v) else None

    def ex(stmts):
        for st in stmts:
            if isinstance(st, ast.For) and isinstance(st.target, ast.Name):
                it = st.iter
                if isinstance(it, ast.Call) and dotted(it.func) == 'range' and len(it.args) == 1 and _int(it.args[0]) is not None:
                    for k in range(_int(it.args[0])):
                        ienv[st.target.id] = k
                        ex(st.body)
                elif norm(it) in comps and len(comps[norm(it)]) == 4:
                    for k in range(4):
                        cenv[st.target.id] = comps[norm(it)][k]
                        ex(st.body)
                else:
                    raise ValueError('loop')
            elif isinstance(st, ast.Assign) and isinstance(st.targets[0], ast.Name) and _int(st.value) is not None:
                ienv[st.targets[0].id] = _int(st.value)
            elif isinstance(st, ast.AugAssign) and isinstance(st.target, ast.Name) and st.target.id in ienv and isinstance(st.op, ast.Add) and _int(st.value) is not None:
                ienv[st.target.id] += _int(st.value)
            elif isinstance(st, ast.Assign) and isinstance(st.targets[0], ast.Subscript) and norm(st.targets[0].value) in ('result_view', 'result'):
                k = _int(st.targets[0].slice)
                if k is None:
                    raise ValueError('store index')
                row[k] = RowEval().ev(st.value)
            elif isinstance(st, (ast.If, ast.Expr, ast.AnnAssign, ast.Return, ast.Pass)):
                continue
            elif isinstance(st, ast.Assign):
                continue
            else:
                raise ValueError('statement')
    try:
        ex(helper.body)
    except ValueError:
        return None
    if sorted(row) != list(range(4 ** nd)):
        return None
    return row


class HermEval(SymEval):
    def __init__(self, nd, loopvars):
        super().__init__()
        self.nd = nd
        self.lv = loopvars     # axis -> loop variable name

    def subscript(self, n):
        base = norm(n.value)
        for k in range(self.nd):
            a = AX[k]
            for p, name in ((1, 'self.%s_view' % a), (2, 'self.%s2_view' % a), (3, 'self.%s3_view' % a)):
                if base == name:
                    off = SymEval().ev(n.slice) - L(self.lv[k])
                    if off.is_const():
                        o = int(off.const_value())
                        if o == 0:
                            return L(a.upper()) ** p
                        if p == 1:
                            return L('%s%s' % (a.upper(), '+' if o > 0 else '-') + (str(abs(o)) if abs(o) != 1 else ''))
        if base == 'self.data_view':
            idx = n.slice.elts if isinstance(n.slice, ast.Tuple) else [n.slice]
            offs = []
            for k, e in enumerate(idx):
                off = SymEval().ev(e) - L(self.lv[k])
                if not off.is_const():
                    return super().subscript(n)
                offs.append(int(off.const_value()))
            return L('D%s' % (tuple(offs),))
        return super().subscript(n)


def _hermite(run, ci, nd, fn, blk, K, path):
    # the loop nest that fills cm_view / cv_view
    fills = [l for l in blk.body if isinstance(l, ast.For) and any(isinstance(s, ast.Assign) and norm(s.targets[0]).startswith('cm_view[') for s in ast.walk(l))]
    if len(fills) != 1:
        run.undecided('C14-R4', 'Caching%dD' % nd, 'constraint matrix loop nest not found')
        return
    loops = []
    l = fills[0]
    while True:
        loops.append(l)
        inner = [s for s in l.body if isinstance(s, ast.For)]
        if len(inner) == 1 and len(l.body) == 1:
            l = inner[0]
        else:
            break
    run.subject('C14-R4')
    if len(loops) != nd or [norm(x.iter) for x in loops] != ['range(i_%s, i_%s + 2)' % (AX[k], AX[k]) for k in range(nd)]:
        run.fail('C14-R4', K + '_evaluate|node-loops', path, fills[0].lineno,
                 'the constraint rows are not generated for the 2^%d corner nodes range(i, i + 2) per axis: %s' % (nd, [norm(x.iter) for x in loops]))
        return
    run.ok('C14-R4', 'Caching%dD corner nodes' % nd, '2^%d corners, %d rows each' % (nd, 2 ** nd), sample=False)
    lv = [x.target.id for x in loops]
    he = HermEval(nd, lv)
    body = loops[-1].body
    rows = {}      # row offset -> {col: Rat}
    rhs = {}
    deltas = {}
    off = 0
    for st in body:
        if isinstance(st, ast.AugAssign) and norm(st.target) == 'l' and norm(st.value) == '1':
            off += 1
            continue
        if isinstance(st, ast.Assign):
            t = st.targets[0]
            tt = norm(t)
            if tt.startswith('cm_view[') and isinstance(t.slice, ast.Tuple) and norm(t.slice.elts[0]) == 'l' and isinstance(t.slice.elts[1], ast.Constant):
                rows.setdefault(off, {})[t.slice.elts[1].value] = he.ev(st.value)
            elif tt.replace(' ', '') == 'cm_view[l,:]' and isinstance(st.value, ast.Call) and (norm(st.value.func).startswith('self._constraints')):
                hr = _helper_row(ci, st.value, nd, lv)
                if hr is None:
                    run.undecided('C14-R4', 'Caching%dD row %d' % (nd, off), 'cannot interpret %s' % norm(st.value)[:60])
                    return
                rows[off] = hr
            elif tt == 'cv_view[l]':
                rhs[off] = he.ev(st.value)
            elif isinstance(t, ast.Name):
                he.env[t.id] = he.ev(st.value)
                if t.id.startswith('delta_'):
                    deltas[t.id] = he.env[t.id]
    nrow = 2 ** nd
    ncol = 4 ** nd
    run.subject('C14-R4')
    if sorted(rows) != list(range(nrow)) or sorted(rhs) != list(range(nrow)):
        run.fail('C14-R4', K + '_evaluate|row-count', path, loops[-1].lineno, 'expected %d constraint rows per node, found %s' % (nrow, sorted(rows)))
        return
    # column -> monomial exponents from the value row (the row whose rhs is the node value)
    vrow = [r for r, v in rhs.items() if v.key() == 'D%s' % (tuple([0] * nd),)]
    if len(vrow) != 1:
        run.fail('C14-R4', K + '_evaluate|value-row', path, loops[-1].lineno, 'no single row constrains the node value itself')
        return
    V = [L(AX[k].upper()) for k in range(nd)]
    mono = {}
    for exps in itertools.product(range(4), repeat=nd):
        m = C(1)
        for k, e in enumerate(exps):
            m = m * V[k] ** e
        mono[m.key()] = exps
    colmap = {}
    for col, val in rows[vrow[0]].items():
        if val.key() in mono:
            colmap[col] = mono[val.key()]
    if len(colmap) != ncol or len(set(colmap.values())) != ncol:
        run.fail('C14-R4', K + '_evaluate|basis', path, loops[-1].lineno,
                 'the value row does not contain each of the %d basis monomials x^i y^j z^k exactly once (%d recognised)' % (ncol, len(colmap)))
        return
    run.ok('C14-R4', 'Caching%dD basis' % nd, '%d columns <-> monomials, e.g. column 1 = %s' % (ncol, colmap.get(1)), sample=False)
    # kind of every row from its right-hand side: which axes carry a central difference
    seen_kinds = set()
    for r in range(nrow):
        run.subject('C14-R4')
        val = rhs[r]
        kind = None
        for cand in itertools.product((0, 1), repeat=nd):
            num = C(0)
            for signs in itertools.product(*[((1, 1), (-1, -1)) if a else ((0, 1),) for a in cand]):
                offs = tuple(s[0] for s in signs)
                sg = 1
                for s in signs:
                    sg *= s[1]
                num = num + C(sg) * L('D%s' % (offs,))
            den = C(1)
            for k, a in enumerate(cand):
                if a:
                    den = den * (L(AX[k].upper() + '+') - L(AX[k].upper() + '-'))
            if val.eq(num / den):
                kind = cand
        if kind is None:
            run.fail('C14-R4', K + '_evaluate|rhs|row%d' % r, path, loops[-1].lineno,
                     'right-hand side of constraint row %d is %s: not a node value or a central difference over the neighbouring nodes' % (r, val.key()[:160]))
            continue
        seen_kinds.add(kind)
        badcols = []
        for col in range(ncol):
            exps = colmap[col]
            want = C(1)
            for k in range(nd):
                e, a = exps[k], kind[k]
                if a and e == 0:
                    want = C(0)
                    break
                coef = e if a else 1
                want = want * C(coef) * V[k] ** (e - a)
            got = rows[r].get(col, C(0))
            if not got.eq(want):
                badcols.append((col, got.key(), want.key()))
        if badcols:
            c0 = badcols[0]
            run.fail('C14-R4', K + '_evaluate|matrix|row%d' % r, path, loops[-1].lineno,
                     'constraint row %d (derivative orders %s): column %d holds %s, the derivative of its basis monomial is %s (%d wrong entries)'
                     % (r, kind, c0[0], c0[1], c0[2], len(badcols)))
        else:
            run.ok('C14-R4', 'Caching%dD row %d %s' % (nd, r, kind), '%d entries equal the %s-derivative of the basis at the node; rhs matches' % (ncol, kind), sample=(r < 2))
    run.subject('C14-R4')
    if len(seen_kinds) == nrow:
        run.ok('C14-R4', 'Caching%dD all derivative kinds' % nd, sorted(seen_kinds), sample=False)
    else:
        run.fail('C14-R4', K + '_evaluate|kinds', path, loops[-1].lineno, 'the %d rows do not cover all %d derivative kinds: %s' % (nrow, nrow, sorted(seen_kinds)))
    # the returned polynomial uses the same column map
    rets = [r for r in fn.body if isinstance(r, ast.Return)]
    run.subject('C14-R4')
    if rets:
        coords = [a.arg for a in fn.args.args[1:1 + nd]]
        e = SymEval()
        run_block(e, [s for s in fn.body if isinstance(s, ast.Assign) and isinstance(s.targets[0], ast.Name) and s.targets[0].id.startswith('p')])
        # a local view of the cell's coefficients (c = self.coeffs_view[i, j, :]) read as c[k] is self.coeffs_view[i, j, k]
        import copy as _copy
        views = {}
        for s_ in fn.body:
            if isinstance(s_, ast.Assign) and len(s_.targets) == 1 and isinstance(s_.targets[0], ast.Name) and isinstance(s_.value, ast.Subscript):
                ix = s_.value.slice.elts if isinstance(s_.value.slice, ast.Tuple) else [s_.value.slice]
                if ix and isinstance(ix[-1], ast.Slice) and ix[-1].lower is None and ix[-1].upper is None and ix[-1].step is None:
                    views[s_.targets[0].id] = (s_.value.value, list(ix[:-1]))

        class _V(ast.NodeTransformer):
            def visit_Subscript(self, n):
                self.generic_visit(n)
                if isinstance(n.value, ast.Name) and n.value.id in views and not isinstance(n.slice, (ast.Tuple, ast.Slice)):
                    b_, ix_ = views[n.value.id]
                    return ast.copy_location(ast.Subscript(value=_copy.deepcopy(b_), slice=ast.Tuple(elts=[_copy.deepcopy(x) for x in ix_] + [n.slice], ctx=ast.Load()),
                                                           ctx=ast.Load()), n)
                return n
        retv = _V().visit(_copy.deepcopy(rets[-1].value)) if views else rets[-1].value
        ast.fix_missing_locations(retv)
        got = e.ev(retv)
        want = C(0)
        cellidx = None
        for sub in ast.walk(retv):
            if isinstance(sub, ast.Subscript) and norm(sub.value) == 'self.coeffs_view':
                idxs = sub.slice.elts if isinstance(sub.slice, ast.Tuple) else [sub.slice]
                cellidx = ','.join(SymEval().ev(x).key() for x in idxs[:-1])
                break
        for col, exps in colmap.items():
            m = L('self.coeffs_view[%s,%d]' % (cellidx, col))
            for k, ex in enumerate(exps):
                m = m * L(coords[k]) ** ex
            want = want + m
        if got.eq(want):
            run.ok('C14-R4', 'Caching%dD evaluation polynomial' % nd, 'sum_k c_k * monomial_k(p) with the same column map')
        elif cellidx is None or any(not (l.startswith('self.coeffs_view[') or l in coords) for l in got.leaves()):
            run.undecided('C14-R4', 'Caching%dD evaluation polynomial' % nd, 'returned expression not over the cell coefficients: %s' % sorted(got.leaves())[:3])
        else:
            run.fail('C14-R4', K + '_evaluate|polynomial', path, rets[-1].lineno,
                     'the returned polynomial does not pair every coefficient with the basis monomial of its column')
    # x2_view / x3_view are the square / cube of x_view
    init = ci.methods.get('__init__')
    d = {norm(t): norm(v) for t, v, st in stores(init) if isinstance(st, ast.Assign)}
    for k in range(nd):
        a = AX[k]
        run.subject('C14-R4')
        base = d.get('self.%s_view' % a)
        if base is not None and d.get('self.%s2_view' % a) == '%s * %s' % (base, base) and d.get('self.%s3_view' % a) == '%s * %s * %s' % (base, base, base):
            run.ok('C14-R4', 'Caching%dD %s powers' % (nd, a), '%s2 = %s^2, %s3 = %s^3' % (a, a, a, a), sample=False)
        else:
            run.fail('C14-R4', K + '__init__|powers:' + a, path, init.lineno, '%s2_view / %s3_view are %s / %s' % (a, a, d.get('self.%s2_view' % a), d.get('self.%s3_view' % a)))


_C1, _C2, _C3 = FILES
MUTANTS = [
    dict(name='y-nodes-counted-with-the-x-resolution', file='cherab/core/math/caching/caching2d.pyx',
         find="max(int((maxy - miny) / deltay) + 1, 2)", replace="max(int((maxy - miny) / deltax) + 1, 2)", expect='C14-R5'),
    dict(name='lines-of-nodes-skipped-by-their-ends', file='cherab/core/math/caching/caching3d.pyx',
         find="                    for w in range(i_z-1, i_z+3):\n                        if isnan(self.data_view[u, v, w]):",
         replace="                    if not (isnan(self.data_view[u, v, i_z-1]) or isnan(self.data_view[u, v, i_z+2])):\n                        continue\n                    for w in range(i_z-1, i_z+3):\n                        if isnan(self.data_view[u, v, w]):", expect='C14-R2'),
    dict(name='sample-renormalised-when-cached', file=_C1, find="                if isnan(self.data_view[u]):\n                    value = self.function.evaluate(self.x_domain_view[u])\n                    if not isnan(value):\n                        # data values are normalised here\n                        self.data_view[u] = (value - self.data_min) * self.data_delta_inv",
         replace="                value = self.data_view[u]\n                if isnan(value):\n                    value = self.function.evaluate(self.x_domain_view[u])\n                self.data_view[u] = (value - self.data_min) * self.data_delta_inv", expect='C14-R5'),
    dict(name='single-node-axis', file=_C1, find="max(int((maxx - minx) / deltax) + 1, 2)", replace="int(round((maxx - minx) / deltax)) + 1", expect='C14-R5'),
    dict(name='sample-at-query-point', file=_C1, find="value = self.function.evaluate(self.x_domain_view[u])", replace="value = self.function.evaluate(px)", expect='C14-R'),
    dict(name='flag-before-solve', file=_C2, find="        if not self.calculated_view[i_x_p, i_y_p]:\n", replace="        if not self.calculated_view[i_x_p, i_y_p]:\n            self.calculated_view[i_x_p, i_y_p] = True\n", expect=None),
    dict(name='flag-never-set', file=_C2, find="            self.calculated_view[i_x_p, i_y_p] = True\n", replace="", expect='C14-R2'),
    dict(name='passthrough-inverted', file=_C1, find="        if self.no_boundary_error:\n            return self.function.evaluate(px)", replace="        if not self.no_boundary_error:\n            return self.function.evaluate(px)", expect='C14-R3'),
    dict(name='hermite-entry-changed', file=_C2, find="cm_view[l, 10] = 4.*self.x_view[u]*self.y_view[v]", replace="cm_view[l, 10] = 2.*self.x_view[u]*self.y_view[v]", expect='C14-R4'),
    dict(name='central-difference-one-sided', file=_C1, find="cv_view[l] = (self.data_view[u+1] - self.data_view[u-1])/delta_x", replace="cv_view[l] = (self.data_view[u+1] - self.data_view[u])/delta_x", expect='C14-R4'),
    dict(name='normalisation-min-not-restored', file=_C3, find="            coeffs_view[0] = coeffs_view[0] + self.data_min\n", replace="", expect='C14-R2'),
    dict(name='coefficient-depends-on-query', file=_C1, find="            cv_size = 4", replace="            self.data_view[i_x] = self.data_view[i_x] + 0.0 * px\n            cv_size = 4", expect='C14-R1'),
    dict(name='window-off-by-one', file=_C1, find="        if 1 <= i_x <= self.top_index_x - 2:", replace="        if 1 <= i_x <= self.top_index_x - 1:", expect='C14-R3'),
    dict(name='passthrough-swapped-arguments', file=_C2, find="            return self.function.evaluate(px, py)", replace="            return self.function.evaluate(py, px)", expect='C14-R3'),
    dict(name='polynomial-term-wrong-power', file=_C1, find="self.coeffs_view[i_x_p,  2] * px * px", replace="self.coeffs_view[i_x_p,  2] * px", expect='C14-R4'),
]
MUTANTS = [m for m in MUTANTS if m.get('expect')]
TWINS = [
    dict(name='flag-test-rewritten', file=_C1, find="        if not self.calculated_view[i_x_p]:", replace="        if not self.calculated_view[i_x_p]:  # compute the cell polynomial once"),
]
