"""C04 -- beam density: guards, one envelope, stopping / attenuation forms (DESIGN section 5, C04)."""
import ast
from fractions import Fraction

from ..program import Program, dotted, norm
from ..report import AnalysisError
from ..flow import guards_of, facts, stores
from ..algebra import SymEval, C, L, Rat, run_block
from ..exprcmp import EmEval, expr, body_env

FILES = ['cherab/core/beam/node.pyx', 'cherab/core/model/attenuator/singleray.pyx', 'cherab/core/utility/conversion.py']


def check(run):
    prog = Program()
    prog.load_many(FILES)
    for f in FILES:
        run.use_file(f)
    run.explanation = (
        'Decides structural necessary conditions of C04: (R1) the beam density is zero before the source and beyond the beam '
        'length before the attenuator is consulted, zero outside the clamp radius when clamping is on, and the direction is the '
        'axis for z <= 0; (R2) one envelope: sigma_x^2(z) = sigma0^2 + z^2 tan^2(divergence_x) (same for y) is what the '
        'attenuator density, the direction field and the bounding geometry all use; the direction components are '
        'x z^2 t_x^2 / sigma_x^2, y z^2 t_y^2 / sigma_y^2, z (the field whose streamlines keep x / sigma_x constant) normalised; '
        'the transverse profile is exp(-(x^2/sigma_x^2 + y^2/sigma_y^2)/2) / (2 pi sigma_x sigma_y) times the on-axis density; '
        '(R3) stopping coefficient S = sum_i (Z_i n_i) coeff_i(E_int, sum_j Z_j^2 n_j / Z_i, T_i) with E_int from '
        '|v_beam - v_i|, on-axis density (P / EvToJ(E m)) / v * exp(-cumulative_trapezoid(S, axis, initial=0) / v) with the same '
        'speed in all three places, the axis spanning [0, length]. Does not decide particle conservation as an integral, '
        'monotonic decay, trapezoid accuracy, or unit length of the direction (raysect normalise).')
    run.assumptions = ['scipy cumulative_trapezoid is the trapezoidal running integral', 'raysect Vector3D.normalise returns a unit vector',
                       'tabulated stopping coefficients are non-negative']
    classes = {c.name: c for c in prog.classes.values()}
    for n in ('Beam', 'SingleRayAttenuator'):
        if n not in classes:
            raise AnalysisError('anchored class vanished: %s' % n)
    beam, att = classes['Beam'], classes['SingleRayAttenuator']
    _r1(run, beam, att)
    _r2(run, prog, beam, att)
    _r3(run, beam, att)
    run.include('C01', {'cherab/core/beam/node.pyx', 'cherab/core/model/attenuator/singleray.pyx', 'cherab/core/beam/model.pyx'} | {'cherab/core/plasma/node.pyx', 'cherab/core/plasma/model.pyx', 'cherab/core/utility/notify.py'},
                'the attenuation is computed for the plasma, beam and atomic data currently attached')
    from ..cachekey import check_caches
    check_caches(run, [m_ for m_ in prog.modules.values() if m_.relpath in set(FILES) and not m_.name.endswith('#pxd')], 'C04-K', prog=prog)


def _m(ci, name):
    fn = ci.methods.get(name)
    if fn is None:
        raise AnalysisError('anchored method vanished: %s.%s' % (ci.name, name))
    return fn


def _r1(run, beam, att):
    run.describe('C04-R1', 'zero before the source, beyond the length and outside the clamp radius; axis direction for z <= 0')
    K = beam.mod.name + '|Beam|'
    fn = _m(beam, 'density')
    x, y, z = [a.arg for a in fn.args.args[1:4]]
    deleg = [c for c in ast.walk(fn) if isinstance(c, ast.Call) and norm(c.func) == 'self._attenuator.density']
    run.subject('C04-R1')
    if not deleg:
        run.fail('C04-R1', K + 'density|no-delegate', beam.mod.relpath, fn.lineno, 'Beam.density does not delegate to the attenuator')
    else:
        f = facts(guards_of(fn, deleg[0]) or [])
        ok = (z, '>=', '0') in f and (z, '<=', 'self._length') in f
        # the early exits that establish the range return zero (one merged guard or one per bound)
        exits = [n for n in fn.body if isinstance(n, ast.If) and any(isinstance(s, ast.Return) for s in n.body)
                 and (z + ' < 0' in norm(n.test) or z + ' > self._length' in norm(n.test) or '0 > ' + z in norm(n.test) or 'self._length < ' + z in norm(n.test))]
        zero = bool(exits) and all(isinstance(s, ast.Return) and norm(s.value) in ('0', '0.0') for n in exits for s in n.body if isinstance(s, ast.Return))
        if ok and zero and [norm(a) for a in deleg[0].args] == [x, y, z]:
            run.ok('C04-R1', 'Beam.density range guard', 'z < 0 or z > length -> 0 dominates attenuator.density(x, y, z)')
        else:
            run.fail('C04-R1', K + 'density|range-guard', beam.mod.relpath, fn.lineno,
                     'Beam.density consults the attenuator without first returning 0 for z < 0 or z > length (guards: %s)' % sorted(f))
    _direction(run, beam)
    fn = _m(att, 'density')
    run.subject('C04-R1')
    zero = [r for r in ast.walk(fn) if isinstance(r, ast.Return) and norm(r.value) in ('0', '0.0')]
    ok = False
    for r in zero:
        f = facts(guards_of(fn, r) or [])
        if ('self.clamp_to_zero', 'true', '') in f and ('norm_radius_sqr', '>', 'self._clamp_sigma_sqr') in f:
            ok = True
    if ok:
        run.ok('C04-R1', 'SingleRayAttenuator.density clamp', 'clamp_to_zero and r^2 > clamp^2 -> 0')
    else:
        run.fail('C04-R1', att.mod.name + '|SingleRayAttenuator|density|clamp', att.mod.relpath, fn.lineno,
                 'SingleRayAttenuator.density does not return 0 outside the clamp radius when clamping is on')
    # clamp radius stored squared and compared squared
    sc = att.setters.get('clamp_sigma')
    run.subject('C04-R1')
    if sc is not None and any(norm(st.targets[0]) == 'self._clamp_sigma_sqr' and norm(st.value).replace(' ', '') in ('value**2', 'value*value')
                              for st in ast.walk(sc) if isinstance(st, ast.Assign)):
        run.ok('C04-R1', 'clamp radius squared', 'value ** 2', sample=False)
    else:
        run.fail('C04-R1', att.mod.name + '|SingleRayAttenuator|setter:clamp_sigma|square', att.mod.relpath, att.node.lineno,
                 'clamp_sigma is not stored squared although the density compares squared radii')


def _direction(run, beam):
    """Beam.direction on every path: the beam axis exactly where the documented field is the axis (z <= 0, or both transverse
    components vanish under the path's own tests), else (x z^2 tx^2 / sx^2, y z^2 ty^2 / sy^2, z) normalised."""
    from ..pathinterp import PathInterp
    fn = _m(beam, 'direction')
    x, y, z = [a.arg for a in fn.args.args[1:4]]
    K = beam.mod.name + '|Beam|direction|'
    VEC = {}

    class DirEval(SymEval):
        def call(self, n):
            f = n.func
            if isinstance(f, ast.Attribute) and f.attr == 'normalise' and not n.args:
                v = self.ev(f.value)
                if v.key() in VEC:
                    name = 'UNIT#%d' % len(VEC)
                    VEC[name] = VEC[v.key()]
                    return L(name)
                return L('UNIT(%s)' % v.key())
            if dotted(f) in ('new_vector3d', 'Vector3D') and len(n.args) == 3:
                name = 'VEC#%d' % len(VEC)
                VEC[name] = [self.ev(a_) for a_ in n.args]
                return L(name)
            return super().call(n)
    try:
        paths = PathInterp(fn, (), {}, evaluator=DirEval, max_paths=64).run()
    except Exception as e:
        run.subject('C04-R1')
        run.undecided('C04-R1', 'Beam.direction', 'cannot interpret: %s' % e)
        return
    S2 = L('self._sigma') * L('self._sigma')
    tx, ty = L('self._tanxdiv'), L('self._tanydiv')
    zz = L(z) * L(z)
    want = [L(x) * zz * tx * tx / (S2 + zz * tx * tx), L(y) * zz * ty * ty / (S2 + zz * ty * ty), L(z)]
    n_axis = n_field = 0
    for p in paths:
        dec = dict(p.decisions)
        behind = any((k.replace(' ', '') in ('%s<=0' % z, '%s<=0.0' % z) and b) or (k.replace(' ', '') in ('%s>0' % z, '%s>0.0' % z) and not b) for k, b in dec.items())
        v = p.returned
        if v is None:
            run.subject('C04-R2')
            run.fail('C04-R2', K + 'no-value', beam.mod.relpath, fn.lineno, 'Beam.direction returns nothing on the path %s' % dec)
            continue
        if v.key() == 'self.BEAM_AXIS':
            run.subject('C04-R1')
            if behind:
                n_axis += 1
                run.ok('C04-R1', 'Beam.direction at/behind the source', 'z <= 0 -> BEAM_AXIS')
                continue
            # the axis is returned in front of the source: the documented transverse components must vanish under the path's tests
            zero = {}
            for k, b in dec.items():
                m = k.replace(' ', '')
                for suf in ('==0', '==0.0'):
                    if m.endswith(suf) and b:
                        zero[m[:-len(suf)]] = C(0)
                for suf in ('!=0', '!=0.0'):
                    if m.endswith(suf) and not b:
                        zero[m[:-len(suf)]] = C(0)
                if not b and all(ch.isalnum() or ch in '._' for ch in m):
                    zero[m] = C(0)          # truthiness test of a number that turned out false
            cx, cy = want[0].subst(zero), want[1].subst(zero)
            if cx.is_const() and cx.const_value() == 0 and cy.is_const() and cy.const_value() == 0:
                run.ok('C04-R1', 'Beam.direction shortcut', 'axis returned where both transverse components vanish: %s' % sorted(zero))
            else:
                run.fail('C04-R1', K + 'axis-off-axis', beam.mod.relpath, fn.lineno,
                         'Beam.direction returns the beam axis on the path %s, where the documented direction has the transverse components '
                         '(%s, %s): streamlines no longer keep x/sigma_x(z) and y/sigma_y(z) constant' % (dec, cx.key()[:80], cy.key()[:80]))
            continue
        run.subject('C04-R2')
        comps = VEC.get(v.key()) if v.key().startswith('UNIT#') else None
        if comps is None:
            run.undecided('C04-R2', 'direction components', 'returned value %s not recognised' % v.key()[:60])
            continue
        if behind:
            run.fail('C04-R1', K + 'source-guard', beam.mod.relpath, fn.lineno, 'Beam.direction does not return the beam axis for z <= 0')
            continue
        if all(c_.eq(w_) for c_, w_ in zip(comps, want)):
            n_field += 1
            run.ok('C04-R2', 'direction components', '(x z^2 tx^2 / sx^2, y z^2 ty^2 / sy^2, z).normalise()')
        else:
            run.fail('C04-R2', K + 'components', beam.mod.relpath, fn.lineno,
                     'Beam.direction returns %s normalised; documented: (x z^2 tx^2/sigma_x^2, y z^2 ty^2/sigma_y^2, z) normalised with '
                     'sigma^2 = sigma0^2 + z^2 t^2' % [c_.key()[:80] for c_ in comps])
    if not n_axis:
        run.subject('C04-R1')
        run.fail('C04-R1', K + 'source-guard', beam.mod.relpath, fn.lineno, 'Beam.direction does not return the beam axis for z <= 0')
    if not n_field:
        run.subject('C04-R2')
        run.undecided('C04-R2', 'direction components', 'no path returning the direction field was recognised')


def _r2(run, prog, beam, att):
    run.describe('C04-R2', 'one envelope sigma^2(z) = sigma0^2 + z^2 tan^2(div) in density, direction and geometry; direction components; Gaussian profile')
    # --- attenuator density
    fn = _m(att, 'density')
    try:
        # helpers (private methods, module-level inline functions) are read where they are called
        from ..inline import flatten, class_lookup, module_lookup
        fn = flatten(flatten(fn, class_lookup(prog, att)), module_lookup(att.mod, prog=prog))
    except Exception:
        pass
    x, y, z = [a.arg for a in fn.args.args[1:4]]
    e, rec = body_env(fn, follow_if=False)
    K = att.mod.name + '|SingleRayAttenuator|density|'
    S0 = 'self._beam.get_sigma()'
    for ax, t in (('x', 'self._tanxdiv'), ('y', 'self._tanydiv')):
        run.subject('C04-R2')
        got = e.env.get('sigma_' + ax)
        want = expr('%s ** 2 + (%s * %s) ** 2' % (S0, z, t))
        import re as _re
        if got is not None and e.reduce_sqrt(got * got).eq(want):
            run.ok('C04-R2', 'density sigma_%s^2' % ax, want.key())
        elif got is not None and any(_re.match(r'^_?[a-z_]\w*\(', l) and not l.startswith(('sqrt(', 'self.')) for l in got.leaves()):
            run.undecided('C04-R2', 'density sigma_%s^2' % ax, 'computed by a helper that was not resolved: %s' % got.key()[:50])
        else:
            run.fail('C04-R2', K + 'envelope:' + ax, att.mod.relpath, fn.lineno,
                     'SingleRayAttenuator.density uses sigma_%s^2 = %s; the envelope is %s' % (ax, e.reduce_sqrt(got * got) if got is not None else None, want))
    run.subject('C04-R2')
    ret = [r for r in ast.walk(fn) if isinstance(r, ast.Return) and norm(r.value) not in ('0', '0.0')]
    got = e.ev(ret[-1].value) if ret else None
    sx, sy = e.env.get('sigma_x'), e.env.get('sigma_y')
    if got is not None and sx is not None and sy is not None:
        arg = C(Fraction(-1, 2)) * (L(x) * L(x) / (sx * sx) + L(y) * L(y) / (sy * sy))
        arg = e.reduce_sqrt(arg)
        want = L('self._density.evaluate(%s)' % z) * L('exp(%s)' % arg.key()) / (C(2) * L('M_PI') * sx * sy)
        # compare after reducing the exponent of the code the same way
        got_leaves = [l for l in got.leaves() if l.startswith('exp(')]
        ok = False
        if len(got_leaves) == 1:
            inner = _exp_arg(fn, e)
            if inner is not None and e.reduce_sqrt(inner).eq(arg):
                ok = (got / L(got_leaves[0])).eq(L('self._density.evaluate(%s)' % z) / (C(2) * L('M_PI') * sx * sy))
        if ok:
            run.ok('C04-R2', 'Gaussian transverse profile', 'n0(z) exp(-(x^2/sx^2 + y^2/sy^2)/2) / (2 pi sx sy)')
        else:
            run.fail('C04-R2', K + 'profile', att.mod.relpath, fn.lineno,
                     'SingleRayAttenuator.density returns %s; documented: on-axis density * exp(-(x^2/sx^2 + y^2/sy^2)/2) / (2 pi sx sy)' % got.key()[:200])
    else:
        run.undecided('C04-R2', 'Gaussian transverse profile', 'could not evaluate the return value')
    # tan(divergence) caches in the attenuator
    ca = _m(att, '_calc_attenuation')
    sts = {norm(t): norm(v) for t, v, st in stores(ca)}
    for ax in 'xy':
        run.subject('C04-R2')
        want = 'tan(DEGREES_TO_RADIANS * self._beam.divergence_%s)' % ax
        if sts.get('self._tan%sdiv' % ax) == want:
            run.ok('C04-R2', 'attenuator tan(div_%s)' % ax, want, sample=False)
        else:
            run.fail('C04-R2', att.mod.name + '|SingleRayAttenuator|_calc_attenuation|tan:' + ax, att.mod.relpath, ca.lineno,
                     '_tan%sdiv = %s; expected %s' % (ax, sts.get('self._tan%sdiv' % ax), want))
    for ax in 'xy':
        st = beam.setters.get('divergence_' + ax)
        run.subject('C04-R2')
        sts = {norm(t): norm(v) for t, v, s in stores(st)} if st is not None else {}
        want = 'tan(DEGREES_TO_RADIANS * value)'
        if sts.get('self._tan%sdiv' % ax) == want and sts.get('self._divergence_' + ax) == 'value':
            run.ok('C04-R2', 'beam tan(div_%s)' % ax, want, sample=False)
        else:
            run.fail('C04-R2', beam.mod.name + '|Beam|setter:divergence_%s|tan' % ax, beam.mod.relpath, (st or beam.node).lineno,
                     'divergence_%s setter stores %s' % (ax, sts))
    # --- bounding geometry radius
    fn = _m(beam, '_generate_geometry')
    e, rec = body_env(fn)
    run.subject('C04-R2')
    re_ = e.env.get('radius_end')
    ns = L('self._attenuator.clamp_sigma')
    d = e.env.get('drdz')
    want_d = 'tan(DEGREES_TO_RADIANS*max(self._divergence_x, self._divergence_y))'
    if re_ is not None and d is not None and e.reduce_sqrt(re_ * re_).eq(ns * ns * (L('self.sigma') ** 2 + L('self.length') ** 2 * d * d)) \
            and d.key().replace(' ', '') == want_d.replace(' ', ''):
        run.ok('C04-R2', 'geometry end radius', 'clamp_sigma * sqrt(sigma^2 + length^2 tan^2(max divergence))')
    else:
        run.fail('C04-R2', beam.mod.name + '|Beam|_generate_geometry|end-radius', beam.mod.relpath, fn.lineno,
                 'bounding geometry end radius is %s (drdz = %s): not the envelope at z = length' % (re_, d))
    run.floor('C04-R2', 8)


def _exp_arg(fn, e):
    for n in ast.walk(fn):
        if isinstance(n, ast.Call) and dotted(n.func) == 'exp' and len(n.args) == 1:
            return e.ev(n.args[0])
    return None


def _r3(run, beam, att):
    run.describe('C04-R3', 'composite stopping coefficient, on-axis attenuation with one speed, sample axis spanning [0, length]')
    K = att.mod.name + '|SingleRayAttenuator|'
    fn = _m(att, '_beam_stopping')
    x, y, z, bv = [a.arg for a in fn.args.args[1:5]]
    from ._charged import charged_sum
    charged_sum(run, 'C04-R3', att, fn, False, 'EvAmuToMS.inv')
    from ..inline import propagate as _prop
    fn0 = _m(att, '_beam_attenuation')
    fn = _prop(fn0)
    axis, x, y, z, energy, power, mass, direction = [a.arg for a in fn.args.args[1:9]]
    run.subject('C04-R3')

    class AttEval(EmEval):
        def call(self, n):
            d = dotted(n.func) or ''
            if d in ('np.exp', 'exp') and len(n.args) == 1:
                return L('EXP(%s)' % self.ev(n.args[0]).key())
            if d in ('cumulative_trapezoid', 'scipy.integrate.cumulative_trapezoid', 'cumtrapz'):
                kw = {k.arg: norm(k.value) for k in n.keywords}
                xs = norm(n.args[1]) if len(n.args) > 1 else kw.get('x')
                return L('CUMTRAPZ(%s; x=%s; dx=%s; initial=%s)' % (norm(n.args[0]), xs, kw.get('dx'), kw.get('initial')))
            if d in ('np.diff', 'numpy.diff') and len(n.args) == 1 and not n.keywords:
                return L('%s#hi' % norm(n.args[0])) - L('%s#lo' % norm(n.args[0]))
            return super().call(n)

        def subscript(self, n):
            # the two shifted views of an array that a hand-written trapezium rule adds: a[1:] and a[:-1]
            if isinstance(n.slice, ast.Slice) and n.slice.step is None:
                lo, hi = n.slice.lower, n.slice.upper
                if lo is not None and hi is None and norm(lo) == '1':
                    return L('%s#hi' % norm(n.value))
                if lo is None and hi is not None and norm(hi) == '-1':
                    return L('%s#lo' % norm(n.value))
            return super().subscript(n)
    e = AttEval()
    body_ = [s_ for s_ in fn.body if not isinstance(s_, ast.For)]
    # a cumulative trapezium rule written out with numpy: T = zeros(n); T[1:] = cumsum(0.5 * W * (S[1:] + S[:-1]))
    for st_ in list(body_):
        if isinstance(st_, ast.Assign) and len(st_.targets) == 1 and isinstance(st_.targets[0], ast.Subscript) \
                and isinstance(st_.targets[0].value, ast.Name) and isinstance(st_.value, ast.Call) \
                and (dotted(st_.value.func) or '').split('.')[-1] == 'cumsum' and len(st_.value.args) == 1 \
                and isinstance(st_.targets[0].slice, ast.Slice) and norm(st_.targets[0].slice.lower or ast.Constant(0)) == '1' \
                and st_.targets[0].slice.upper is None:
            tname = st_.targets[0].value.id
            init_ = [q for q in body_ if isinstance(q, ast.Assign) and len(q.targets) == 1 and isinstance(q.targets[0], ast.Name)
                     and q.targets[0].id == tname and isinstance(q.value, ast.Call) and (dotted(q.value.func) or '').split('.')[-1] in ('zeros', 'zeros_like')]
            e2 = AttEval()
            try:
                run_block(e2, body_[:body_.index(st_)])
                summed = e2.ev(st_.value.args[0])
            except Exception:
                continue
            ss = [l[:-3] for l in summed.leaves() if l.endswith('#hi') and (l[:-3] + '#lo') in summed.leaves()]
            for sname in ss:
                from ..algebra import coeff_of
                try:
                    whi, wlo = coeff_of(summed, sname + '#hi'), coeff_of(summed, sname + '#lo')
                except Exception:
                    continue
                if not whi.eq(wlo) or any(l.startswith(sname + '#') for l in whi.leaves()) \
                        or not (whi * (L(sname + '#hi') + L(sname + '#lo'))).eq(summed):
                    continue
                w = whi * C(2)
                exact = w.eq(L(axis + '#hi') - L(axis + '#lo')) or w.eq(L('%s[1]' % axis) - L('%s[0]' % axis))
                leaf = 'CUMTRAPZ(%s; x=%s; dx=%s; initial=%s)' % (sname, axis if exact else None, None if exact else w.key()[:60], 0 if init_ else None)
                body_ = [q for q in body_ if q is not st_ and q not in init_]
                body_.insert(0, ast.Assign(targets=[ast.Name(id='__cum_' + tname, ctx=ast.Store())], value=ast.Constant(0)))
                e.env[tname] = L(leaf)
                e._cum = tname
                break
    _pre_env = dict(e.env)
    run_block(e, [q for q in body_ if not (isinstance(q, ast.Assign) and isinstance(q.targets[0], ast.Name) and q.targets[0].id.startswith('__cum_'))])
    ret = [r for r in ast.walk(fn) if isinstance(r, ast.Return) and r.value is not None]
    got = e.ev(ret[-1].value) if ret else None
    V = L('EvAmuToMS.to(%s)' % energy)
    src_a = L(power) / L('EvToJ.to(%s*%s)' % (energy, mass)) / V
    src_b = L(power) / L('EvToJ.to(%s*%s)' % (mass, energy)) / V
    sc = [norm(t) for t, v, st in stores(fn) if isinstance(t, ast.Subscript) and isinstance(v, ast.Call) and norm(v.func) == 'self._beam_stopping']
    scn = sc[0].split('[')[0] if sc else 'stopping_coeff'
    if got is None:
        run.undecided('C04-R3', 'attenuation form', 'no returned value')
    else:
        cum = [l for l in got.leaves() if l.startswith('EXP(')]
        form_ok = False
        why = None
        if len(cum) == 1:
            inner = cum[0][4:-1]
            want_int = 'CUMTRAPZ(%s; x=%s; dx=None; initial=0)' % (scn, axis)
            want_exp = (C(0) - L(want_int)) / V
            exps = [l for l in [cum[0]]]
            if inner == want_exp.key():
                form_ok = got.eq(src_a * L(cum[0])) or got.eq(src_b * L(cum[0]))
                if not form_ok:
                    why = 'the source density factor is %s' % (got / L(cum[0])).key()[:120]
            elif 'CUMTRAPZ(' in inner and ('dx=None' not in inner or 'x=%s;' % axis not in inner):
                why = 'the stopping coefficient is integrated as %s: not along the axis points it was sampled at (their spacing is length / (n - 1), not a constant step)' % inner[:140]
            elif 'CUMTRAPZ(' in inner and 'initial=0' not in inner:
                why = 'the cumulative integral has no initial=0 entry: the density table is one sample short / shifted'
            elif 'CUMTRAPZ(' in inner:
                why = 'the exponent is %s, documented -integral / v with the one speed v = EvAmuToMS.to(E)' % inner[:140]
        if form_ok:
            run.ok('C04-R3', 'attenuation form', '(P / EvToJ(E m)) / v * exp(-cumtrapz(S, axis, initial=0) / v), one speed v = EvAmuToMS.to(E)')
        elif why:
            run.fail('C04-R3', K + '_beam_attenuation|form', att.mod.relpath, fn0.lineno,
                     'attenuation: %s; documented: (P / EvToJ(E m)) / v * exp(-cumulative_trapezoid(S, axis, initial=0) / v)' % why)
        else:
            run.undecided('C04-R3', 'attenuation form', 'returned value %s not recognised' % got.key()[:120])
    e, rec = body_env(fn0)
    fn = fn0
    run.subject('C04-R3')
    lp = [l for l in fn.body if isinstance(l, ast.For)]
    okl = lp and norm(lp[0].iter) == 'range(naxis)' and any(norm(s).replace(' ', '') == 'stopping_coeff[i]=self._beam_stopping(%s[i],%s[i],%s[i],beam_velocity)' % (x, y, z)
                                                            for s in lp[0].body) and \
        any(norm(t) == 'naxis' and norm(v) == axis + '.size' for t, v, st in stores(fn))
    bvel = e.env.get('beam_velocity')
    if okl and bvel is not None and bvel.key().replace(' ', '') in ('EvAmuToMS.to(%s)*%s.normalise()' % (energy, direction), '%s.normalise()*EvAmuToMS.to(%s)' % (direction, energy)):
        run.ok('C04-R3', 'stopping sampled at every axis point', 'S[i] = _beam_stopping(x[i], y[i], z[i], direction.normalise() * v)')
    else:
        run.fail('C04-R3', K + '_beam_attenuation|sampling', att.mod.relpath, fn.lineno,
                 'the stopping coefficient is not sampled at every axis point with the beam velocity direction.normalise() * speed (beam_velocity = %s)' % bvel)
    from ..inline import propagate
    fn0 = _m(att, '_calc_attenuation')
    fn = propagate(fn0)
    run.subject('C04-R3')
    # the axis handed to the attenuation integral (third coordinate array) is linspace(0, beam length, n)
    lins = [v for t, v, st in stores(fn) if isinstance(v, ast.Call) and dotted(v.func) in ('np.linspace', 'numpy.linspace', 'linspace') and len(v.args) >= 3]
    if len(lins) != 1:
        run.undecided('C04-R3', 'sample axis', 'expected one linspace axis, found %d' % len(lins))
    else:
        a0, a1 = norm(lins[0].args[0]), norm(lins[0].args[1])
        endpoint = [k for k in lins[0].keywords if k.arg == 'endpoint' and norm(k.value) == 'False']
        if a0 in ('0.0', '0') and a1 in ('self._beam.length', 'self._beam.get_length()') and not endpoint:
            run.ok('C04-R3', 'sample axis', 'linspace(0, length, n)')
        elif a1 in ('self._beam.length', 'self._beam.get_length()') or a0 in ('0.0', '0'):
            run.fail('C04-R3', K + '_calc_attenuation|axis', att.mod.relpath, fn0.lineno,
                     'sample axis is %s; expected linspace(0, beam length, n) including both ends' % norm(lins[0]))
        else:
            run.undecided('C04-R3', 'sample axis', 'axis %s not recognised' % norm(lins[0]))
    run.subject('C04-R3')
    call = [c for c in ast.walk(fn) if isinstance(c, ast.Call) and norm(c.func) == 'self._beam_attenuation']
    callee = _m(att, '_beam_attenuation')
    from ..calls import bind_call
    b = bind_call(call[0], callee, skip_self=True) if call else None
    ps = [a.arg for a in callee.args.args[1:]]
    if not call or b is None or len(ps) < 8:
        run.undecided('C04-R3', 'attenuation wiring', 'call of _beam_attenuation not recognised')
    else:
        got = {p_: norm(b[p_]) for p_ in ps if p_ in b}
        want = {ps[4]: ('self._beam.energy', 'self._beam.get_energy()'), ps[5]: ('self._beam.power', 'self._beam.get_power()'),
                ps[6]: ('self._beam.element.atomic_weight', 'self._beam.get_element().atomic_weight')}
        bad = {k: got.get(k) for k, w in want.items() if got.get(k) not in w}
        dens = [v for t, v, st in stores(fn) if norm(t) == 'self._density' and isinstance(v, ast.Call)]
        axis_name = got.get(ps[0])
        if bad:
            run.fail('C04-R3', K + '_calc_attenuation|wiring', att.mod.relpath, fn0.lineno, '_calc_attenuation hands _beam_attenuation %s' % bad)
        elif not dens or not dens[0].args or norm(dens[0].args[0]) != axis_name:
            run.fail('C04-R3', K + '_calc_attenuation|wiring', att.mod.relpath, fn0.lineno,
                     'the attenuated density is tabulated as %s, not on the axis %s it was computed on' % (norm(dens[0])[:60] if dens else None, axis_name))
        else:
            run.ok('C04-R3', 'attenuation wiring', 'energy, power, atomic weight; density tabulated on the same axis')
    # one frame: the sample points and the beam direction are taken to plasma coordinates with the same transform
    run.subject('C04-R3')
    tfs = [c for c in ast.walk(fn) if isinstance(c, ast.Call) and isinstance(c.func, ast.Attribute) and c.func.attr == 'transform' and len(c.args) == 1]
    frames = sorted({norm(c.args[0]) for c in tfs})
    if not tfs:
        run.undecided('C04-R3', 'frames', 'no transform found in _calc_attenuation')
    elif frames == ['self._beam.to(self._plasma)']:
        run.ok('C04-R3', 'frames', 'sample points and beam direction both transformed with beam.to(plasma): velocities are compared in plasma coordinates')
    elif len(frames) > 1:
        run.fail('C04-R3', K + '_calc_attenuation|frames', att.mod.relpath, fn0.lineno,
                 'the axis points and the beam direction are transformed with different transforms %s: the beam velocity is subtracted from species '
                 'velocities given in plasma coordinates, so the interaction energy and the stopping coefficient are wrong when the plasma node is '
                 'rotated' % frames)
    else:
        run.fail('C04-R3', K + '_calc_attenuation|frames', att.mod.relpath, fn0.lineno,
                 'points and direction are transformed with %s, not into plasma coordinates (beam.to(plasma)) where the species are sampled' % frames)
    run.floor('C04-R3', 6)


_BN = 'cherab/core/beam/node.pyx'
_SR = 'cherab/core/model/attenuator/singleray.pyx'
MUTANTS = [
    dict(name='direction-axis-when-one-divergence-is-zero', file=_BN, find="        # calculate direction from divergence\n",
         replace="        if self._tanxdiv == 0 or self._tanydiv == 0:\n            return self.BEAM_AXIS\n        # calculate direction from divergence\n", expect='C04-R1'),
    dict(name='beam-direction-in-world-frame', file=_SR, find="self._beam.BEAM_AXIS.transform(beam_to_plasma)", replace="self._beam.BEAM_AXIS.transform(self._beam.to_root())", expect='C04-R3'),
    dict(name='range-guard-deleted', file=_BN, find="        if z < 0 or z > self._length:\n            return 0\n", replace="", expect='C04-R1'),
    dict(name='range-guard-only-source', file=_BN, find="        if z < 0 or z > self._length:", replace="        if z < 0:", expect='C04-R1'),
    dict(name='gaussian-exponent', file=_SR, find="gaussian_sample = exp(-0.5 * norm_radius_sqr)", replace="gaussian_sample = exp(-1 * norm_radius_sqr)", expect='C04-R2'),
    dict(name='direction-sigma-not-squared', file=_BN, find="        cdef double sigma_sqr = self._sigma * self._sigma", replace="        cdef double sigma_sqr = self._sigma", expect='C04-R2'),
    dict(name='target-ne-z-squared', file=_SR, find="            target_ne = species.distribution.density(x, y, z) * target_z\n            target_ti", replace="            target_ne = species.distribution.density(x, y, z) * target_z * target_z\n            target_ti", expect='C04-R3'),
    dict(name='exponent-other-speed', file=_SR, find="initial=0) / speed)", replace="initial=0) / SPEED_OF_LIGHT)", expect='C04-R3'),
    dict(name='density-envelope-y-uses-x-divergence', file=_SR, find="        sigma_y = sqrt(sigma0_sqr + (z * self._tanydiv)**2)", replace="        sigma_y = sqrt(sigma0_sqr + (z * self._tanxdiv)**2)", expect='C04-R2'),
    dict(name='clamp-ignored', file=_SR, find="            if norm_radius_sqr > self._clamp_sigma_sqr:\n                return 0.0", replace="            if norm_radius_sqr > self._clamp_sigma_sqr * 4:\n                return 0.0", expect='C04-R1'),
    dict(name='prefactor-without-2pi', file=_SR, find="/ (2 * M_PI * sigma_x * sigma_y)", replace="/ (M_PI * sigma_x * sigma_y)", expect='C04-R2'),
    dict(name='axis-starts-after-source', file=_SR, find="beam_z = np.linspace(0.0, self._beam.length, nbeam)", replace="beam_z = np.linspace(self._step, self._beam.length, nbeam)", expect='C04-R3'),
    dict(name='equivalent-density-not-divided', file=_SR, find="            target_equiv_ne = density_sum / target_z\n\n            stopping_coeff +=", replace="            target_equiv_ne = density_sum\n\n            stopping_coeff +=", expect='C04-R3'),
    dict(name='direction-at-source', file=_BN, find="        if z <= 0:\n            return self.BEAM_AXIS", replace="        if z < -1:\n            return self.BEAM_AXIS", expect='C04-R1'),
]
TWINS = [
    dict(name='direction-axis-when-both-divergences-are-falsy', file=_BN, find="        # calculate direction from divergence\n",
         replace="        if not (self._tanxdiv or self._tanydiv):\n            return self.BEAM_AXIS\n        # calculate direction from divergence\n"),
    dict(name='direction-axis-when-both-divergences-are-zero', file=_BN, find="        # calculate direction from divergence\n",
         replace="        if self._tanxdiv == 0 and self._tanydiv == 0:\n            return self.BEAM_AXIS\n        # calculate direction from divergence\n"),
    dict(name='square-expanded', file=_SR, find="        sigma_x = sqrt(sigma0_sqr + (z * self._tanxdiv)**2)", replace="        sigma_x = sqrt(z * z * self._tanxdiv * self._tanxdiv + sigma0_sqr)"),
]
