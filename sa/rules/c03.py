"""C03 -- passive emission models radiate their documented totals (DESIGN section 5, C03)."""
import ast
import math

from ..program import Program, dotted, norm
from ..report import AnalysisError
from ..flow import guards_of, facts, stores
from ..algebra import SymEval, C, L, Rat, run_block

P = 'cherab/core/model/plasma/'
FILES = [P + 'impact_excitation.pyx', P + 'recombination.pyx', P + 'thermal_cx.pyx', P + 'total_radiated_power.pyx',
         P + 'bremsstrahlung.pyx', 'cherab/core/utility/constants.pyx']
XYZ = '(point.x, point.y, point.z)'
NE = 'self._plasma.get_electron_distribution().density' + XYZ
TE = 'self._plasma.get_electron_distribution().effective_temperature' + XYZ

# CODATA 2018 reference values (independent of the repository)
CODATA = dict(ELEMENTARY_CHARGE=1.602176634e-19, SPEED_OF_LIGHT=299792458.0, PLANCK_CONSTANT=6.62607015e-34,
              ELECTRON_REST_MASS=9.1093837015e-31, VACUUM_PERMITTIVITY=8.8541878128e-12, ATOMIC_MASS=1.66053906660e-27,
              ELECTRON_CLASSICAL_RADIUS=2.8179403262e-15, RYDBERG_CONSTANT_EV=13.605693122994,
              BOHR_MAGNETON=5.7883818060e-5, HC_EV_NM=1239.841984332)
TOL = 1e-6


class EmEval(SymEval):
    """Method calls are opaque leaves spelled with their normalised receiver text."""

    def call(self, n):
        f = n.func
        if isinstance(f, ast.Attribute):
            recv = norm(f.value)
            # receiver that is a local alias is inlined through env
            if isinstance(f.value, ast.Name) and f.value.id in self.env:
                recv = self.env[f.value.id].key()
            return L('%s.%s(%s)' % (recv, f.attr, ', '.join(self.ev(a).key() for a in n.args)))
        return super().call(n)


def _expr(src, env=None):
    e = EmEval(env)
    return e.ev(ast.parse(src, mode='eval').body)


def _r5_radiation_function(run, prog):
    """R5: RadiationFunction spreads the power density uniformly over the observed window: every bin receives
    f(x, y, z) / (4 pi (max - min wavelength)), added to what the spectrum holds."""
    from ..inline import propagate
    run.describe('C03-R5', 'RadiationFunction: every bin gets f(x, y, z) / (4 pi (max - min wavelength)) added')
    rel = 'cherab/tools/emitters/radiation_function.pyx'
    mi = prog.load(rel, required=False)
    if mi is None:
        raise AnalysisError('anchored source file vanished: %s' % rel)
    run.use_file(rel)
    ci = prog.classes.get(mi.name + '.RadiationFunction')
    fn0 = ci.methods.get('emission_function') if ci is not None else None
    if fn0 is None:
        raise AnalysisError('anchored method vanished: RadiationFunction.emission_function')
    fn = propagate(fn0)
    K = mi.name + '|RadiationFunction|emission_function|'
    names = [a.arg for a in fn.args.args]
    point, spectrum, ray = names[1], names[3], names[5]
    run.subject('C03-R5')
    sts = [st for st in ast.walk(fn) if isinstance(st, (ast.AugAssign, ast.Assign)) and norm(st.targets[0] if isinstance(st, ast.Assign) else st.target).startswith(spectrum + '.samples_mv[')]
    loops = [l for l in ast.walk(fn) if isinstance(l, ast.For) and any(st in list(ast.walk(l)) for st in sts)]
    if len(sts) != 1 or len(loops) != 1:
        run.undecided('C03-R5', 'RadiationFunction', 'one store into the spectrum inside one loop expected, found %d / %d' % (len(sts), len(loops)))
        return
    st, lp = sts[0], loops[0]
    if not (isinstance(st, ast.AugAssign) and isinstance(st.op, ast.Add)):
        run.fail('C03-R5', K + 'store', rel, st.lineno, 'RadiationFunction assigns %s: what other emitters along the ray put into the spectrum is '
                 'overwritten instead of added to' % norm(st)[:60])
        return
    idx = norm(st.target.slice)
    if not (isinstance(lp.target, ast.Name) and lp.target.id == idx and norm(lp.iter) in ('range(%s.bins)' % spectrum, 'range(0, %s.bins)' % spectrum)):
        run.fail('C03-R5', K + 'bins', rel, lp.lineno, 'RadiationFunction fills %s over %s: not every bin of the spectrum receives the emission' % (norm(st.target), norm(lp.iter)))
        return
    ev = EmEval()
    try:
        got = ev.ev(st.value)
        F = 'self.radiation_function.evaluate(%s.x, %s.y, %s.z)' % (point, point, point)
        want = ev.ev(ast.parse('__F__ / (4 * M_PI * (%s.get_max_wavelength() - %s.get_min_wavelength()))' % (ray, ray), mode='eval').body)
        fl = [l for l in got.leaves() if 'radiation_function' in l]
        want = want.subst({'__F__': L(fl[0])}) if len(fl) == 1 else want
        leaf_ok = len(fl) == 1 and fl[0].replace(' ', '') == F.replace(' ', '')
    except Exception as e:
        run.undecided('C03-R5', 'RadiationFunction', 'emission not interpreted: %s' % str(e)[:50])
        return
    if got.eq(want) and leaf_ok:
        run.ok('C03-R5', 'RadiationFunction', 'f(x, y, z) / (4 pi (max - min)) added to every bin')
    else:
        run.fail('C03-R5', K + 'emission', rel, st.lineno, 'RadiationFunction adds %s to every bin; documented: the radiation function at the point '
                 '(x, y, z) divided by 4 pi and by the width of the observed window' % got.key()[:120])


def _r6_gaunt(run, prog):
    """R6: the free-free Gaunt factor bremsstrahlung takes from the provider: gamma^2 = z^2 Ry / T, u = hc / (lambda T) (eV, nm); zero for
    z = 0, one in the classical limit (u or gamma^2 at or above the tabulated maximum), the Born approximation
    sqrt(3)/pi (ln(4/u) - gamma_E) below the tabulated minimum, the table interpolated in (log10 u, log10 gamma^2) otherwise."""
    from ..pathinterp import PathInterp
    run.describe('C03-R6', 'InterpolatedFreeFreeGauntFactor: definitions of u and gamma^2, region table (zero / classical / Born / interpolated), table axes')
    rel = 'cherab/core/atomic/gaunt.pyx'
    mi = prog.load(rel, required=False)
    if mi is None:
        raise AnalysisError('anchored source file vanished: %s' % rel)
    run.use_file(rel)
    ci = prog.classes.get(mi.name + '.InterpolatedFreeFreeGauntFactor')
    if ci is None or 'evaluate' not in ci.methods or '__init__' not in ci.methods:
        raise AnalysisError('anchored class vanished: InterpolatedFreeFreeGauntFactor')
    fn = ci.methods['evaluate']
    try:
        # the Born / classical expressions moved into private helpers are read where they are called
        from ..inline import flatten, class_lookup, module_lookup
        fn = flatten(flatten(fn, class_lookup(prog, ci)), module_lookup(mi, prog=prog))
    except Exception:
        pass
    K = mi.name + '|InterpolatedFreeFreeGauntFactor|'
    z, T, wl = [a.arg for a in fn.args.args[1:4]]
    ev = EmEval()
    # the photon-energy factor h c / e in eV nm
    run.subject('C03-R6')
    ph = mi.assigns.get('PH_TO_EV_FACTOR')
    try:
        phv = ev.ev(ph) if ph is not None else None
    except Exception:
        phv = None
    if phv is None:
        run.undecided('C03-R6', 'PH_TO_EV_FACTOR', 'not found / not interpreted')
    elif phv.eq(L('PLANCK_CONSTANT') * L('SPEED_OF_LIGHT') * C(10 ** 9) / L('ELEMENTARY_CHARGE')):
        run.ok('C03-R6', 'PH_TO_EV_FACTOR', 'h c 1e9 / e')
    else:
        run.fail('C03-R6', K + 'ph-factor', rel, getattr(ph, 'lineno', 1), 'PH_TO_EV_FACTOR is %s; documented: h c / e in eV nm '
                 '(PLANCK_CONSTANT * SPEED_OF_LIGHT * 1e9 / ELEMENTARY_CHARGE)' % phv.key()[:80])
    U = L('PH_TO_EV_FACTOR') / (L(T) * L(wl))
    G = L(z) * L(z) * L('RYDBERG_CONSTANT_EV') / L(T)
    try:
        paths = PathInterp(fn, (), {}, evaluator=EmEval, max_paths=128, resolve_keys=True).run()
    except Exception as e:
        run.subject('C03-R6')
        run.undecided('C03-R6', 'evaluate', 'not interpreted: %s' % str(e)[:50])
        return
    atoms = {'%s == 0' % z: 'z0', '%s >= self._u_max' % U.key(): 'uhi', '%s >= self._gamma2_max' % G.key(): 'ghi',
             '%s < self._u_min' % U.key(): 'ulo', '%s < self._gamma2_min' % G.key(): 'glo'}
    e2 = EmEval()
    e2.env['__U__'] = U
    born = e2.ev(ast.parse('sqrt(3) / M_PI * (log(4 / __U__) - 0.5772156649015329)', mode='eval').body)
    interp = None

    def expected(a):
        if a['z0']:
            return 'zero'
        if a['uhi'] or a['ghi']:
            return 'one'
        if a['ulo'] or a['glo']:
            return 'born'
        return 'table'
    import itertools as _it
    bad = und = None
    n = 0
    for p in paths:
        if p.returned is None:
            continue
        fixed = {}
        unknown = [k for k, b in p.decisions if k not in atoms]
        if unknown:
            import re as _re
            m_ = _re.match(r'^(.*) (>=|<) self\._(u|gamma2)_(max|min)$', unknown[0])
            if m_ and bad is None:
                bad = (p, "the %s that is compared with the tabulated range is %s; documented: %s" % (
                    'photon-energy parameter u' if m_.group(3) == 'u' else 'parameter gamma^2', m_.group(1)[:80],
                    'hc / (lambda T) = PH_TO_EV_FACTOR / (temperature * wavelength)' if m_.group(3) == 'u' else 'z^2 Ry / T'))
            else:
                und = 'test %s' % unknown[0][:60]
            continue
        for k, b in p.decisions:
            fixed[atoms[k]] = b
        exp = set()
        for vals in _it.product((False, True), repeat=5):
            a = dict(zip(('z0', 'uhi', 'ghi', 'ulo', 'glo'), vals))
            if any(a[k] != v for k, v in fixed.items()) or (a['uhi'] and a['ulo']) or (a['ghi'] and a['glo']):
                continue
            exp.add(expected(a))
        n += 1
        r = p.returned
        kind = None
        if r.is_const() and r.const_value() == 0:
            kind = 'zero'
        elif r.is_const() and r.const_value() == 1:
            kind = 'one'
        elif r.eq(born):
            kind = 'born'
        elif len(r.leaves()) == 1 and list(r.leaves())[0].startswith('self._gaunt_factor.evaluate('):
            kind = 'table'
            want_leaf = 'self._gaunt_factor.evaluate(log10(%s), log10(%s))' % (U.key(), G.key())
            if list(r.leaves())[0] != want_leaf or not r.eq(L(want_leaf)):
                bad = (p, 'the table is read at %s; documented: (log10 u, log10 gamma^2) with u = hc / (lambda T), gamma^2 = z^2 Ry / T' % r.key()[:100])
        else:
            kind = 'other'
        if exp != {kind} and bad is None:
            bad = (p, 'where %s it returns %s; documented for that region: %s' % (dict(p.decisions) and ' and '.join(
                ('' if b else 'not ') + atoms[k] for k, b in p.decisions), {'zero': '0', 'one': '1', 'born': 'the Born approximation',
                                                                            'table': 'the interpolated table', 'other': r.key()[:60]}[kind], sorted(exp)))
    run.subject('C03-R6')
    if bad:
        run.fail('C03-R6', K + 'evaluate|regions', rel, fn.lineno, 'InterpolatedFreeFreeGauntFactor.evaluate: %s (z0: z = 0; uhi / ghi: u / gamma^2 at or above '
                 'the tabulated maximum; ulo / glo: below the minimum; Born: sqrt(3)/pi (ln(4/u) - Euler gamma))' % bad[1])
    elif und or not n:
        run.undecided('C03-R6', 'evaluate', und or 'no returning path')
    else:
        run.ok('C03-R6', 'evaluate', '%d paths: 0 for z = 0, 1 in the classical limit, Born below the table, table otherwise' % n)
    # constructor: the table axes are log10(u), log10(gamma2); the limits are the extremes of the axes
    init = ci.methods['__init__']
    run.subject('C03-R6')
    un, gn, fnm = [a.arg for a in init.args.args[1:4]]
    calls = [c for c in ast.walk(init) if isinstance(c, ast.Call) and (dotted(c.func) or '').split('.')[-1] == 'Interpolator2DArray']
    lim = {norm(st.targets[0]): norm(st.value) for st in ast.walk(init) if isinstance(st, ast.Assign) and norm(st.targets[0]) in
           ('self._u_min', 'self._u_max', 'self._gamma2_min', 'self._gamma2_max')}
    want_lim = {'self._u_min': '%s.min()' % un, 'self._u_max': '%s.max()' % un, 'self._gamma2_min': '%s.min()' % gn, 'self._gamma2_max': '%s.max()' % gn}
    if len(calls) != 1 or len(calls[0].args) < 4:
        run.undecided('C03-R6', '__init__', 'Interpolator2DArray call not found')
    else:
        a = [norm(x) for x in calls[0].args]
        axes_ok = a[0] in ('np.log10(%s)' % un, 'numpy.log10(%s)' % un) and a[1] in ('np.log10(%s)' % gn, 'numpy.log10(%s)' % gn) and a[2] == fnm
        if not axes_ok:
            run.fail('C03-R6', K + '__init__|axes', rel, calls[0].lineno, 'the Gaunt factor table is interpolated over (%s, %s) with data %s; evaluate() reads it at '
                     '(log10 u, log10 gamma^2) of the table given as (u, gamma2, gaunt_factor)' % (a[0], a[1], a[2]))
        elif lim != want_lim:
            d = sorted(k for k in want_lim if lim.get(k) != want_lim[k])[0]
            run.fail('C03-R6', K + '__init__|limits', rel, init.lineno, '%s is %s; the regions of evaluate() are delimited by the extremes of the tabulated axes (%s)'
                     % (d, lim.get(d), want_lim[d]))
        else:
            run.ok('C03-R6', '__init__', 'table over (log10 u, log10 gamma2); limits are the axis extremes')
    run.floor('C03-R6', 3)


def check(run):
    prog = Program()
    prog.load_many(FILES)
    for f in FILES:
        run.use_file(f)
    run.explanation = (
        'Decides structural necessary conditions of C03 on the five passive models: (R1) every sampled density or temperature '
        'that enters a radiance term as a factor or as a rate argument is guarded: no term containing it is accumulated when it '
        'is non-positive (early return of the untouched spectrum, or a positivity condition around the accumulation; a guard on '
        'a sum counts for that sum); (R2) the radiance normal forms are the documented expressions -- (1/4pi) PEC(ne,Te) ne ni, '
        '(1/4pi) n_rec sum_d n_d PEC_d(ne,Te,T_d), (1/4pi)(plt ne ni + prb ne ni+ + prc nH ni+)/(max-min) added to every bin, '
        'the Hutchinson prefactor of the free-free function and its bin average over consecutive bin edges -- with each leaf '
        'sampled from the documented distribution; linearity in each density is read off the normal form; (R3) species and '
        'rate selection in _populate_cache (next charge state for recombination and CX, donor filter, plt/prb/prc pairing, '
        'hydrogen isotopes at charge 0); (R4) BREMS_CONST, EXP_FACTOR and the physical constants fold to the values of the '
        'documented formula with independent CODATA values (relative 1e-6). Does not decide the Gauss-Legendre bin average, '
        'Gaunt-factor tables or any numeric total.')
    run.assumptions = ['rate objects are non-negative for non-negative coefficients', 'floating point treated as exact real arithmetic in R2']
    classes = {c.name: c for c in prog.classes.values()}
    for n in ('ExcitationLine', 'RecombinationLine', 'ThermalCXLine', 'TotalRadiatedPower', 'Bremsstrahlung', 'BremsFunction'):
        if n not in classes:
            raise AnalysisError('anchored class vanished: %s' % n)
    # shape normalisation: code moved into private helpers other than the anchors of the rules is read where it is called
    for n in ('ExcitationLine', 'RecombinationLine', 'ThermalCXLine', 'TotalRadiatedPower', 'Bremsstrahlung', 'BremsFunction'):
        try:
            prog.normalise_class(classes[n], keep=('_populate_cache', '_change'), propagate=False)
        except Exception:
            pass
    _r1(run, classes)
    _r2(run, classes)
    _r3(run, classes)
    _r4(run, prog)
    _r5_radiation_function(run, prog)
    _r6_gaunt(run, prog)
    run.include('C02', {'cherab/core/math/integrators/integrators1d.pyx'},
                'the bremsstrahlung bin average is taken with the Gauss quadrature whose node table must follow its order range')
    run.include('C01', {f for f in FILES if f.endswith('.pyx') and '/model/plasma/' in f} | {'cherab/core/plasma/node.pyx', 'cherab/core/plasma/model.pyx', 'cherab/core/utility/notify.py'},
                'the rates and species a model caches must follow changes of the plasma and the atomic data')
    from ..cachekey import check_caches
    check_caches(run, [m_ for m_ in prog.modules.values() if m_.relpath in set(FILES) and not m_.name.endswith('#pxd')], 'C03-K', prog=prog)


# ------------------------------------------------------------------------------------------ R1
SAMPLERS = ('density', 'effective_temperature')


def _r1(run, classes):
    run.describe('C03-R1', 'each sampled density/temperature is positive wherever a term containing it is accumulated or a rate evaluated with it')
    for cname, mname in (('ExcitationLine', 'emission'), ('RecombinationLine', 'emission'), ('ThermalCXLine', 'emission'),
                         ('TotalRadiatedPower', 'emission'), ('Bremsstrahlung', 'emission'), ('BremsFunction', 'evaluate')):
        ci = classes[cname]
        fn = ci.methods.get(mname)
        if fn is None:
            raise AnalysisError('anchored method vanished: %s.%s' % (cname, mname))
        run.functions += 1
        K = '%s|%s|%s|' % (ci.mod.name, cname, mname)
        spectrum = fn.args.args[-1].arg if mname == 'emission' else None
        # sampled quantities: locals assigned from .density(...) / .effective_temperature(...) (or array elements named ni/z)
        sampled = {}
        sums = {}
        for t, v, st in stores(fn):
            if isinstance(t, ast.Name) and isinstance(v, ast.Call) and isinstance(v.func, ast.Attribute) and v.func.attr in SAMPLERS:
                if isinstance(st, ast.AugAssign):
                    sums[t.id] = st
                else:
                    sampled[t.id] = st
            if cname == 'BremsFunction' and isinstance(t, ast.Name) and t.id == 'ni':
                sampled[t.id] = st
        for q, dst in sorted(sampled.items()):
            # uses of q as a factor or as a rate argument
            uses = []
            for n in ast.walk(fn):
                if isinstance(n, ast.BinOp) and isinstance(n.op, ast.Mult):
                    for side in (n.left, n.right):
                        if isinstance(side, ast.Name) and side.id == q:
                            uses.append(n)
                if isinstance(n, ast.Call) and isinstance(n.func, ast.Attribute) and n.func.attr in ('evaluate', 'add_line'):
                    if any(isinstance(a, ast.Name) and a.id == q for a in n.args):
                        uses.append(n)
                if isinstance(n, ast.Assign) and isinstance(n.value, ast.Name) and n.value.id == q and not isinstance(n.targets[0], ast.Name):
                    # handed to the free-free function object: its constructor/evaluate guards are checked there
                    pass
            if not uses:
                continue
            run.subject('C03-R1')
            bad = None
            for u in uses:
                f = facts(guards_of(fn, u) or [])
                if (q, '>', '0') not in f and (q, '>', '0.0') not in f:
                    bad = u
                    break
            if bad is None:
                run.ok('C03-R1', '%s.%s: %s' % (cname, mname, q), '%d uses, all under %s > 0' % (len(uses), q))
            else:
                what = 'temperature' if 'temp' in norm(dst.value) or q.startswith('t') else 'density'
                run.fail('C03-R1', K + 'unguarded:' + q, ci.mod.relpath, bad.lineno,
                         "%s.%s uses the sampled %s '%s' in '%s' without a positivity guard: a non-positive value still contributes "
                         "(negative emission for a negative density)" % (cname, mname, what, q, norm(bad)[:70]))
        for q, st in sorted(sums.items()):
            uses = [n for n in ast.walk(fn) if isinstance(n, ast.BinOp) and isinstance(n.op, ast.Mult)
                    and any(isinstance(s, ast.Name) and s.id == q for s in (n.left, n.right))]
            if not uses:
                continue
            run.subject('C03-R1')
            bad = [u for u in uses if (q, '>', '0') not in facts(guards_of(fn, u) or [])]
            if not bad:
                run.ok('C03-R1', '%s.%s: sum %s' % (cname, mname, q), 'used only under %s > 0' % q)
            else:
                run.fail('C03-R1', K + 'unguarded:' + q, ci.mod.relpath, bad[0].lineno,
                         "%s.%s uses the summed density '%s' without a positivity guard" % (cname, mname, q))
        # early returns hand back the untouched spectrum
        if spectrum:
            sinks = [n for n in ast.walk(fn) if (isinstance(n, ast.Call) and isinstance(n.func, ast.Attribute) and n.func.attr == 'add_line')
                     or (isinstance(n, ast.AugAssign) and norm(n.target).startswith(spectrum + '.samples'))]
            first_sink = min([s.lineno for s in sinks] or [10 ** 9])
            for r in [r for r in ast.walk(fn) if isinstance(r, ast.Return)]:
                if r.lineno < first_sink and isinstance(_enclosing_if(fn, r), ast.If):
                    run.subject('C03-R1')
                    if norm(r.value) == spectrum:
                        run.ok('C03-R1', '%s early return' % cname, norm(_enclosing_if(fn, r).test), sample=False)
                    else:
                        run.fail('C03-R1', K + 'early-return-value', ci.mod.relpath, r.lineno,
                                 '%s.emission returns %s instead of the unchanged spectrum' % (cname, norm(r.value)))
    # the free-free function object refuses non-positive ne / te
    bf = classes['BremsFunction']
    init = bf.methods.get('__init__')
    for q in ('ne', 'te'):
        run.subject('C03-R1')
        ok = any(isinstance(n, ast.If) and norm(n.test) in ('%s <= 0' % q, '%s <= 0.0' % q) and any(isinstance(s, ast.Raise) for s in n.body)
                 for n in ast.walk(init))
        if ok:
            run.ok('C03-R1', 'BremsFunction.__init__ %s' % q, 'raises for %s <= 0' % q, sample=False)
        else:
            run.fail('C03-R1', '%s|BremsFunction|__init__|unguarded:%s' % (bf.mod.name, q), bf.mod.relpath, init.lineno,
                     'BremsFunction accepts a non-positive %s' % q)
    run.floor('C03-R1', 16)


def _enclosing_if(fn, node):
    best = None
    for n in ast.walk(fn):
        if isinstance(n, ast.If) and any(x is node for s in n.body for x in ast.walk(s)):
            best = n
    return best


# ------------------------------------------------------------------------------------------ R2
def _r2(run, classes):
    run.describe('C03-R2', 'radiance normal forms equal the documented expressions; leaves sampled from the documented distributions')

    def body_env(ci, mname, follow_if=False):
        fn = ci.methods[mname]
        e = EmEval()
        rec = []
        run_block(e, fn.body, rec, follow_if=follow_if)
        return fn, e, rec

    def compare(cname, what, got, want_src, env, ci, fn):
        run.subject('C03-R2')
        want = _expr(want_src, env)
        if got is not None and got.eq(want):
            run.ok('C03-R2', '%s %s' % (cname, what), want.key()[:160])
        else:
            run.fail('C03-R2', '%s|%s|emission|form:%s' % (ci.mod.name, cname, what), ci.mod.relpath, fn.lineno,
                     '%s: %s is %s; documented: %s' % (cname, what, got.key()[:220] if got is not None else None, want.key()[:220]))

    base = {'NE': _expr(NE), 'TE': _expr(TE)}
    # excitation / recombination
    for cname in ('ExcitationLine', 'RecombinationLine'):
        ci = classes[cname]
        fn, e, rec = body_env(ci, 'emission')
        env = dict(base, NI=_expr('self._target_species.distribution.density' + XYZ))
        call = [r for r in ast.walk(fn) if isinstance(r, ast.Call) and isinstance(r.func, ast.Attribute) and r.func.attr == 'add_line']
        got = e.ev(call[0].args[0]) if call else None
        compare(cname, 'radiance', got, 'RECIP_4_PI * self._rates.evaluate(NE, TE) * NE * NI', env, ci, fn)
        run.subject('C03-R2')
        if call and norm(call[0].func.value) == 'self._lineshape' and [norm(a) for a in call[0].args[1:]] == ['point', 'direction', 'spectrum']:
            run.ok('C03-R2', cname + ' line-shape call', norm(call[0])[:80], sample=False)
        else:
            run.fail('C03-R2', '%s|%s|emission|lineshape-call' % (ci.mod.name, cname), ci.mod.relpath, fn.lineno,
                     '%s does not hand (radiance, point, direction, spectrum) to its line shape' % cname)
    # thermal CX
    ci = classes['ThermalCXLine']
    fn, e, rec = body_env(ci, 'emission')
    call = [r for r in ast.walk(fn) if isinstance(r, ast.Call) and isinstance(r.func, ast.Attribute) and r.func.attr == 'add_line']
    got = e.ev(call[0].args[0]) if call else None
    env = dict(base, NR=_expr('self._target_species.distribution.density' + XYZ), ND=_expr('species.distribution.density' + XYZ),
               TD=_expr('species.distribution.effective_temperature' + XYZ))
    compare('ThermalCXLine', 'radiance', got, 'RECIP_4_PI * (ND * rate.evaluate(NE, TE, TD)) * NR', env, ci, fn)
    loops = [l for l in ast.walk(fn) if isinstance(l, ast.For)]
    run.subject('C03-R2')
    if len(loops) == 1 and norm(loops[0].iter) == 'self._rates' and norm(loops[0].target) == '(species, rate)' \
            and any(isinstance(s, ast.AugAssign) and isinstance(s.op, ast.Add) for s in loops[0].body):
        run.ok('C03-R2', 'ThermalCXLine donor sum', 'sum over (species, rate) in self._rates')
    else:
        run.fail('C03-R2', '%s|ThermalCXLine|emission|donor-sum' % ci.mod.name, ci.mod.relpath, fn.lineno,
                 'ThermalCXLine does not sum donor_density * rate over all cached donors')
    # total radiated power
    ci = classes['TotalRadiatedPower']
    fn, e, rec = body_env(ci, 'emission', follow_if=True)
    sp = fn.args.args[-1].arg
    env = dict(base, NI=_expr('self._line_rad_species.distribution.density' + XYZ), NU=_expr('self._recom_species.distribution.density' + XYZ),
               NH=_expr('hyd_species.distribution.density' + XYZ))
    got = e.env.get('radiance')
    compare('TotalRadiatedPower', 'radiance', got,
            'RECIP_4_PI * (self._plt_rate.evaluate(NE, TE) * NE * NI + self._prb_rate.evaluate(NE, TE) * NE * NU + '
            'self._prc_rate.evaluate(NE, TE) * NH * NU) / (%s.max_wavelength - %s.min_wavelength)' % (sp, sp), env, ci, fn)
    run.subject('C03-R2')
    lp = [l for l in ast.walk(fn) if isinstance(l, ast.For) and norm(l.iter) == 'range(%s.bins)' % sp]
    ok = lp and any(isinstance(s, ast.AugAssign) and isinstance(s.op, ast.Add) and norm(s.target) == '%s.samples_mv[%s]' % (sp, norm(lp[0].target))
                    and norm(s.value) == 'radiance' for s in lp[0].body)
    if ok:
        run.ok('C03-R2', 'TotalRadiatedPower uniform spread', 'every bin += radiance')
    else:
        run.fail('C03-R2', '%s|TotalRadiatedPower|emission|uniform-spread' % ci.mod.name, ci.mod.relpath, fn.lineno,
                 'TotalRadiatedPower does not add the same radiance to every spectral bin')
    run.subject('C03-R2')
    hl = [l for l in ast.walk(fn) if isinstance(l, ast.For) and norm(l.iter) == 'self._hydrogen_species']
    if hl and any(isinstance(s, ast.AugAssign) and isinstance(s.op, ast.Add) and norm(s.target) == 'nhyd' for s in hl[0].body):
        run.ok('C03-R2', 'TotalRadiatedPower hydrogen sum', 'nhyd = sum over cached hydrogen species', sample=False)
    else:
        run.fail('C03-R2', '%s|TotalRadiatedPower|emission|hydrogen-sum' % ci.mod.name, ci.mod.relpath, fn.lineno, 'nhyd is not the sum over the cached hydrogen species')
    # every neutral hydrogen isotope that is present is cached: an isotope that is absent (composition.get raises) must not end the search
    run.subject('C03-R2')
    pc = ci.methods.get('_populate_cache')
    iso_loops = [l for l in ast.walk(pc) if isinstance(l, ast.For) and isinstance(l.iter, (ast.Tuple, ast.List)) and len(l.iter.elts) >= 2
                 and any(isinstance(c, ast.Call) and isinstance(c.func, ast.Attribute) and c.func.attr == 'get' for c in ast.walk(l))] if pc is not None else []
    if not iso_loops:
        run.undecided('C03-R2', 'TotalRadiatedPower hydrogen isotopes', 'loop over the hydrogen isotopes not recognised')
    else:
        lp_ = iso_loops[0]
        outer = [t for t in ast.walk(pc) if isinstance(t, ast.Try) and any(x is lp_ for b in t.body for x in ast.walk(b))
                 and any(h.type is None or 'ValueError' in norm(h.type) or norm(h.type) == 'Exception' for h in t.handlers)]
        inner = [t for t in ast.walk(lp_) if isinstance(t, ast.Try)]
        names = [norm(e) for e in lp_.iter.elts]
        if outer and not inner:
            run.fail('C03-R2', '%s|TotalRadiatedPower|_populate_cache|isotope-search-aborted' % ci.mod.name, ci.mod.relpath, outer[0].lineno,
                     'the lookup of the neutral hydrogen isotopes %s is wrapped as a whole in one try: the first isotope the plasma lacks ends the '
                     'loop, so isotopes listed after it are never cached and their charge-exchange radiation is missing' % names)
        elif set(names) >= {'hydrogen', 'deuterium', 'tritium'}:
            run.ok('C03-R2', 'TotalRadiatedPower hydrogen isotopes', 'each of %s looked up on its own' % names, sample=False)
        else:
            run.fail('C03-R2', '%s|TotalRadiatedPower|_populate_cache|isotopes' % ci.mod.name, ci.mod.relpath, lp_.lineno,
                     'neutral hydrogen donors are searched among %s only; documented: hydrogen, deuterium and tritium' % names)
    _trp_paths(run, classes['TotalRadiatedPower'])
    # bremsstrahlung function
    ci = classes['BremsFunction']
    fn, e, rec = body_env(ci, 'evaluate', follow_if=True)
    rets = [r for r in ast.walk(fn) if isinstance(r, ast.Return)]
    got = e.ev(rets[-1].value) if rets else None
    wvl = fn.args.args[1].arg
    compare('BremsFunction', 'free-free emissivity', got,
            'BREMS_CONST / (sqrt(self.te) * W * W) * self.ne * (self.species_density_mv[i] * self.gaunt_factor.evaluate(self.species_charge_mv[i], self.te, W) '
            '* self.species_charge_mv[i] * self.species_charge_mv[i]) * exp(-EXP_FACTOR / (self.te * W))', {'W': L(wvl)}, ci, fn)
    # bremsstrahlung bin average
    ci = classes['Bremsstrahlung']
    fn = ci.methods['emission']
    sp = fn.args.args[-1].arg
    lp = [l for l in ast.walk(fn) if isinstance(l, ast.For) and norm(l.iter) == 'range(%s.bins)' % sp]
    run.subject('C03-R2')
    ok = False
    if lp:
        i = norm(lp[0].target)
        e = EmEval({'lower_wavelength': L('LOWER')})
        rec = []
        run_block(e, lp[0].body, rec)
        up = [r for r in rec if r[0] == 'upper_wavelength']
        store = [r for r in rec if r[0].startswith(sp + '.samples_mv')]
        integ = [c for c in ast.walk(lp[0]) if isinstance(c, ast.Call) and norm(c.func) == 'self._integrator.evaluate']
        low0 = [v for t, v, st in stores(fn) if isinstance(t, ast.Name) and t.id == 'lower_wavelength' and st.lineno < lp[0].lineno]
        rec_low = [r for r in rec if r[0] == 'lower_wavelength']
        if up and integ and store and low0 and rec_low:
            upper = _expr('%s.min_wavelength + %s.delta_wavelength * (%s + 1)' % (sp, sp, i))
            if up[0][1].eq(upper) and [norm(a) for a in integ[0].args] == ['lower_wavelength', 'upper_wavelength'] \
                    and norm(low0[-1]) == sp + '.min_wavelength' and rec_low[-1][1].eq(upper) \
                    and isinstance(store[0][2], ast.AugAssign) and norm(store[0][2].value) == 'bin_integral / %s.delta_wavelength' % sp:
                ok = True
    if ok:
        run.ok('C03-R2', 'Bremsstrahlung bin average', 'integral over [min + i d, min + (i+1) d] / d added to bin i')
    else:
        run.fail('C03-R2', '%s|Bremsstrahlung|emission|bin-average' % ci.mod.name, ci.mod.relpath, fn.lineno,
                 'Bremsstrahlung does not add the integral over consecutive bin edges divided by the bin width')
    run.subject('C03-R2')
    sts = {norm(t): norm(v) for t, v, st in stores(fn)}
    if sts.get('self._brems_func.ne') == 'ne' and sts.get('self._brems_func.te') == 'te':
        run.ok('C03-R2', 'Bremsstrahlung hands ne, te to the function', 'ne, te', sample=False)
    else:
        run.fail('C03-R2', '%s|Bremsstrahlung|emission|function-parameters' % ci.mod.name, ci.mod.relpath, fn.lineno,
                 'Bremsstrahlung does not hand the sampled ne/te to the free-free function: %s' % {k: v for k, v in sts.items() if 'brems' in k})
    run.floor('C03-R2', 10)


def _trp_paths(run, ci):
    """TotalRadiatedPower.emission per path: a path that leaves without adding anything must have every one of the three terms
    (line power ~ n_i, recombination ~ n_(i+1), CX ~ n_(i+1) n_H) switched off by what it established; ne <= 0 / te <= 0 excepted."""
    from ..pathinterp import PathInterp
    from ..exprcmp import EmEval
    fn = ci.methods['emission']
    pt, dr, sp = [a.arg for a in fn.args.args[1:4]]
    XYZ = '(%s.x, %s.y, %s.z)' % (pt, pt, pt)
    run.subject('C03-R2')
    try:
        paths = PathInterp(fn, (), {}, evaluator=EmEval, max_paths=512, store_prefixes=(sp + '.samples',), resolve_keys=True).run()
    except Exception as e:
        run.undecided('C03-R2', 'TotalRadiatedPower paths', 'cannot interpret: %s' % e)
        return
    NI = 'self._line_rad_species.distribution.density' + XYZ
    NU = 'self._recom_species.distribution.density' + XYZ
    NE = 'self._plasma.get_electron_distribution().density' + XYZ
    TE = 'self._plasma.get_electron_distribution().effective_temperature' + XYZ

    def positive(dec, q):
        """True / False / None: what the path knows about q > 0"""
        for k, b in dec.items():
            m = k.replace(' ', '')
            qq = q.replace(' ', '')
            for suf, pos in (('>0', True), ('>0.0', True), ('<=0', False), ('<=0.0', False), ('==0', False), ('==0.0', False), ('!=0', True)):
                if m == qq + suf:
                    return b if pos else (not b)
        return None
    bad = None
    n_silent = n_emit = 0
    for p_ in paths:
        if p_.returned is not None and p_.returned.key() == 'raise':
            continue
        dec = dict(p_.decisions)
        if positive(dec, NE) is False or positive(dec, TE) is False:
            continue
        if p_.stores:
            n_emit += 1
            continue
        n_silent += 1
        pi_, pu_ = positive(dec, NI), positive(dec, NU)
        rate_off = {r: (dec.get('self._%s_rate' % r) is False) for r in ('plt', 'prb', 'prc')}
        hyd = [positive(dec, k.split(' > ')[0]) for k in dec if 'hyd' in k and ' > ' in k]
        nh_off = any(h is False for h in hyd)
        line_off = pi_ is False or rate_off['plt']
        rec_off = pu_ is False or rate_off['prb']
        cx_off = pu_ is False or rate_off['prc'] or nh_off
        # nothing was added although power_density may be zero only if every term is off
        if not (line_off and rec_off and cx_off):
            live = [n for n, off in (('line power (n_i)', line_off), ('recombination (n_(i+1))', rec_off), ('charge exchange (n_(i+1) n_H)', cx_off)) if not off]
            bad = (dec, live)
            break
    if bad:
        run.fail('C03-R2', '%s|TotalRadiatedPower|emission|term-dropped' % ci.mod.name, ci.mod.relpath, fn.lineno,
                 'TotalRadiatedPower.emission returns without adding anything on the path %s, where the term(s) %s can still be non-zero: '
                 'that part of the documented total is dropped' % ({k[-40:]: v for k, v in bad[0].items()}, bad[1]))
    elif n_emit:
        run.ok('C03-R2', 'TotalRadiatedPower no term dropped', '%d emitting paths; %d silent paths, each with all three terms switched off' % (n_emit, n_silent))
    else:
        run.undecided('C03-R2', 'TotalRadiatedPower paths', 'no emitting path recognised')


# ------------------------------------------------------------------------------------------ R3
def _r3(run, classes):
    run.describe('C03-R3', 'species / rate selection in _populate_cache')
    from ..inline import propagate

    def pc(cname):
        # single-definition locals replaced by their definitions: a hoisted 'charge + 1' is still 'charge + 1'
        return propagate(classes[cname].methods['_populate_cache'])

    def calls_of(fn, attr):
        return [c for c in ast.walk(fn) if isinstance(c, ast.Call) and isinstance(c.func, ast.Attribute) and c.func.attr == attr]

    def inl(fn, e):
        """text of e with single-definition locals inlined"""
        if isinstance(e, ast.Name):
            d = [v for t, v, st in stores(fn) if isinstance(t, ast.Name) and t.id == e.id]
            if len(d) == 1:
                return norm(d[0])
        return norm(e)

    def expect_call(cname, fn, attr, want, what):
        run.subject('C03-R3')
        cs = calls_of(fn, attr)
        got = [[inl(fn, a) for a in c.args] for c in cs]
        ci = classes[cname]
        if want in got:
            run.ok('C03-R3', '%s %s' % (cname, what), '%s(%s)' % (attr, ', '.join(want)))
        else:
            run.fail('C03-R3', '%s|%s|_populate_cache|%s' % (ci.mod.name, cname, what), ci.mod.relpath, fn.lineno,
                     '%s requests %s(%s); documented: %s(%s)' % (cname, attr, got, attr, ', '.join(want)))
    E, Q, T = 'self._line.element', 'self._line.charge', 'self._line.transition'
    fn = pc('ExcitationLine')
    expect_call('ExcitationLine', fn, 'get', [E, Q], 'target species')
    expect_call('ExcitationLine', fn, 'impact_excitation_pec', [E, Q, T], 'rate')
    fn = pc('RecombinationLine')
    expect_call('RecombinationLine', fn, 'get', [E, Q + ' + 1'], 'target species')
    expect_call('RecombinationLine', fn, 'recombination_pec', [E, Q, T], 'rate')
    fn = pc('ThermalCXLine')
    expect_call('ThermalCXLine', fn, 'get', [E, Q + ' + 1'], 'receiver species')
    expect_call('ThermalCXLine', fn, 'thermal_cx_pec', ['species.element', 'species.charge', E, Q + ' + 1', T], 'rate')
    ci = classes['ThermalCXLine']
    run.subject('C03-R3')
    cs = calls_of(fn, 'thermal_cx_pec')
    good = False
    if cs:
        f = facts(guards_of(fn, cs[0]) or [])
        good = ('species', '!=', 'self._target_species') in f and ('species.charge', '<', 'species.element.atomic_number') in f
        lp = [l for l in ast.walk(fn) if isinstance(l, ast.For) and any(x is cs[0] for x in ast.walk(l))]
        good = good and lp and norm(lp[0].iter) in ('self._plasma.composition', 'self._plasma.get_composition()')
    if good:
        run.ok('C03-R3', 'ThermalCXLine donor filter', 'all species except the receiver and bare nuclei')
    else:
        run.fail('C03-R3', '%s|ThermalCXLine|_populate_cache|donor-filter' % ci.mod.name, ci.mod.relpath, fn.lineno,
                 'ThermalCXLine donors are not "every species except the receiver with charge < atomic number"')
    fn = pc('TotalRadiatedPower')
    expect_call('TotalRadiatedPower', fn, 'line_radiated_power_rate', ['self._element', 'self._charge'], 'plt rate')
    expect_call('TotalRadiatedPower', fn, 'continuum_radiated_power_rate', ['self._element', 'self._charge + 1'], 'prb rate')
    expect_call('TotalRadiatedPower', fn, 'cx_radiated_power_rate', ['self._element', 'self._charge + 1'], 'prc rate')
    ci = classes['TotalRadiatedPower']
    sts = {norm(t): norm(v) for t, v, st in stores(fn)}
    for fld, want in (('self._line_rad_species', '.get(self._element, self._charge)'), ('self._recom_species', '.get(self._element, self._charge + 1)')):
        run.subject('C03-R3')
        if sts.get(fld, '').endswith(want):
            run.ok('C03-R3', 'TotalRadiatedPower ' + fld, sts[fld], sample=False)
        else:
            run.fail('C03-R3', '%s|TotalRadiatedPower|_populate_cache|%s' % (ci.mod.name, fld), ci.mod.relpath, fn.lineno,
                     'TotalRadiatedPower %s = %s; documented: composition%s' % (fld, sts.get(fld), want))
    run.subject('C03-R3')
    lp = [l for l in ast.walk(fn) if isinstance(l, ast.For)]
    ok = any(norm(l.iter) == '(hydrogen, deuterium, tritium)' and any(isinstance(c, ast.Call) and c.func.attr == 'get' and norm(c.args[1]) == '0'
                                                                      for c in ast.walk(l) if isinstance(c, ast.Call) and isinstance(c.func, ast.Attribute))
             for l in lp)
    if ok:
        run.ok('C03-R3', 'TotalRadiatedPower hydrogen donors', 'hydrogen, deuterium, tritium at charge 0')
    else:
        run.fail('C03-R3', '%s|TotalRadiatedPower|_populate_cache|hydrogen-donors' % ci.mod.name, ci.mod.relpath, fn.lineno,
                 'hydrogen CX donors are not the three hydrogen isotopes at charge 0')
    # bremsstrahlung: charges and densities of the same species in the same order
    ci = classes['Bremsstrahlung']
    fp, fe = propagate(ci.methods['_populate_cache']), ci.methods['emission']
    run.subject('C03-R3')

    def filt(fn):
        """the tests selecting species in every iteration over the composition (loop or comprehension), loop variable spelled 'species'"""
        import re as _re
        out = []
        for l in ast.walk(fn):
            if isinstance(l, ast.For) and norm(l.iter) in ('self._plasma.get_composition()', 'self._plasma.composition') and isinstance(l.target, ast.Name):
                for s in l.body:
                    if isinstance(s, ast.If):
                        out.append(_re.sub(r'\b%s\b' % l.target.id, 'species', norm(s.test)))
            if isinstance(l, ast.comprehension) and norm(l.iter) in ('self._plasma.get_composition()', 'self._plasma.composition') and isinstance(l.target, ast.Name):
                for t in l.ifs:
                    out.append(_re.sub(r'\b%s\b' % l.target.id, 'species', norm(t)))
        return out
    if filt(fp) == ['species.charge > 0'] and filt(fe) == ['species.charge > 0']:
        run.ok('C03-R3', 'Bremsstrahlung species filter', 'charge > 0 in both the charge cache and the density sampling')
    else:
        run.fail('C03-R3', '%s|Bremsstrahlung|species-filter' % ci.mod.name, ci.mod.relpath, fe.lineno,
                 'Bremsstrahlung caches charges for %s but samples densities for %s: charges and densities no longer pair up' % (filt(fp), filt(fe)))
    run.floor('C03-R3', 12)


# ------------------------------------------------------------------------------------------ R4
def _fold(e, env):
    if isinstance(e, ast.Constant) and isinstance(e.value, (int, float)):
        return float(e.value)
    if isinstance(e, ast.Name):
        if e.id == 'M_PI':
            return math.pi
        if e.id in env:
            return env[e.id]
        raise KeyError(e.id)
    if isinstance(e, ast.UnaryOp) and isinstance(e.op, ast.USub):
        return -_fold(e.operand, env)
    if isinstance(e, ast.BinOp):
        a, b = _fold(e.left, env), _fold(e.right, env)
        return {ast.Add: lambda: a + b, ast.Sub: lambda: a - b, ast.Mult: lambda: a * b, ast.Div: lambda: a / b,
                ast.Pow: lambda: a ** b}[type(e.op)]()
    if isinstance(e, ast.Call) and dotted(e.func) == 'sqrt':
        return math.sqrt(_fold(e.args[0], env))
    raise KeyError(norm(e))


def _r4(run, prog):
    run.describe('C03-R4', 'constants fold to the documented formula evaluated with independent CODATA values (rel. 1e-6)')
    cm = prog.modules['cherab.core.utility.constants']
    env = {}
    for st in cm.tree.body:
        if isinstance(st, ast.AnnAssign) and st.value is not None and isinstance(st.target, ast.Name):
            try:
                env[st.target.id] = _fold(st.value, env)
            except KeyError:
                pass
    for name, ref in sorted(CODATA.items()):
        run.subject('C03-R4')
        if name not in env:
            raise AnalysisError('constant vanished: %s' % name)
        tol = 1e-6 if name not in ('BOHR_MAGNETON', 'HC_EV_NM') else 1e-5
        if abs(env[name] / ref - 1) < tol:
            run.ok('C03-R4', name, '%r' % env[name], sample=(name == 'ELEMENTARY_CHARGE'))
        else:
            run.fail('C03-R4', 'cherab.core.utility.constants|%s|value' % name, cm.relpath, 0,
                     '%s = %r differs from the CODATA value %r by %.2e (relative)' % (name, env[name], ref, abs(env[name] / ref - 1)))
    run.subject('C03-R4')
    want = 1 / (4 * math.pi)
    if abs(env.get('RECIP_4_PI', 0) / want - 1) < 1e-12:
        run.ok('C03-R4', 'RECIP_4_PI', '1 / (4 pi)')
    else:
        run.fail('C03-R4', 'cherab.core.utility.constants|RECIP_4_PI|value', cm.relpath, 0, 'RECIP_4_PI = %r, expected 1/(4 pi)' % env.get('RECIP_4_PI'))
    bm = prog.modules['cherab.core.model.plasma.bremsstrahlung']
    benv = dict(env)
    for st in bm.tree.body:
        try:
            if isinstance(st, ast.AnnAssign) and st.value is not None and isinstance(st.target, ast.Name):
                benv[st.target.id] = _fold(st.value, benv)
            elif isinstance(st, ast.AugAssign) and isinstance(st.target, ast.Name) and isinstance(st.op, ast.Mult):
                benv[st.target.id] = benv[st.target.id] * _fold(st.value, benv)
            elif isinstance(st, ast.Assign) and isinstance(st.targets[0], ast.Name):
                benv[st.targets[0].id] = _fold(st.value, benv)
        except KeyError:
            continue
    c = CODATA
    e, c0, h, me, eps = c['ELEMENTARY_CHARGE'], c['SPEED_OF_LIGHT'], c['PLANCK_CONSTANT'], c['ELECTRON_REST_MASS'], c['VACUUM_PERMITTIVITY']
    ref_exp = h * c0 * 1e9 / e
    # Hutchinson 5.3.40 in W m^-3 sr^-1 nm^-1 with wavelength in nm and Te in eV
    ref_brems = (e ** 2 / (4 * math.pi * eps)) ** 3 * 32 * math.pi ** 2 / (3 * math.sqrt(3) * me ** 2 * c0 ** 3) \
        * math.sqrt(2 * me / (math.pi * e)) * c0 * 1e9 / (4 * math.pi)
    for name, ref in (('EXP_FACTOR', ref_exp), ('BREMS_CONST', ref_brems)):
        run.subject('C03-R4')
        if name not in benv:
            raise AnalysisError('constant vanished or not foldable: %s' % name)
        if abs(benv[name] / ref - 1) < TOL:
            run.ok('C03-R4', name, '%r (reference %r)' % (benv[name], ref))
        else:
            run.fail('C03-R4', 'cherab.core.model.plasma.bremsstrahlung|%s|value' % name, bm.relpath, 0,
                     '%s folds to %r; the documented formula gives %r (relative difference %.2e)' % (name, benv[name], ref, abs(benv[name] / ref - 1)))
    run.floor('C03-R4', 12)


_IE = P + 'impact_excitation.pyx'
_RC = P + 'recombination.pyx'
_TC = P + 'thermal_cx.pyx'
_TR = P + 'total_radiated_power.pyx'
_BR = P + 'bremsstrahlung.pyx'
_CO = 'cherab/core/utility/constants.pyx'
MUTANTS = [
    dict(name='trp-isotope-search-in-one-try', file=P + 'total_radiated_power.pyx',
         find="        for hyd_isotope in (hydrogen, deuterium, tritium):\n            try:\n                hyd_species = self._plasma.get_composition().get(hyd_isotope, 0)\n            except ValueError:\n                pass\n            else:\n                self._hydrogen_species.append(hyd_species)\n",
         replace="        try:\n            for hyd_isotope in (hydrogen, deuterium, tritium):\n                hyd_species = self._plasma.get_composition().get(hyd_isotope, 0)\n                self._hydrogen_species.append(hyd_species)\n        except ValueError:\n            pass\n", expect='C03-R2'),
    dict(name='trp-early-return-when-either-state-is-absent', file=P + 'total_radiated_power.pyx', find="        nhyd = 0\n        for hyd_species in self._hydrogen_species:",
         replace="        if ni <= 0 or ni_upper <= 0:\n            return spectrum\n        nhyd = 0\n        for hyd_species in self._hydrogen_species:", expect='C03-R2'),
    dict(name='ne-ni-to-ni-ni', file=_IE, find="radiance = RECIP_4_PI * self._rates.evaluate(ne, te) * ne * ni", replace="radiance = RECIP_4_PI * self._rates.evaluate(ne, te) * ni * ni", expect='C03-R2'),
    dict(name='recombination-same-charge', file=_RC, find="        receiver_charge = self._line.charge + 1", replace="        receiver_charge = self._line.charge", expect='C03-R3'),
    dict(name='guard-deleted', file=_RC, find="        if te <= 0.0:\n            return spectrum\n", replace="", expect='C03-R1'),
    dict(name='recip-2-pi', file=_TC, find="radiance = RECIP_4_PI * weighted_rate * receiver_density", replace="radiance = RECIP_2_PI * weighted_rate * receiver_density", expect='C03-R2'),
    dict(name='donor-filter-includes-bare-nuclei', file=_TC, find="species.charge < species.element.atomic_number", replace="species.charge <= species.element.atomic_number", expect='C03-R3'),
    dict(name='elementary-charge-digit', file=_CO, find="ELEMENTARY_CHARGE = 1.602176634e-19", replace="ELEMENTARY_CHARGE = 1.602716634e-19", expect='C03-R4'),
    dict(name='D19-reintroduced', file=_TC, find="            if donor_density <= 0.0:\n                continue\n", replace="", expect='C03-R1'),
    dict(name='prb-with-lower-charge-state', file=_TR, find="power_density += self._prb_rate.evaluate(ne, te) * ne * ni_upper", replace="power_density += self._prb_rate.evaluate(ne, te) * ne * ni", expect='C03-R'),
    dict(name='prc-without-hydrogen-guard', file=_TR, find="if self._prc_rate and ni_upper > 0 and nhyd > 0:", replace="if self._prc_rate and ni_upper > 0:", expect='C03-R1'),
    dict(name='brems-const-pi-power', file=_BR, find="BREMS_CONST *= 32 * M_PI**2 /", replace="BREMS_CONST *= 32 * M_PI**3 /", expect='C03-R4'),
    dict(name='brems-bin-edge', file=_BR, find="upper_wavelength = spectrum.min_wavelength + spectrum.delta_wavelength * (i + 1)", replace="upper_wavelength = spectrum.min_wavelength + spectrum.delta_wavelength * i", expect='C03-R2'),
    dict(name='thermal-cx-rate-argument-order', file=_TC, find="rate.evaluate(ne, te, donor_temperature)", replace="rate.evaluate(ne, donor_temperature, te)", expect='C03-R2'),
    dict(name='uniform-spread-not-normalised', file=_TR, find="radiance = RECIP_4_PI * power_density / (spectrum.max_wavelength - spectrum.min_wavelength)", replace="radiance = RECIP_4_PI * power_density / spectrum.bins", expect='C03-R2'),
    dict(name='brems-exponent-sign', file=_BR, find="exp(- EXP_FACTOR / (self.te * wvl))", replace="exp(EXP_FACTOR / (self.te * wvl))", expect='C03-R2'),
]
TWINS = [
    dict(name='trp-early-return-when-both-states-are-absent', file=P + 'total_radiated_power.pyx', find="        nhyd = 0\n        for hyd_species in self._hydrogen_species:",
         replace="        if ni <= 0 and ni_upper <= 0:\n            return spectrum\n        nhyd = 0\n        for hyd_species in self._hydrogen_species:"),
    dict(name='product-computed-first', file=_IE, find="        radiance = RECIP_4_PI * self._rates.evaluate(ne, te) * ne * ni", replace="        nn = ni * ne\n        radiance = nn * self._rates.evaluate(ne, te) * RECIP_4_PI"),
]
