"""C01 -- no stale derived state after plasma / beam / laser changes (DESIGN section 5, C01).

R1  must-notify: a field of A read by the cached builder of another class must be announced by every mutator writing it
R2  derived-state consistency inside Plasma, Beam, Laser (builders re-run after every write of one of their sources)
R3  lazy-cache protocol of the emission / attenuation models
R4  subscription discipline (remove old / add new / invalidate) in every setter of a subscribed source
R5  scene-graph hook reachable through Python dispatch; notifier callbacks are Python-visible methods
R6  untracked inputs held by a plasma are immutable (readonly fields)
"""
import ast
import os

from ..program import Program, dotted, norm
from ..report import AnalysisError
from ..effects import Effects, summarise, self_chain
from ..flow import guards_of, facts, always_exits

CORE = 'cherab/core'
NODES = {
    'cherab.core.plasma.node.Plasma': dict(builders=['_configure_geometry'], hook='_modified'),
    'cherab.core.beam.node.Beam': dict(builders=['_configure_geometry', '_configure_attenuator'], hook='_modified'),
    'cherab.core.laser.node.Laser': dict(builders=['configure_geometry', '_build_geometry', '_configure_materials'], hook='_modified'),
}
MODEL_BASES = ['cherab.core.plasma.model.PlasmaModel', 'cherab.core.beam.model.BeamModel',
               'cherab.core.beam.model.BeamAttenuator', 'cherab.core.laser.model.LaserModel']
# classes whose instances a plasma holds without change tracking
IMMUTABLE = ['cherab.core.species.Species', 'cherab.core.atomic.line.Line', 'cherab.core.atomic.elements.Element',
             'cherab.core.atomic.elements.Isotope']
# entry points of lazily cached classes
ENTRY = ('emission', 'density', 'calculate_attenuation')
POPULATE_PREFIX = ('_populate', '_calc_attenuation')


def check(run):
    prog = Program()
    files = [f for f in prog.relpaths(CORE) if f.endswith(('.pyx', '.py'))]
    prog.load_many(files)
    for f in files:
        if any(k in f for k in ('plasma/', 'beam/', 'laser/', 'model/', 'species', 'atomic/line', 'atomic/elements', 'utility/notify')):
            run.use_file(f)
    eff = Effects(prog)
    run.explanation = (
        'Decides necessary structural conditions of history independence on every public mutator of Plasma, Beam, Laser, '
        'their model managers and composition, every emission/attenuation model and the attenuator: (R2) every setter '
        'writing a source of a builder of derived state (bounding geometry, materials, attenuator wiring) re-runs that '
        'builder afterwards, on the concrete class with virtual dispatch, including through notifier callbacks; (R1) every '
        'field another class reads inside a cached computation is announced through the notifier by each mutator that writes '
        'it, and the reader registers an invalidating callback; (R3) each lazily cached model tests a sentinel before use, '
        'the populate routine sets it and _change resets it; (R4) setters of subscribed sources do remove-old / add-new / '
        'invalidate; (R5) the scene-graph hook _modified and every notifier callback are reachable through Python dispatch '
        '(def/cpdef, not cdef) and the hook notifies or rebuilds; (R6) Species/Line/Element/Isotope fields are read-only. '
        'Does not decide equality of spectra or densities, nor weak-reference lifetime of callbacks.')
    run.assumptions = ["raysect calls self._modified() by Python attribute lookup when a node's transform or parent changes",
                       'user supplied Function3D objects are immutable', 'no callbacks are registered from outside cherab']
    _r2(run, prog, eff)
    _r1(run, prog, eff)
    _r3(run, prog, eff)
    _r4(run, prog, eff)
    _r5(run, prog, eff)
    _r6(run, prog)
    _r7(run, prog)
    from ..cachekey import check_caches
    check_caches(run, [m_ for m_ in prog.modules.values() if not m_.name.endswith('#pxd')], 'C01-K', prog=prog)


def _field_type(prog, ci, chain):
    """Resolve the class of self.<field> from the declared field type."""
    f = prog.field(ci, chain.split('.')[0])
    if f is None:
        return None
    t = f[0]
    return prog.resolve_class(ci.mod, t) if t else None


def _observer_targets(prog, eff, ci, owner_chain):
    """Callbacks registered by class ci on self.<owner_chain>.notifier anywhere in ci (names of ci methods)."""
    out = set()
    for c in prog.mro(ci):
        for fn in list(c.methods.values()) + list(c.setters.values()):
            for op, owner, cb, node in eff.summary(fn).regs:
                if op == 'add' and owner == owner_chain and cb:
                    out.add(cb)
    return out


def _reaches(prog, eff, ci, fn, targets, depth=0, stop=()):
    """Does fn (on ci) reach one of the methods in `targets`, directly, through self-calls, or through
    notify() on an own/sub-object notifier with a registered callback?  Returns a description or None."""
    clo = eff.closure(ci, fn)
    for t in targets:
        if t in clo.selfcalls:
            return 'calls %s' % t
    # own notifier or sub-object notifier with callbacks registered by ci itself
    for owner in clo.notifies:
        for cb in _observer_targets(prog, eff, ci, owner):
            if cb in targets:
                return 'notify() on %snotifier -> %s' % (owner + '.' if owner else '', cb)
            m = eff.resolve(ci, cb)
            if m is not None and depth < 3:
                r = _reaches(prog, eff, ci, m, targets, depth + 1)
                if r:
                    return 'notify() -> %s -> %s' % (cb, r)
    # mutating call on a typed sub-object whose method notifies a notifier ci subscribed to
    for rc, mname, node in clo.calls:
        if rc and '.' not in rc:
            sub = _field_type(prog, ci, rc)
            if sub is not None:
                sc, sm = prog.find_method(sub, mname)
                if sm is not None and '' in eff.closure(sub, sm).notifies:
                    for cb in _observer_targets(prog, eff, ci, rc):
                        if cb in targets:
                            return '%s.%s() notifies -> %s' % (rc, mname, cb)
                        m = eff.resolve(ci, cb)
                        if m is not None and depth < 3:
                            r = _reaches(prog, eff, ci, m, targets, depth + 1)
                            if r:
                                return '%s.%s() notifies -> %s -> %s' % (rc, mname, cb, r)
    return None


# ------------------------------------------------------------------------------------------ R2
def _r2(run, prog, eff):
    run.describe('C01-R2', 'every public mutator writing a source of a builder re-runs the builder (or a builder that includes it) afterwards')
    for q, spec in NODES.items():
        ci = prog.cls(q)
        builders = {}
        for b in spec['builders']:
            builders[b] = prog.method(ci, b)
        derived = set()
        for b, fn in builders.items():
            derived |= set(eff.closure(ci, fn).writes)
        src = {}
        for b, fn in builders.items():
            clo = eff.closure(ci, fn, stop=tuple(x for x in builders if x != b))
            reads = set()
            for r in clo.reads:
                head = r.split('.')[0]
                if prog.field(ci, head) is not None and head not in ('notifier',):
                    reads.add(r if '.' in r and prog.field(ci, head) is not None and r.count('.') == 1 else head)
                    reads.add(head)
            src[b] = {r for r in reads if r.split('.')[0] not in derived or r in ('_geometry',) and b != '_build_geometry'}
        # a builder that calls another builder covers it
        covers = {b: {b} | {x for x in builders if x in eff.closure(ci, fn).selfcalls} for b, fn in builders.items()}
        run.extra.setdefault('sources', {})[ci.name] = {b: sorted(v) for b, v in src.items()}
        for kind, name, fn, dc in eff.public_mutators(ci):
            if name in builders:
                continue
            own = eff.closure(ci, fn, stop=tuple(builders))
            written = set(own.writes)
            for b in builders:
                hit = sorted(f for f in written if f in src[b])
                if not hit:
                    continue
                run.subject('C01-R2')
                cname = '%s.%s (%s) -> %s' % (ci.name, name, kind, b)
                targets = {x for x in builders if b in covers[x]}
                how = _reaches(prog, eff, ci, fn, targets)
                if how:
                    # ordering: the call must come after the last write of the source in the setter body
                    run.ok('C01-R2', cname, 'writes %s; %s' % (hit, how))
                else:
                    patched = sorted(k for k in own.subwrites if k.split('.')[0] in derived)
                    run.fail('C01-R2', '%s|%s|%s:%s|stale:%s' % (ci.mod.name, ci.name, kind, name, b), dc.mod.relpath, fn.lineno,
                             "%s.%s writes %s, which %s reads, but never re-runs it%s: the derived state keeps the old value until "
                             "something else triggers a rebuild" % (ci.name, name, hit, b,
                                                                     ' (it patches %s in place instead)' % patched if patched else ''))
    run.floor('C01-R2', 12)
    _one_sided_builder_stores(run, prog)
    _detach_reaches_old(run, prog)
    # builders must reset the derived state before any source-dependent early return
    run.describe('C01-R2b', 'a builder clears the old derived objects before any early return')
    for q, spec in NODES.items():
        ci = prog.cls(q)
        for b in spec['builders']:
            fn = prog.method(ci, b)
            if fn is not None:
                # a detach / attach block moved into a private method is read where it is called
                from ..inline import flatten, class_lookup
                try:
                    fn = flatten(fn, class_lookup(prog, ci))
                except Exception:
                    pass
            rets = [r for r in ast.walk(fn) if isinstance(r, ast.Return) and r.value is None]
            assigns_material = [st for st in ast.walk(fn) if isinstance(st, ast.Assign) and norm(st.targets[0]).endswith('.material')]
            if not rets or not assigns_material:
                continue
            for r in rets:
                run.subject('C01-R2b')
                # statements executed before the return at top level
                before = []
                for st in fn.body:
                    if any(x is r for x in ast.walk(st)):
                        break
                    before.append(st)
                resets = [st for st in before for x in ast.walk(st)
                          if isinstance(x, ast.Assign) and (norm(x.targets[0]).endswith('.parent') and norm(x.value) == 'None'
                                                            or norm(x.targets[0]).endswith('.material'))]
                if resets:
                    run.ok('C01-R2b', '%s.%s early return' % (ci.name, b), 'old derived objects detached first: %s' % norm(resets[0])[:60])
                else:
                    run.fail('C01-R2b', '%s|%s|%s|early-return-keeps-old-state' % (ci.mod.name, ci.name, b), ci.mod.relpath, r.lineno,
                             "%s.%s returns early (%s) without clearing the materials built before: after the models, plasma or spectrum "
                             "are removed the old materials keep emitting" % (ci.name, b, norm(_enclosing_test(fn, r))[:90]))


def _detach_reaches_old(run, prog):
    """R2d: what a builder detaches is what the *previous* configuration attached.  Detaching all current children, or the elements of a
    list only the builder itself assigns, reaches them; detaching through a configuration field (self.<field>.parent = None) whose setter
    has already stored the new object by the time the builder runs detaches the new object and leaves the old one attached."""
    run.describe('C01-R2d', 'a builder detaches the objects attached by the previous configuration (not the object a setter has just stored)')
    from ..inline import flatten, class_lookup
    eff = Effects(prog)
    for q, spec in NODES.items():
        ci = prog.cls(q)
        for b in spec['builders']:
            fn0 = prog.method(ci, b)
            if fn0 is None:
                continue
            try:
                fn = flatten(fn0, class_lookup(prog, ci))
            except Exception:
                fn = fn0
            for st in ast.walk(fn):
                if not (isinstance(st, ast.Assign) and len(st.targets) == 1 and isinstance(st.targets[0], ast.Attribute) and st.targets[0].attr == 'parent'
                        and norm(st.value) == 'None'):
                    continue
                tgt = st.targets[0].value
                if not (isinstance(tgt, ast.Attribute) and norm(tgt.value) == 'self'):
                    continue                       # a loop variable: all children / the elements of a list
                fld = tgt.attr
                run.subject('C01-R2d')
                writers = []
                for mname, m in list(ci.methods.items()) + list(ci.setters.items()):
                    if mname in spec['builders'] or mname in ('__init__', '__cinit__'):
                        continue
                    try:
                        if fld in eff.summary(m).writes and any(isinstance(c, ast.Call) and dotted(c.func) == 'self.' + b for c in ast.walk(m)):
                            writers.append(mname)
                    except Exception:
                        pass
                if writers:
                    run.fail('C01-R2d', '%s|%s|%s|detaches-new:%s' % (ci.mod.name, ci.name, b, fld), ci.mod.relpath, st.lineno,
                             "%s.%s detaches self.%s, but %s stores the new object in that field before calling it: the object attached by the "
                             "previous configuration is never detached and keeps emitting next to the new one" % (ci.name, b, fld, writers[0]))
                else:
                    run.ok('C01-R2d', '%s.%s detaches self.%s' % (ci.name, b, fld), 'field assigned by the builder only', sample=False)


def _one_sided_builder_stores(run, prog):
    """R2c: a builder leaves the derived state a function of the *current* configuration only.  A property of a persisting child object
    (self.<child>.<attr>, the child itself not created in the builder) that is assigned under a configuration test on one side and not on
    the other keeps, on that other side, whatever an earlier configuration put there."""
    run.describe('C01-R2c', 'a builder assigns the properties of the persisting geometry on every path that continues (no value survives from an earlier configuration)')
    from ..inline import flatten, class_lookup
    n = 0
    for q, spec in NODES.items():
        ci = prog.cls(q)
        for b in spec['builders']:
            fn = prog.method(ci, b)
            if fn is None:
                continue
            try:
                fn = flatten(fn, class_lookup(prog, ci))
            except Exception:
                pass
            created = {norm(st.targets[0]) for st in ast.walk(fn) if isinstance(st, ast.Assign) and len(st.targets) == 1
                       and isinstance(st.value, ast.Call)}

            def targets(stmts):
                out = {}
                for st in stmts:
                    for x in ast.walk(st):
                        if isinstance(x, ast.Assign):
                            for t in x.targets:
                                txt = norm(t)
                                if txt.startswith('self.') and txt.count('.') >= 2 and isinstance(t, ast.Attribute) and norm(t.value) not in created:
                                    out.setdefault(txt, x)
                return out
            unconditional = targets([st for st in fn.body if not isinstance(st, (ast.If, ast.For, ast.While, ast.Try))])
            def blocks_(node):
                for f_ in ('body', 'orelse', 'finalbody'):
                    b_ = getattr(node, f_, None)
                    if isinstance(b_, list) and b_ and isinstance(b_[0], ast.stmt):
                        yield b_
            rest_of = {}
            for node_ in ast.walk(fn):
                for b_ in blocks_(node_):
                    for k_, st_ in enumerate(b_):
                        if isinstance(st_, ast.If):
                            rest_of[id(st_)] = b_[k_ + 1:]

            def exits_(stmts):
                return bool(stmts) and (always_exits(stmts) or isinstance(stmts[-1], (ast.Break, ast.Continue)))

            def leaves_(stmts):
                return bool(stmts) and always_exits(stmts) and not isinstance(stmts[-1], (ast.Break, ast.Continue))
            for iff in [x for x in ast.walk(fn) if isinstance(x, ast.If)]:
                rest = rest_of.get(id(iff), [])
                # 'if T: A; return' followed by B is 'if T: A else: B': each side is its arm plus, unless the arm ends the block, what follows
                p1 = iff.body + ([] if exits_(iff.body) else rest)
                p2 = iff.orelse + ([] if exits_(iff.orelse) else rest)
                if not exits_(iff.body) and not exits_(iff.orelse):
                    p1, p2 = iff.body, iff.orelse          # what follows is common to both sides
                a, o = targets(p1), targets(p2)
                for side, other, name_, other_stmts in ((a, o, 'else', p2), (o, a, 'if', p1)):
                    if leaves_(other_stmts):
                        continue                            # the other side returns from / raises out of the builder
                    for txt, st in side.items():
                        if txt in other or txt in unconditional:
                            continue
                        # a loop variable's attribute (for child in ...: child.parent = None) is not a persisting child of self
                        n += 1
                        run.subject('C01-R2c')
                        run.fail('C01-R2c', '%s|%s|%s|one-sided:%s' % (ci.mod.name, ci.name, b, txt), ci.mod.relpath, st.lineno,
                                 "%s.%s assigns %s only when (%s) is %s; on the other path the value set by an earlier configuration stays, so the "
                                 "result depends on the history of changes" % (ci.name, b, txt, norm(iff.test)[:50], 'true' if name_ == 'else' else 'false'))
                for txt in set(a) & set(o):
                    n += 1
                    run.subject('C01-R2c')
                    run.ok('C01-R2c', '%s.%s %s' % (ci.name, b, txt), 'assigned on both sides of (%s)' % norm(iff.test)[:40], sample=False)
    run.floor('C01-R2c', 1)


def _enclosing_test(fn, node):
    for n in ast.walk(fn):
        if isinstance(n, ast.If) and any(x is node for x in ast.walk(n)):
            return n.test
    return None


# ------------------------------------------------------------------------------------------ R1
def _chain_type(prog, ci, chain):
    """Class of self.<a>.<b>... following declared field types and trivial accessors."""
    parts = chain.split('.')
    cur = _field_type(prog, ci, parts[0])
    for p in parts[1:]:
        if cur is None:
            return None
        nxt = None
        gc, g = prog.find_getter(cur, p)
        fn = g
        if fn is None:
            mc, fn = prog.find_method(cur, p)
        if fn is not None:
            for r in ast.walk(fn):
                if isinstance(r, ast.Return) and r.value is not None and self_chain(r.value):
                    nxt = _field_type(prog, cur, self_chain(r.value))
        elif prog.field(cur, p) is not None:
            nxt = _field_type(prog, cur, p)
        cur = nxt
    return cur


def _cached_builders(prog, eff, ci):
    """Methods of ci that fill caches: populate routines, attenuation tabulation, geometry generation."""
    out = []
    if ci.qual in NODES:
        for b in NODES[ci.qual]['builders']:
            out.append((b, prog.method(ci, b)))
    for c in prog.mro(ci):
        for name, fn in c.methods.items():
            if name.startswith(POPULATE_PREFIX) or name in ('_generate_geometry', '_cache_transforms', '_beam_attenuation', '_beam_stopping'):
                out.append((name, fn))
    return out


def _r1(run, prog, eff):
    run.describe('C01-R1', 'fields read by another class inside a cached computation are announced by every mutator writing them')
    owners = [c for c in prog.classes.values() if c.mod.relpath.startswith(CORE) and prog.field(c, 'notifier') is not None
              and not c.mod.relpath.startswith('cherab/core/laser/profile') and 'laser/' not in c.mod.relpath.replace('core/laser/node', '')]
    owners = [c for c in prog.classes.values() if c.qual in (
        'cherab.core.plasma.node.Plasma', 'cherab.core.beam.node.Beam', 'cherab.core.plasma.node.Composition',
        'cherab.core.plasma.node.ModelManager', 'cherab.core.beam.node.ModelManager', 'cherab.core.laser.node.ModelManager',
        'cherab.core.beam.model.BeamAttenuator', 'cherab.core.model.attenuator.singleray.SingleRayAttenuator')]
    published = {}     # owner qual -> field -> set of readers
    readers = [c for c in prog.classes.values() if c.mod.relpath.startswith(CORE)]
    for d in readers:
        for bname, bfn in _cached_builders(prog, eff, d):
            clo = eff.closure(d, bfn)
            rd = '%s.%s' % (d.name, bname)
            for rc, mname, node in clo.calls:
                if not rc:
                    continue
                a = _chain_type(prog, d, rc)
                if a is None or a is d:
                    continue
                _publish(prog, eff, a, mname, published, rd)
            for r in clo.reads:
                if '.' in r:
                    head, attr = r.rsplit('.', 1)
                    a = _chain_type(prog, d, head)
                    if a is not None and a is not d:
                        _publish(prog, eff, a, attr, published, rd)
                a = _chain_type(prog, d, r)
                if a is not None and a is not d and '__iter__' in a.methods:
                    _publish(prog, eff, a, '__iter__', published, rd)
    run.extra['published'] = {k: {f: sorted(v)[:4] for f, v in d.items()} for k, d in published.items()}
    for a in owners:
        pub = {}
        for c in prog.mro(a):
            for f, rs in published.get(c.qual, {}).items():
                pub.setdefault(f, set()).update(rs)
        # subclasses' published fields apply to the concrete class
        for kind, name, fn, dc in eff.public_mutators(a):
            clo = eff.closure(a, fn)
            hit = sorted(f for f in clo.writes if f in pub)
            if not hit:
                continue
            run.subject('C01-R1')
            cname = '%s.%s (%s)' % (a.name, name, kind)
            how = None
            if '' in clo.notifies:
                how = 'self.notifier.notify()'
            else:
                # forwarding through a sub-notifier whose callback notifies (Plasma.composition -> _modified)
                for rc, mname, node in clo.calls:
                    if rc and '.' not in rc:
                        sub = _field_type(prog, a, rc)
                        if sub is not None:
                            sc, sm = prog.find_method(sub, mname)
                            if sm is not None and '' in eff.closure(sub, sm).notifies:
                                for cb in _observer_targets(prog, eff, a, rc):
                                    m = eff.resolve(a, cb)
                                    if m is not None and '' in eff.closure(a, m).notifies:
                                        how = '%s.%s() -> %s -> self.notifier.notify()' % (rc, mname, cb)
                # rebuilding the dependents counts (Plasma.atomic_data -> _configure_geometry -> model setters -> _change)
                if how is None and a.qual in NODES:
                    r = _reaches(prog, eff, a, fn, set(NODES[a.qual]['builders']))
                    if r and all(('Material' in x or 'material' in x.lower() or x.split('.')[0] in ('Plasma', 'Beam', 'Laser')) for f in hit for x in pub[f]):
                        how = 'rebuild: ' + r
            ordered, why = True, ''
            if how == 'self.notifier.notify()' and '' in eff.summary(fn).notifies:
                # the notification stands in the mutator itself: it must follow the assignment (observers read the new value)
                from ..flow import refreshed_after_write
                ordered, why = refreshed_after_write(fn, set(hit), lambda c: isinstance(c.func, ast.Attribute) and c.func.attr == 'notify'
                                                     and norm(c.func.value) in ('self.notifier', 'self._notifier'))
            if how and ordered:
                run.ok('C01-R1', cname, 'writes %s read by %s; %s' % (hit, sorted(pub[hit[0]])[:3], how))
            elif how:
                run.fail('C01-R1', '%s|%s|%s:%s|notify-order' % (a.mod.name, a.name, kind, name), dc.mod.relpath, fn.lineno,
                         "%s.%s writes %s, which %s read(s) inside a cached computation, but %s" % (a.name, name, hit, sorted(pub[hit[0]])[:3], why))
            else:
                run.fail('C01-R1', '%s|%s|%s:%s|no-notify' % (a.mod.name, a.name, kind, name), dc.mod.relpath, fn.lineno,
                         "%s.%s writes %s, which %s read(s) inside a cached computation, but does not notify: the cache is not invalidated"
                         % (a.name, name, hit, sorted(pub[hit[0]])[:3]))
    # the reader of a published field registers a callback on the owner's notifier that reaches its builder / invalidator
    run.describe('C01-R1b', "a class caching another object's published fields subscribes a callback that re-runs its builder or invalidator")
    for d in readers:
        builders = [b for b, fn in _cached_builders(prog, eff, d)]
        if not builders:
            continue
        invalidators = set(builders) | {'_change'} | (set(NODES[d.qual]['builders']) if d.qual in NODES else set())
        seen = set()
        for bname, bfn in _cached_builders(prog, eff, d):
            clo = eff.closure(d, bfn)
            for r in sorted(clo.reads):
                head = r.split('.')[0]
                if head in seen or '.' not in r:
                    continue
                a = _field_type(prog, d, head)
                if a is None or prog.field(a, 'notifier') is None:
                    continue
                # only when something behind this reference is published
                if not any(published.get(c.qual) for c in [a] + prog.subclasses(a) + prog.mro(a)):
                    continue
                seen.add(head)
                run.subject('C01-R1b')
                cbs = _observer_targets(prog, eff, d, head)
                ok = None
                for cb in cbs:
                    m = eff.resolve(d, cb)
                    if m is None:
                        continue
                    if cb in invalidators or _reaches(prog, eff, d, m, invalidators):
                        ok = cb
                if ok:
                    run.ok('C01-R1b', '%s subscribes to %s' % (d.name, head), 'callback %s' % ok)
                elif d.mod.relpath.endswith('material.pyx'):
                    run.ok('C01-R1b', '%s re-created by its node' % d.name, 'materials are rebuilt by the owning node (C01-R2)', sample=False)
                else:
                    run.fail('C01-R1b', '%s|%s|subscription:%s' % (d.mod.name, d.name, head), d.mod.relpath, bfn.lineno,
                             "%s caches data read from %s (%s) but %s: a change of the %s never refreshes the cache"
                             % (d.name, head, bname, 'the callback it registers (%s) neither rebuilds nor invalidates' % sorted(cbs) if cbs
                                else 'registers no callback on its notifier', a.name))
    run.floor('C01-R1', 12)
    run.floor('C01-R1b', 8)


def _publish(prog, eff, a, accessor, published, reader):
    """accessor (method / property / field name) of class a read by `reader`: record the fields behind it."""
    cands = [a] + prog.subclasses(a)
    for c in cands:
        fn = None
        cc, g = prog.find_getter(c, accessor)
        if g is not None:
            fn = g
        else:
            cc, m = prog.find_method(c, accessor)
            if m is not None:
                fn = m
        if fn is not None:
            clo = eff.closure(c, fn)
            owner = cc
            for r in clo.reads:
                head = r.split('.')[0]
                if prog.field(c, head) is not None and head != 'notifier':
                    published.setdefault(owner.qual, {}).setdefault(head, set()).add(reader)
        elif prog.field(c, accessor) is not None:
            published.setdefault(c.qual, {}).setdefault(accessor, set()).add(reader)


# ------------------------------------------------------------------------------------------ R3
def _r3(run, prog, eff):
    run.describe('C01-R3', 'lazy cache: entry tests a sentinel before use, populate sets it, _change resets it')
    bases = [prog.cls(q) for q in MODEL_BASES]
    n = 0
    for ci in sorted(prog.classes.values(), key=lambda c: c.qual):
        if not ci.mod.relpath.startswith('cherab/core/model/'):
            continue
        if not any(b in prog.mro(ci) for b in bases) or ci in bases:
            continue
        ch = ci.methods.get('_change') or prog.find_method(ci, '_change')[1]
        if ch is None:
            continue
        n += 1
        chclo = eff.closure(ci, ch)
        resets = {}
        for f, sts in chclo.writes.items():
            for st in sts:
                if isinstance(st, ast.Assign):
                    resets[f] = norm(st.value)
        for ename in ENTRY:
            c0, efn = prog.find_method(ci, ename)
            if efn is None or c0 in bases:
                continue
            # sentinel tests:  if self.F is None: self.populate()
            tests = []
            for st in efn.body:
                if isinstance(st, ast.If):
                    calls = [c for s in st.body for c in ast.walk(s) if isinstance(c, ast.Call) and self_chain(c.func) and self_chain(c.func).startswith(POPULATE_PREFIX)]
                    if calls:
                        tests.append((st, calls))
            uncond = [c for st in efn.body if isinstance(st, ast.Expr) for c in ast.walk(st)
                      if isinstance(c, ast.Call) and self_chain(c.func) and self_chain(c.func).startswith(POPULATE_PREFIX)]
            if not tests and not uncond:
                continue
            for st, calls in tests:
                run.subject('C01-R3')
                t = st.test
                sent, expect = None, None
                if isinstance(t, ast.Compare) and isinstance(t.ops[0], ast.Is) and norm(t.comparators[0]) == 'None':
                    sent, expect = self_chain(t.left), 'None'
                elif isinstance(t, ast.UnaryOp) and isinstance(t.op, ast.Not):
                    sent, expect = self_chain(t.operand), 'False'
                pname = self_chain(calls[0].func)
                K = '%s|%s|%s|' % (ci.mod.name, ci.name, ename)
                if not sent:
                    run.undecided('C01-R3', '%s.%s' % (ci.name, ename), 'sentinel test not recognised: ' + norm(t))
                    continue
                sent_field = sent.split('.')[0]
                pfn = eff.resolve(ci, pname)
                pclo = eff.closure(ci, pfn) if pfn is not None else None
                ok = True
                if pclo is None or (sent not in pclo.writes and sent_field not in pclo.writes and sent not in pclo.subwrites):
                    run.fail('C01-R3', K + 'populate-does-not-set:' + sent, ci.mod.relpath, st.lineno,
                             '%s.%s tests %s but %s never assigns it: the cache is rebuilt on every call or never marked valid' % (ci.name, ename, sent, pname))
                    ok = False
                got = resets.get(sent)
                if got is None and sent in chclo.subwrites:
                    got = norm(chclo.subwrites[sent][-1].value) if isinstance(chclo.subwrites[sent][-1], ast.Assign) else None
                if got is None or (expect == 'None' and got != 'None') or (expect == 'False' and got not in ('False', 'None', '0', '[]')):
                    run.fail('C01-R3', K + 'change-does-not-reset:' + sent, ci.mod.relpath, ch.lineno,
                             "%s._change does not reset '%s' (tested by %s before use): after a plasma/beam/atomic-data change the model keeps "
                             "its cached species, rates and line shape" % (ci.name, sent, ename))
                    ok = False
                # the test precedes every use of cached fields in the entry point
                cached = set(pclo.writes) if pclo is not None else set()
                first_use = None
                for s2 in efn.body:
                    if s2 is st:
                        break
                    for x in ast.walk(s2):
                        c = self_chain(x) if isinstance(x, ast.Attribute) else None
                        if c and c.split('.')[0] in cached and not any(x is y for tt, cc in tests for y in ast.walk(tt.test)):
                            first_use = c
                if first_use:
                    run.fail('C01-R3', K + 'use-before-test:' + first_use, ci.mod.relpath, efn.lineno,
                             '%s.%s reads cached %s before testing the sentinel %s' % (ci.name, ename, first_use, sent))
                    ok = False
                if ok:
                    run.ok('C01-R3', '%s.%s sentinel %s' % (ci.name, ename, sent), 'set by %s, reset by _change to %s' % (pname, got))
        _r3bc(run, prog, eff, ci, ch, chclo)
    if n < 8:
        raise AnalysisError('only %d lazily cached model classes found (floor 8)' % n)
    run.floor('C01-R3', 9)
    run.floor('C01-R3b', 20)


def _toplevel(stmts):
    """Statements executed on every normal run of the block (try bodies and with bodies included)."""
    for st in stmts:
        yield st
        if isinstance(st, ast.Try):
            yield from _toplevel(st.body)
        elif isinstance(st, ast.With):
            yield from _toplevel(st.body)


def _r3bc(run, prog, eff, ci, ch, chclo):
    """R3b: a cached field the populate routine writes only under a condition is reset by _change (otherwise the value of
    an earlier configuration survives the rebuild).  R3c: the populate routine does not go through a public setter of the
    model that invalidates the cache or sets a flag under which _change keeps a value."""
    run.describe('C01-R3b', 'every cached field is rewritten on every rebuild or reset by _change; populate does not use configuration setters')
    # fields whose value _change consults before resetting something ("user supplied" flags)
    keep_flags = set()
    for nd in ast.walk(ch):
        if isinstance(nd, ast.If):
            for x in ast.walk(nd.test):
                c = self_chain(x) if isinstance(x, ast.Attribute) else None
                if c:
                    keep_flags.add(c.split('.')[0])
    for pname, pfn in sorted(ci.methods.items()):
        if not pname.startswith(POPULATE_PREFIX):
            continue
        psum = eff.summary(pfn)
        always = set()
        for st in _toplevel(pfn.body):
            if isinstance(st, (ast.Assign, ast.AnnAssign)):
                for t in (st.targets if isinstance(st, ast.Assign) else [st.target]):
                    for tt in ([t] if not isinstance(t, (ast.Tuple, ast.List)) else t.elts):
                        c = self_chain(tt) if isinstance(tt, ast.Attribute) else None
                        if c and '.' not in c:
                            always.add(c)
        K = '%s|%s|%s|' % (ci.mod.name, ci.name, pname)
        # a cached field is read by the populate routine only after it has been rebuilt there
        for f, sts in sorted(psum.writes.items()):
            if prog.field(ci, f) is None:
                continue
            wl = [st.lineno for st in sts if isinstance(st, (ast.Assign, ast.AnnAssign))]
            if not wl:
                continue
            first_w = min(wl)
            early = [n_ for n_ in ast.walk(pfn) if isinstance(n_, ast.Attribute) and isinstance(n_.ctx, ast.Load) and self_chain(n_) == f and n_.lineno < first_w]
            if early:
                run.subject('C01-R3b')
                run.fail('C01-R3b', K + 'read-before-rebuilt:' + f, ci.mod.relpath, early[0].lineno,
                         '%s.%s reads the cached field %s (line %d) before assigning it (line %d): at that point it still holds the reset value or the '
                         'object of the previous configuration' % (ci.name, pname, f, early[0].lineno, first_w))
        for f, sts in sorted(psum.writes.items()):
            cs, setter = prog.find_setter(ci, f) if hasattr(prog, 'find_setter') else (None, None)
            if setter is not None:
                run.subject('C01-R3b')
                sclo = eff.closure(cs, setter)
                bad = sorted(set(sclo.writes) & keep_flags)
                if '_change' in sclo.selfcalls:
                    run.fail('C01-R3b', K + 'setter-invalidates:' + f, ci.mod.relpath, sts[0].lineno,
                             '%s.%s assigns self.%s through the public setter, which calls _change(): the cache is invalidated while it is being built'
                             % (ci.name, pname, f))
                elif bad:
                    run.fail('C01-R3b', K + 'setter-sets-keep-flag:' + f, ci.mod.relpath, sts[0].lineno,
                             '%s.%s assigns self.%s through the public setter, which sets %s; _change keeps the value while that flag is set, '
                             'so data derived from the old sources survives a change of the sources' % (ci.name, pname, f, bad))
                else:
                    run.ok('C01-R3b', '%s.%s uses setter %s' % (ci.name, pname, f), 'setter neither invalidates nor sets a keep flag')
                continue
            if prog.field(ci, f) is None:
                continue
            run.subject('C01-R3b')
            if f in always:
                run.ok('C01-R3b', '%s.%s' % (ci.name, f), 'rewritten by every run of %s' % pname, sample=False)
            elif f in chclo.writes:
                run.ok('C01-R3b', '%s.%s' % (ci.name, f), 'written conditionally by %s, reset by _change' % pname, sample=False)
            else:
                run.fail('C01-R3b', K + 'conditional-not-reset:' + f, ci.mod.relpath, sts[0].lineno,
                         '%s.%s writes the cached field %s only under a condition and _change does not reset it: after a change of '
                         'the sources the value built for the previous configuration is kept' % (ci.name, pname, f))


# ------------------------------------------------------------------------------------------ R4
def _r4(run, prog, eff):
    run.describe('C01-R4', 'setter of a subscribed source: remove old callback, assign, add callback on the new object, invalidate')
    subjects = []
    for q in MODEL_BASES:
        ci = prog.cls(q)
        if '_change' not in ci.methods:
            # no cache invalidator: everything is read live on each call (LaserModel), nothing to subscribe
            run.notes.append('C01-R4: %s has no _change; its sources are read live' % ci.name)
            continue
        for name, fn in ci.setters.items():
            subjects.append((ci, name, fn))
    for q in NODES:
        ci = prog.cls(q)
        for name, fn in ci.setters.items():
            if any(op == 'add' for op, owner, cb, node in eff.summary(fn).regs):
                subjects.append((ci, name, fn))
    for ci, name, fn in subjects:
        s = eff.summary(fn)
        K = '%s|%s|setter:%s|' % (ci.mod.name, ci.name, name)
        adds = [r for r in s.regs if r[0] == 'add']
        rems = [r for r in s.regs if r[0] == 'remove']
        field = '_' + name
        is_node_typed = _field_type(prog, ci, field) is not None and prog.field(_field_type(prog, ci, field), 'notifier') is not None
        wr = s.writes.get(field)
        run.subject('C01-R4')
        if not wr:
            run.undecided('C01-R4', '%s.%s' % (ci.name, name), 'setter does not assign %s' % field)
            continue
        wline = wr[0].lineno
        problems = []
        if is_node_typed or adds:
            new_adds = [node for op, owner, cb, node in adds if owner == field and (node.lineno > wline or getattr(node, '_on_new', False))]
            old_rems = [node for op, owner, cb, node in rems if owner == field and node.lineno < wline and not getattr(node, '_on_new', False)]
            if not new_adds:
                problems.append(('no-subscribe', 'does not subscribe to the new %s after assigning it' % name))
            elif old_rems and min(a.lineno for a in new_adds) < max(r.lineno for r in old_rems):
                problems.append(('add-before-remove', 'subscribes to the new %s before unsubscribing from the old one: assigning the '
                                 'same object again adds nothing and then removes the only subscription' % name))
            if not old_rems:
                problems.append(('no-unsubscribe', 'does not unsubscribe from the old %s: a detached object keeps invalidating, and the old one is still referenced' % name))
            if adds and rems and {cb for op, o, cb, n in adds} != {cb for op, o, cb, n in rems}:
                problems.append(('callback-mismatch', 'adds %s but removes %s' % ({cb for op, o, cb, n in adds}, {cb for op, o, cb, n in rems})))
        # invalidate / rebuild after assignment
        inval = [n for m, ns in s.selfcalls.items() for n in ns if n.lineno > wline and (m == '_change' or m.lstrip('_').startswith(('configure', 'build', 'change')))]
        if not inval:
            problems.append(('no-invalidate', 'does not invalidate or rebuild after assigning %s' % field))
        if problems:
            for code, msg in problems:
                run.fail('C01-R4', K + code, ci.mod.relpath, fn.lineno, '%s.%s setter %s' % (ci.name, name, msg))
        else:
            run.ok('C01-R4', '%s.%s setter' % (ci.name, name),
                   'remove/assign/add/%s' % sorted({m for m in s.selfcalls}))
    # frozen registration sites of the node classes (DESIGN appendix A.4): each must still subscribe a callback that
    # rebuilds or notifies
    expected = [('cherab.core.plasma.node.Plasma', '_composition'), ('cherab.core.plasma.node.Plasma', '_models'),
                ('cherab.core.beam.node.Beam', '_models'), ('cherab.core.beam.node.Beam', '_attenuator'),
                ('cherab.core.laser.node.Laser', '_plasma'), ('cherab.core.laser.node.Laser', '_laser_profile')]
    for q, owner in expected:
        ci = prog.cls(q)
        run.subject('C01-R4')
        cbs = _observer_targets(prog, eff, ci, owner)
        good = None
        for cb in cbs:
            m = eff.resolve(ci, cb)
            if m is None:
                continue
            clo = eff.closure(ci, m)
            if cb in NODES[q]['builders'] or '' in clo.notifies or any(b in clo.selfcalls for b in NODES[q]['builders']):
                good = cb
        if good:
            run.ok('C01-R4', '%s subscribes to %s.notifier' % (ci.name, owner), good)
        else:
            run.fail('C01-R4', '%s|%s|subscription:%s' % (ci.mod.name, ci.name, owner), ci.mod.relpath, ci.node.lineno,
                     '%s no longer subscribes a rebuilding/notifying callback to %s.notifier (callbacks found: %s): changes of the %s '
                     'are not propagated' % (ci.name, owner, sorted(cbs), owner.lstrip('_')))
    # constructors of the base model classes subscribe when a source is given
    for q in MODEL_BASES[:3]:
        ci = prog.cls(q)
        init = ci.methods.get('__init__')
        s = eff.summary(init)
        if not s.regs:
            # a registration block shared through a module-level helper (helper(self, self._plasma, self._beam)) is read where it is called
            try:
                from ..inline import prep, module_lookup
                from ..effects import summarise as _summ
                s = _summ(prep(init, module_lookup(ci.mod, prog=prog)))
            except Exception:
                pass
        for name in ('plasma', 'beam'):
            if prog.field(ci, '_' + name) is None:
                continue
            run.subject('C01-R4')
            if any(op == 'add' and owner == '_' + name and cb == '_change' for op, owner, cb, node in s.regs):
                run.ok('C01-R4', '%s.__init__ subscribes to %s' % (ci.name, name), '_change')
            else:
                run.fail('C01-R4', '%s|%s|__init__|no-subscribe:%s' % (ci.mod.name, ci.name, name), ci.mod.relpath, init.lineno,
                         '%s.__init__ does not subscribe _change to the %s it is given' % (ci.name, name))
    # materials hand every model its sources
    for mq, fields in (('cherab.core.plasma.material.PlasmaMaterial', ['plasma', 'atomic_data']),
                       ('cherab.core.beam.material.BeamMaterial', ['beam', 'plasma', 'atomic_data']),
                       ('cherab.core.laser.material.LaserMaterial', ['plasma', 'laser_profile', 'laser_spectrum'])):
        ci = prog.cls(mq)
        init = ci.methods.get('__init__')
        for f in fields:
            run.subject('C01-R4')
            sts = [st for lp in ast.walk(init) if isinstance(lp, ast.For) and norm(lp.iter) == 'models'
                   for st in lp.body if isinstance(st, ast.Assign) and norm(st.targets[0]) == '%s.%s' % (norm(lp.target), f)]
            if sts:
                run.ok('C01-R4', '%s assigns model.%s' % (ci.name, f), norm(sts[0]))
            else:
                run.fail('C01-R4', '%s|%s|__init__|model-source:%s' % (ci.mod.name, ci.name, f), ci.mod.relpath, init.lineno,
                         '%s does not hand every model its %s: models keep the source of a previous scene' % (ci.name, f))
    run.floor('C01-R4', 18)


# ------------------------------------------------------------------------------------------ R5
def _r5(run, prog, eff):
    run.describe('C01-R5', '_modified and every notifier callback are Python-visible methods (def/cpdef); the hook notifies or rebuilds')
    for q, spec in NODES.items():
        ci = prog.cls(q)
        run.subject('C01-R5')
        hook = spec['hook']
        fn = ci.methods.get(hook)
        K = '%s|%s|%s|' % (ci.mod.name, ci.name, hook)
        if fn is None:
            run.fail('C01-R5', K + 'missing', ci.mod.relpath, ci.node.lineno, '%s does not override %s: moving the node is never noticed' % (ci.name, hook))
            continue
        kind = ci.method_kind(hook)
        if kind == 'cdef':
            run.fail('C01-R5', K + 'cdef-hook', ci.mod.relpath, fn.lineno,
                     "%s.%s is a C-level (cdef) method: raysect dispatches the hook through Python attribute lookup and reaches the base "
                     "no-op, so moving or re-parenting the node invalidates nothing" % (ci.name, hook))
        else:
            clo = eff.closure(ci, fn)
            if '' in clo.notifies or any(b in clo.selfcalls for b in spec['builders']):
                run.ok('C01-R5', '%s.%s' % (ci.name, hook), '%s; %s' % (kind, 'notifies' if '' in clo.notifies else 'rebuilds'))
            else:
                run.fail('C01-R5', K + 'hook-inert', ci.mod.relpath, fn.lineno, '%s.%s neither notifies nor rebuilds' % (ci.name, hook))
    # every callback handed to Notifier.add/remove is a def/cpdef method of the class
    for ci in sorted(prog.classes.values(), key=lambda c: c.qual):
        if not ci.mod.relpath.startswith(CORE):
            continue
        for fn in list(ci.methods.values()) + list(ci.setters.values()):
            for op, owner, cb, node in eff.summary(fn).regs:
                if op != 'add' or not cb:
                    continue
                run.subject('C01-R5')
                dc, m = prog.find_method(ci, cb)
                if m is None:
                    run.undecided('C01-R5', '%s.%s registers %s' % (ci.name, fn.name, cb), 'callback not found')
                    continue
                kind = dc.method_kind(cb)
                if kind == 'cdef':
                    run.fail('C01-R5', '%s|%s|%s|cdef-callback:%s' % (ci.mod.name, ci.name, fn.name, cb), ci.mod.relpath, node.lineno,
                             "%s.%s registers the C-level method %s as a notifier callback: it is not a bound Python method (the notifier "
                             "cannot hold or call it)" % (ci.name, fn.name, cb))
                else:
                    run.ok('C01-R5', '%s.%s registers %s' % (ci.name, fn.name, cb), kind, sample=False)
    run.floor('C01-R5', 12)


# ------------------------------------------------------------------------------------------ R6
def _r6(run, prog):
    run.describe('C01-R6', 'Species, Line, Element, Isotope fields are declared readonly (who-may-write)')
    for q in IMMUTABLE:
        ci = prog.cls(q)
        for f, (t, vis) in sorted(ci.fields.items()):
            run.subject('C01-R6')
            if vis == 'readonly':
                run.ok('C01-R6', '%s.%s' % (ci.name, f), 'readonly', sample=False)
            elif vis == 'private':
                run.ok('C01-R6', '%s.%s' % (ci.name, f), 'private (C-level only)', sample=False)
            else:
                run.fail('C01-R6', '%s|%s|field:%s|%s' % (ci.mod.name, ci.name, f, vis), ci.mod.relpath, ci.node.lineno,
                         "%s.%s is declared '%s': it can be changed behind the plasma's back without any change notification" % (ci.name, f, vis))
    run.floor('C01-R6', 10)


# ------------------------------------------------------------------------------------------ R7
_MUTATORS = ('append', 'extend', 'clear', 'pop', 'remove', 'insert', 'sort', 'reverse')


def _field_mutations(eff, ci, stmts, field, prog):
    """Nodes inside `stmts` that change the list self.<field>: direct mutation, assignment, del, or a self-call whose closure does."""
    out = []
    for st in stmts:
        for n in ast.walk(st):
            if isinstance(n, ast.Call) and isinstance(n.func, ast.Attribute):
                rc = self_chain(n.func.value) if isinstance(n.func.value, ast.Attribute) else None
                if rc == field and n.func.attr in _MUTATORS:
                    out.append(n)
                elif isinstance(n.func.value, ast.Name) and n.func.value.id == 'self':
                    m = eff.resolve(ci, n.func.attr)
                    if m is not None and field in eff.closure(ci, m).writes:
                        out.append(n)
            elif isinstance(n, (ast.Assign, ast.AugAssign, ast.Delete)):
                tg = n.targets if isinstance(n, (ast.Assign, ast.Delete)) else [n.target]
                for t in tg:
                    base = t.value if isinstance(t, ast.Subscript) else t
                    if isinstance(base, ast.Attribute) and self_chain(base) == field:
                        out.append(n)
    return out


def _leaves_loop_after(loop, node):
    """After the statement holding `node`, the enclosing block leaves the loop (break/return) before iterating again."""
    def search(stmts):
        for i, st in enumerate(stmts):
            if any(x is node for x in ast.walk(st)):
                for _, blk in [(f, getattr(st, f)) for f in ('body', 'orelse', 'finalbody') if isinstance(getattr(st, f, None), list)]:
                    if blk and isinstance(blk[0], ast.stmt) and any(x is node for b in blk for x in ast.walk(b)):
                        r = search(blk)
                        if r:
                            return True
                        break
                else:
                    return any(isinstance(s2, (ast.Break, ast.Return, ast.Raise)) for s2 in stmts[i + 1:i + 2]) or \
                        any(isinstance(s2, (ast.Break, ast.Return, ast.Raise)) for s2 in stmts[i + 1:])
                # the inner block did not leave the loop: look at what follows it on this level
                return any(isinstance(s2, (ast.Break, ast.Return, ast.Raise)) for s2 in stmts[i + 1:])
        return False
    return search(loop.body)


def _r7(run, prog):
    run.describe('C01-R7', 'Notifier delivers to every registered live callback: no loop over the callback list changes that list while iterating')
    eff = Effects(prog)
    ci = prog.cls('cherab.core.utility.notify.Notifier')
    field = '_callbacks_refs'
    nfn = ci.methods.get('notify')
    if nfn is None:
        raise AnalysisError('Notifier.notify vanished')
    loops = 0
    for mname, fn in sorted(ci.methods.items()):
        for lp in [n for n in ast.walk(fn) if isinstance(n, ast.For)]:
            it = lp.iter
            if not (isinstance(it, ast.Attribute) and self_chain(it) == field):
                continue        # iterating a copy (list(...), [:]) or something else
            loops += 1
            run.subject('C01-R7')
            bad = [m for m in _field_mutations(eff, ci, lp.body, field, prog) if not _leaves_loop_after(lp, m)]
            if bad:
                run.fail('C01-R7', '%s|Notifier|%s|mutates-while-iterating' % (ci.mod.name, mname), ci.mod.relpath, bad[0].lineno,
                         'Notifier.%s changes self.%s inside the loop over it and keeps iterating: the entry after a removed one is '
                         'skipped, so a registered live callback is not called (or not found)' % (mname, field))
            else:
                run.ok('C01-R7', 'Notifier.%s loop over %s' % (mname, field), 'no mutation while iterating (or the loop is left right after it)')
    # notify() calls what it dereferences
    run.subject('C01-R7')
    called = {c.func.id for c in ast.walk(nfn) if isinstance(c, ast.Call) and isinstance(c.func, ast.Name)}
    local = {t.id for n in ast.walk(nfn) if isinstance(n, ast.Assign) for t in n.targets if isinstance(t, ast.Name)}
    if called & local:
        run.ok('C01-R7', 'Notifier.notify invokes the dereferenced callbacks', sorted(called & local))
    else:
        run.undecided('C01-R7', 'Notifier.notify', 'no call of a locally dereferenced callback recognised')
    if loops < 3:
        raise AnalysisError('Notifier: only %d loops over the callback list found' % loops)
    run.floor('C01-R7', 4)


_BN = 'cherab/core/beam/node.pyx'
_PN = 'cherab/core/plasma/node.pyx'
_PM = 'cherab/core/plasma/model.pyx'
_IE = 'cherab/core/model/plasma/impact_excitation.pyx'
_SR = 'cherab/core/model/attenuator/singleray.pyx'
_LN = 'cherab/core/laser/node.pyx'
MUTANTS = [
    dict(name='thermalcx-target-species-assigned-last', file='cherab/core/model/plasma/thermal_cx.pyx', edits=[
        dict(file='cherab/core/model/plasma/thermal_cx.pyx', find="            self._target_species = self._plasma.composition.get(self._line.element, receiver_charge)", replace="            target_species = self._plasma.composition.get(self._line.element, receiver_charge)"),
        dict(file='cherab/core/model/plasma/thermal_cx.pyx', find="                                                self._atomic_data, *self._lineshape_args, **self._lineshape_kwargs)\n\n    def _change(self):", replace="                                                self._atomic_data, *self._lineshape_args, **self._lineshape_kwargs)\n        self._target_species = target_species\n\n    def _change(self):")],
        expect='C01-R3b'),
    dict(name='beam-energy-notifies-before-assignment', file=_BN, find="        self._energy = value\n        self.notifier.notify()", replace="        self.notifier.notify()\n        self._energy = value", expect='C01-R1'),
    dict(name='beam-energy-notifies-only-when-larger', file=_BN, find="        self._energy = value\n        self.notifier.notify()", replace="        bigger = value > self._energy\n        self._energy = value\n        if bigger:\n            self.notifier.notify()", expect='C01-R1'),
    dict(name='laser-subscribes-before-unsubscribing', file='cherab/core/laser/node.pyx', edits=[
        dict(file='cherab/core/laser/node.pyx', find="        #unregister from old plasma notifier\n", replace="        value.notifier.add(self._plasma_changed)\n"),
        dict(file='cherab/core/laser/node.pyx', find="        self._plasma.notifier.add(self._plasma_changed)\n", replace="")], expect='C01-R4'),
    dict(name='beam-energy-no-notify', file=_BN, find="        self._energy = value\n        self.notifier.notify()", replace="        self._energy = value", expect='C01-R1'),
    dict(name='model-atomic-data-no-change', file=_PM, find="        self._atomic_data = value\n\n        # inform model source data has changed\n        self._change()", replace="        self._atomic_data = value", expect='C01-R4'),
    dict(name='change-keeps-sentinel', file=_IE, find="        self._target_species = None\n        self._wavelength = 0.0", replace="        self._wavelength = 0.0", expect='C01-R3'),
    dict(name='plasma-models-not-subscribed', file=_PN, find="        self._models.notifier.add(self._configure_geometry)\n", replace="", expect='C01-R2'),
    dict(name='plasma-hook-cdef', edits=[
        dict(file=_PN, find="    def _modified(self):", replace="    cdef object _modified(self):"),
        dict(file='cherab/core/plasma/node.pxd', find="    cdef Composition get_composition(self)\n", replace="    cdef Composition get_composition(self)\n\n    cdef object _modified(self)\n")],
         expect='C01-R5'),
    dict(name='attenuator-change-keeps-density', file=_SR, find="        # reset cached data\n        self._density = None\n", replace="        # reset cached data\n", expect='C01-R3'),
    dict(name='species-charge-public', file='cherab/core/species.pxd', find="    cdef readonly:\n        Element element\n        int charge", replace="    cdef readonly:\n        Element element\n    cdef public:\n        int charge", expect='C01-R6'),
    dict(name='D2-reintroduced-length', file=_BN, find="        self._length = value\n        self._configure_geometry()\n", replace="        self._length = value\n", expect='C01-R2'),
    dict(name='D3-reintroduced', file=_SR, find="        self._clamp_sigma_sqr = value ** 2\n        self.notifier.notify()\n", replace="        self._clamp_sigma_sqr = value ** 2\n", expect='C01-R1'),
    dict(name='D1-reintroduced', edits=[
        dict(file=_BN, find="    def _modified(self):", replace="    cdef int _modified(self) except -1:"),
        dict(file='cherab/core/beam/node.pxd', find="    cdef Plasma get_plasma(self)", replace="    cdef Plasma get_plasma(self)\n\n    cdef int _modified(self) except -1")], expect='C01-R5'),
    dict(name='D18-reintroduced', file=_LN, find="        self._integrator = value\n        self._configure_materials()\n", replace="        self._integrator = value\n\n        for i in self._geometry:\n            i.material.integrator = value\n", expect='C01-R2'),
    dict(name='model-plasma-setter-keeps-old-subscription', file=_PM, find="        # stop listening to the old plasma object\n", replace="        # stop listening\n", expect=None),
    dict(name='composition-add-no-notify', file=_PN, find="        self._species[(species.element, species.charge)] = species\n        self.notifier.notify()", replace="        self._species[(species.element, species.charge)] = species", expect='C01-R1'),
    dict(name='beam-callback-forwards-only', file=_BN, find="        self._configure_geometry()\n        self.notifier.notify()\n\n    def _modified(self):", replace="        self.notifier.notify()\n\n    def _modified(self):", expect='C01-R1b'),
    dict(name='laser-plasma-not-subscribed', file=_LN, find="        self._plasma.notifier.add(self._plasma_changed)\n", replace="", expect='C01-R'),
    dict(name='material-skips-atomic-data', file='cherab/core/plasma/material.pyx', find="            model.atomic_data = atomic_data\n", replace="", expect='C01-R4'),
]
MUTANTS = [m for m in MUTANTS if m.get('expect') is not None]
TWINS = [
    dict(name='beam-energy-notifies-when-changed', file=_BN, find="        self._energy = value\n        self.notifier.notify()", replace="        changed = value != self._energy\n        self._energy = value\n        if changed:\n            self.notifier.notify()"),
    dict(name='laser-subscribes-through-the-parameter', file='cherab/core/laser/node.pyx',
         find="        self._plasma = value\n        self._plasma.notifier.add(self._plasma_changed)",
         replace="        value.notifier.add(self._plasma_changed)\n        self._plasma = value"),
    dict(name='change-keeps-rates', file=_IE, find="        self._rates = None\n        self._lineshape = None", replace="        self._lineshape = None"),
    dict(name='beam-temperature-no-notify', file=_BN, find="        self._temperature = value\n        self.notifier.notify()", replace="        self._temperature = value"),
]
