"""C12 -- equilibrium mapping and flux-surface basis (DESIGN section 5, C12)."""
import ast

from ..program import Program, dotted, norm
from ..report import AnalysisError
from ..flow import guards_of, facts, stores, stmts_before
from ..algebra import SymEval, C, L, Rat, run_block

FILE = 'cherab/tools/equilibrium/efit.pyx'
M = 'cherab.tools.equilibrium.efit'


def _vec(call, ev):
    """components of new_vector3d(a, b, c) / Vector3D(a, b, c) as Rats, else None"""
    if isinstance(call, ast.Call) and dotted(call.func) in ('new_vector3d', 'Vector3D') and len(call.args) == 3:
        return [ev.ev(a) for a in call.args]
    return None


def dot(a, b):
    return a[0] * b[0] + a[1] * b[1] + a[2] * b[2]


def cross(a, b):
    return [a[1] * b[2] - a[2] * b[1], a[2] * b[0] - a[0] * b[2], a[0] * b[1] - a[1] * b[0]]


def _lcfs_mask(run, mk, fn0, M, path):
    """inside  <=>  polygon > 0 and psi_n <= 1, decided per path of EFITLCFSMask.evaluate"""
    import copy
    from ..pathinterp import PathInterp
    from ..exprcmp import EmEval

    class BoolRet(ast.NodeTransformer):
        def visit_Return(self, n):
            if isinstance(n.value, (ast.BoolOp, ast.Compare)) or (isinstance(n.value, ast.UnaryOp) and isinstance(n.value.op, ast.Not)):
                return ast.copy_location(ast.If(test=n.value, body=[ast.Return(value=ast.Constant(value=1.0))],
                                                orelse=[ast.Return(value=ast.Constant(value=0.0))]), n)
            return n
    fn = BoolRet().visit(copy.deepcopy(fn0))
    ast.fix_missing_locations(fn)
    try:
        paths = PathInterp(fn, (), {}, evaluator=EmEval, max_paths=64, resolve_keys=True).run()
    except Exception as e:
        run.undecided('C12-R2', 'LCFS mask', 'cannot interpret: %s' % e)
        return

    def atoms(dec):
        P = Q = None
        aux_q_true = aux_q_false = False
        for k, b in dec.items():
            m = k.replace(' ', '')
            import re
            mm = re.match(r'^(.*?)(<=|>=|<|>|==|!=)([-0-9.e]+)$', m)
            if not mm:
                continue
            lhs, op, c = mm.group(1), mm.group(2), float(mm.group(3))
            if '_lcfs_polygon.evaluate(' in lhs:
                if c == 0 and op == '>':
                    P = b
                elif c == 0 and op == '<=':
                    P = not b
                elif c == 0 and op in ('==',):
                    P = (not b) if P is None else P
                elif c == 0 and op in ('!=',):
                    P = b if P is None else P
            elif '_psi_normalised.evaluate(' in lhs:
                if c == 1 and op == '<=':
                    Q = b
                elif c == 1 and op == '>':
                    Q = not b
                elif op in ('<', '<=') and c <= 1 and b:
                    aux_q_true = True
                elif op in ('>', '>=') and c >= 1 and b and not (op == '>=' and c == 1):
                    aux_q_false = True
        if Q is None and aux_q_true:
            Q = True
        if Q is None and aux_q_false:
            Q = False
        return P, Q
    bad = None
    n_in = n_out = 0
    for p_ in paths:
        dec = dict(p_.decisions)
        v = p_.returned
        if v is None or not v.is_const():
            run.undecided('C12-R2', 'LCFS mask', 'returned value %s not recognised' % (v.key()[:60] if v is not None else None))
            return
        inside = v.const_value() != 0
        P, Q = atoms(dec)
        if inside:
            n_in += 1
            if P is not True or Q is not True:
                bad = ('reports a point as inside the LCFS on the path %s, where %s' % (
                    dec, 'the LCFS polygon was not consulted' if P is None else ('psi_n <= 1 was not established' if Q is not True else 'the point is outside the polygon')))
                break
        else:
            n_out += 1
            if P is not False and Q is not False:
                bad = 'reports a point as outside on the path %s although neither "outside the polygon" nor "psi_n > 1" holds there' % dec
                break
    if bad:
        run.fail('C12-R2', M + '|EFITLCFSMask|evaluate|conjunction', path, fn0.lineno, 'LCFS mask %s; documented: inside <=> inside the polygon and psi_n <= 1' % bad)
    elif n_in and n_out:
        run.ok('C12-R2', 'LCFS mask', 'inside exactly on the path(s) with polygon > 0 and psi_n <= 1 (%d paths)' % len(paths))
    else:
        run.undecided('C12-R2', 'LCFS mask', 'no inside / outside path found')


def check(run):
    prog = Program()
    prog.load_many([FILE])
    run.use_file(FILE)
    run.explanation = (
        'Decides structural necessary conditions of C12: (R1) with B = (b.x, b.y, b.z) the poloidal direction is (b.x, 0, b.z), the '
        'surface normal (-b.z, 0, b.x) and the toroidal vector (0, 1, 0), so that -- as exact polynomial identities -- dot(pol, nor) = '
        'dot(pol, tor) = dot(nor, tor) = 0, cross(pol, tor) = nor componentwise and dot(B, nor) = 0; both are produced by normalise(); '
        'FluxCoordToCartesian uses the same two directions, scaled to the prescribed poloidal and normal magnitudes, and returns '
        'poloidal + normal + toroidal componentwise; (R2) wiring: psi_normalised is (psi - psi_axis)/(psi_lcfs - psi_axis) clamped '
        'with min = 0; map2d blends the outside value and IsoMapper2D(psi_normalised, profile) by inside_lcfs; map3d / map_vector3d '
        'wrap the 2D result in the axisymmetric mappers; the LCFS mask is the conjunction polygon > 0 and psi_n <= 1; b_r = '
        '-dpsi/dz / r, b_z = dpsi/dr / r, b_t = f(psi_n)/r inside and the vacuum field outside. Does not decide interpolation '
        'accuracy, axisymmetry numerically or the polygon mask itself.')
    run.assumptions = ['raysect Vector3D.normalise / set_length keep the direction', 'raysect Blend2D(a, b, mask) returns b where mask is true']
    classes = {c.name: c for c in prog.classes.values()}
    for n in ('EFITEquilibrium', 'EFITLCFSMask', 'MagneticField', 'PoloidalFieldVector', 'FluxSurfaceNormal', 'FluxCoordToCartesian'):
        if n not in classes:
            raise AnalysisError('anchored class vanished: %s' % n)
    _PROG[0] = prog
    _r1(run, classes)
    _r2(run, classes)
    _example(run, prog, classes)
    run.include('C13', {'cherab/core/math/mappers.pyx', 'cherab/core/math/mask.pyx', 'cherab/core/math/clamp.pyx'},
                'map3d / map_vector3d / inside_lcfs are built from the axisymmetric mappers, the polygon mask and the output clamp')
    from ..cachekey import check_caches
    check_caches(run, [m for k, m in prog.modules.items() if k.startswith('cherab.tools.equilibrium') and not k.endswith('#pxd')], 'C12-K', prog=prog)


_PROG = [None]


def _ret_vec(ci, run, K):
    fn = ci.methods.get('evaluate')
    if fn is None:
        raise AnalysisError('anchored method vanished: %s.evaluate' % ci.name)
    if _PROG[0] is not None:
        from ..inline import flatten, class_lookup
        fn = flatten(fn, class_lookup(_PROG[0], ci))      # helpers (the zero-field test) expanded where they are called
    rets = [r for r in ast.walk(fn) if isinstance(r, ast.Return)]
    ev = SymEval()
    # "b = self._field.evaluate(r, z)" -> components b.x, b.y, b.z are leaves
    main = None
    normalised = False
    zero_guard = False
    for r in rets:
        v = r.value
        ev = SymEval()
        run_block(ev, [s_ for s_ in stmts_before(fn, r) if not (isinstance(s_, (ast.Assign, ast.AnnAssign)) and s_.value is not None
                                                                 and isinstance(s_.value, ast.Call) and 'evaluate' in norm(s_.value.func))])
        if isinstance(v, ast.Call) and isinstance(v.func, ast.Attribute) and v.func.attr == 'normalise':
            comps = _vec(v.func.value, ev)
            if comps:
                main = comps
                normalised = True
        else:
            comps = _vec(v, ev)
            if comps and all(c.is_zero() for c in comps):
                f = facts(guards_of(fn, r) or [])
                zero_guard = any(a[1] == '==' and a[2] in ('0', '0.0') for a in f)
            elif comps:
                main = comps
    return fn, main, normalised, zero_guard


def _r1(run, classes):
    run.describe('C12-R1', 'orthogonality / orientation identities of the flux-surface basis; FluxCoordToCartesian uses the same directions')
    pol_c, nor_c = classes['PoloidalFieldVector'], classes['FluxSurfaceNormal']
    K = M + '|'
    fnp, pol, pn, pz = _ret_vec(pol_c, run, K)
    fnn, nor, nn, nz = _ret_vec(nor_c, run, K)
    run.functions += 3
    if pol is None or nor is None:
        run.undecided('C12-R1', 'basis vectors', 'could not read the returned vectors')
        return
    # rename the field variable of both to 'b'
    def ren(vs, fn):
        names = {n_.id for st in ast.walk(fn) if isinstance(st, (ast.Assign, ast.AnnAssign)) for n_ in ast.walk(st) if isinstance(n_, ast.Name)}
        out = []
        for v in vs:
            m = {}
            for l in v.leaves():
                if l.endswith(('.x', '.y', '.z')):
                    m[l] = L('b' + l[-2:])
            out.append(v.subst(m))
        return out
    pol, nor = ren(pol, fnp), ren(nor, fnn)
    tor = [C(0), C(1), C(0)]
    B = [L('b.x'), L('b.y'), L('b.z')]
    checks = [('dot(poloidal, normal) = 0', dot(pol, nor).is_zero(), 'PoloidalFieldVector'),
              ('dot(poloidal, toroidal) = 0', dot(pol, tor).is_zero(), 'PoloidalFieldVector'),
              ('dot(normal, toroidal) = 0', dot(nor, tor).is_zero(), 'FluxSurfaceNormal'),
              ('cross(poloidal, toroidal) = normal', all(a.eq(b) for a, b in zip(cross(pol, tor), nor)), 'FluxSurfaceNormal'),
              ('dot(B, normal) = 0', dot(B, nor).is_zero(), 'FluxSurfaceNormal'),
              ('poloidal along the in-plane field', all(a.eq(b) for a, b in zip(pol, [L('b.x'), C(0), L('b.z')])), 'PoloidalFieldVector')]
    for what, ok, cname in checks:
        run.subject('C12-R1')
        if ok:
            run.ok('C12-R1', what, 'poloidal=%s normal=%s' % ([str(x) for x in pol], [str(x) for x in nor]))
        else:
            run.fail('C12-R1', K + cname + '|evaluate|' + what.split(' =')[0].replace(' ', ''), classes[cname].mod.relpath, classes[cname].methods['evaluate'].lineno,
                     'basis identity "%s" fails: poloidal direction %s, surface normal %s, toroidal (0, 1, 0)' % (what, [str(x) for x in pol], [str(x) for x in nor]))
    for cname, normalised, zg, fn in (('PoloidalFieldVector', pn, pz, fnp), ('FluxSurfaceNormal', nn, nz, fnn)):
        run.subject('C12-R1')
        if normalised and zg:
            run.ok('C12-R1', cname + ' unit length', 'normalise(); zero vector where the in-plane field vanishes')
        else:
            run.fail('C12-R1', K + cname + '|evaluate|unit', classes[cname].mod.relpath, fn.lineno,
                     '%s does not return its direction through normalise() (with the zero-field case handled)' % cname)
    # FluxCoordToCartesian
    ci = classes['FluxCoordToCartesian']
    fn = ci.methods['evaluate']
    run.subject('C12-R1')
    ok = False
    detail = None
    recog = False
    if True:
        ev = SymEval()
        vecs, lens, zero_defs = {}, {}, {}
        for st in ast.walk(fn):
            if isinstance(st, ast.Assign) and isinstance(st.targets[0], ast.Name):
                v = _vec(st.value, ev)
                if v:
                    if all(c.is_zero() for c in v):
                        zero_defs[st.targets[0].id] = st        # the zero-field fallback
                    else:
                        vecs[st.targets[0].id] = v
            if isinstance(st, ast.Expr) and isinstance(st.value, ast.Call) and isinstance(st.value.func, ast.Attribute) and st.value.func.attr == 'set_length':
                lens[norm(st.value.func.value)] = norm(st.value.args[0])
        fvar = [norm(s.targets[0]) for s in ast.walk(fn) if isinstance(s, ast.Assign) and 'self._field.evaluate' in norm(s.value)]
        ret = [r for r in ast.walk(fn) if isinstance(r, ast.Return)]
        if fvar and {'toroidal', 'poloidal', 'normal'} <= set(vecs):
            recog = True
            f = fvar[0]
            m = lambda vs: [v.subst({f + '.x': L('b.x'), f + '.y': L('b.y'), f + '.z': L('b.z')}) for v in vs]
            p2, n2, t2 = m(vecs['poloidal']), m(vecs['normal']), vecs['toroidal']
            detail = ([str(x) for x in p2], [str(x) for x in n2])
            same = all(a.eq(b) for a, b in zip(p2, pol)) and all(a.eq(b) for a, b in zip(n2, nor))
            psi = [norm(s.targets[0]) for s in ast.walk(fn) if isinstance(s, ast.Assign) and 'self._psin.evaluate' in norm(s.value)]
            mags = psi and lens.get('poloidal') == 'self._poloidal.evaluate(%s)' % psi[0] and lens.get('normal') == 'self._normal.evaluate(%s)' % psi[0] \
                and t2[0].is_zero() and t2[2].is_zero() and t2[1].key() == 'self._toroidal.evaluate(%s)' % psi[0]
            comp = ret and norm(ret[-1].value).replace(' ', '') == 'new_vector3d(poloidal.x+normal.x,toroidal.y,poloidal.z+normal.z)'
            # the scaled directions are used only where the in-plane field does not vanish
            guard_ok = True
            for nm in ('poloidal', 'normal'):
                sl = [st for st in ast.walk(fn) if isinstance(st, ast.Expr) and isinstance(st.value, ast.Call) and isinstance(st.value.func, ast.Attribute)
                      and st.value.func.attr == 'set_length' and norm(st.value.func.value) == nm]
                for st in sl:
                    ff = facts(guards_of(fn, st) or [])
                    if not (((f + '.x', '!=', '0') in ff or (f + '.z', '!=', '0') in ff) or any(a[1] == 'false' and (f + '.x == 0') in a[0] for a in ff)
                            or any(a[1] == 'true' and (f + '.x != 0') in a[0] for a in ff)):
                        guard_ok = False
            ok = same and mags and comp and guard_ok
    # the zero-field fallback (in-plane components dropped) applies only where *both* in-plane field components vanish
    fvar_ = [norm(s_.targets[0]) for s_ in ast.walk(fn) if isinstance(s_, ast.Assign) and 'self._field.evaluate' in norm(s_.value)]
    wide = None
    if fvar_:
        fx, fz = fvar_[0] + '.x', fvar_[0] + '.z'
        for t_ in [n_.test for n_ in ast.walk(fn) if isinstance(n_, (ast.If, ast.IfExp))]:
            cmps = [c_ for c_ in ast.walk(t_) if isinstance(c_, ast.Compare) and len(c_.ops) == 1 and norm(c_.left) in (fx, fz)
                    and norm(c_.comparators[0]) in ('0', '0.0')]
            if not cmps:
                continue
            kinds = {type(c_.ops[0]) for c_ in cmps}
            comps_ = {norm(c_.left) for c_ in cmps}
            if isinstance(t_, ast.BoolOp) and comps_ == {fx, fz}:
                if (isinstance(t_.op, ast.Or) and kinds == {ast.Eq}) or (isinstance(t_.op, ast.And) and kinds == {ast.NotEq}):
                    wide = t_
            elif comps_ != {fx, fz} and kinds <= {ast.Eq, ast.NotEq}:
                wide = t_
    if wide is not None:
        run.fail('C12-R1', K + 'FluxCoordToCartesian|evaluate|zero-field-test', ci.mod.relpath, wide.lineno,
                 'FluxCoordToCartesian.evaluate decides on (%s) whether the poloidal and normal components are dropped: the in-plane field is '
                 'the zero vector only when both of its components vanish; where just one of them is zero (a purely radial or purely vertical '
                 'field) the velocity loses its poloidal and normal parts' % norm(wide))
    elif ok:
        run.ok('C12-R1', 'FluxCoordToCartesian', 'same directions as the basis classes, set to the prescribed magnitudes, summed componentwise')
    elif not recog:
        run.undecided('C12-R1', 'FluxCoordToCartesian', 'vector construction not recognised')
    else:
        run.fail('C12-R1', K + 'FluxCoordToCartesian|evaluate|composition', ci.mod.relpath, fn.lineno,
                 'FluxCoordToCartesian builds its poloidal/normal directions as %s; the basis classes use %s / %s, each scaled by its own component function '
                 'and summed with the toroidal component' % (detail, [str(x) for x in pol], [str(x) for x in nor]))
    run.floor('C12-R1', 9)


# stored key of the example file -> constructor parameter it describes (where the names differ)
_EXAMPLE_KEYS = {'psi': 'psi_grid', 'axis_coord': 'magnetic_axis'}


def _example(run, prog, classes):
    """R3: example_equilibrium hands every stored quantity of example.json to the EFITEquilibrium parameter it describes (the psi grid
    as the psi grid, the LCFS polygon as the LCFS polygon, ...), points built as Point2D(r, z) from (entry[0], entry[1])."""
    run.describe('C12-R3', 'example_equilibrium: each stored quantity is passed as the constructor parameter of the same meaning; points are (entry[0], entry[1])')
    rel = 'cherab/tools/equilibrium/example.py'
    mi = prog.load(rel, required=False)
    if mi is None:
        raise AnalysisError('anchored source file vanished: %s' % rel)
    run.use_file(rel)
    fn = mi.functions.get('example_equilibrium')
    ci = classes.get('EFITEquilibrium')
    if fn is None or ci is None or '__init__' not in ci.methods:
        raise AnalysisError('anchored function vanished: example_equilibrium / EFITEquilibrium.__init__')
    params = [a.arg for a in ci.methods['__init__'].args.args[1:]]
    defs = {}
    for st in ast.walk(fn):
        if isinstance(st, ast.Assign) and len(st.targets) == 1 and isinstance(st.targets[0], ast.Name):
            defs.setdefault(st.targets[0].id, []).append(st.value)
    data = [n for n, vs in defs.items() if any(isinstance(v, ast.Call) and dotted(v.func) in ('json.load', 'json.loads') for v in vs)]
    K = mi.name + '|example_equilibrium|'
    calls = [c for c in ast.walk(fn) if isinstance(c, ast.Call) and (dotted(c.func) or '').split('.')[-1] == 'EFITEquilibrium']
    if len(calls) != 1 or not data:
        run.subject('C12-R3')
        run.undecided('C12-R3', 'example_equilibrium', 'constructor call or json.load not found')
        return

    def keys(e, depth=0):
        out = set()
        for x in ast.walk(e):
            if isinstance(x, ast.Subscript) and isinstance(x.value, ast.Name) and x.value.id in data and isinstance(x.slice, ast.Constant):
                out.add(x.slice.value)
            elif isinstance(x, ast.Name) and x.id in defs and x.id not in data and depth < 4:
                for v in defs[x.id]:
                    out |= keys(v, depth + 1)
        return out
    call = calls[0]
    bound = list(zip(params, call.args)) + [(k.arg, k.value) for k in call.keywords]
    for pname, arg in bound:
        run.subject('C12-R3')
        ks = keys(arg)
        want = {k for k in ks if _EXAMPLE_KEYS.get(k, k) == pname}
        if ks and ks == want:
            run.ok('C12-R3', 'example_equilibrium %s' % pname, 'from %s' % sorted(ks), sample=False)
        elif ks:
            run.fail('C12-R3', K + 'wiring:' + pname, rel, arg.lineno,
                     "example_equilibrium passes the stored %s as the constructor parameter '%s': the example equilibrium is built from "
                     "another quantity than the one the file stores for it" % (sorted(ks), pname))
        else:
            run.undecided('C12-R3', 'example_equilibrium %s' % pname, 'argument %s not traced to the file' % norm(arg)[:40])
    # points: Point2D(entry[0], entry[1])
    for c in ast.walk(fn):
        if isinstance(c, ast.Call) and (dotted(c.func) or '').split('.')[-1] == 'Point2D' and len(c.args) == 2:
            run.subject('C12-R3')
            idx = [norm(a.slice) if isinstance(a, ast.Subscript) else None for a in c.args]
            base = [norm(a.value) if isinstance(a, ast.Subscript) else None for a in c.args]
            if idx == ['0', '1'] and base[0] == base[1]:
                run.ok('C12-R3', 'example_equilibrium point %s' % base[0], 'Point2D(entry[0], entry[1])', sample=False)
            elif None in idx:
                run.undecided('C12-R3', 'example_equilibrium point', 'coordinates %s' % norm(c)[:40])
            else:
                run.fail('C12-R3', K + 'point:' + norm(c)[:30], rel, c.lineno,
                         'example_equilibrium builds %s: the stored points are (r, z) pairs, so the coordinates are entry[0], entry[1] of the '
                         'same entry' % norm(c))
    run.floor('C12-R3', 15)


def _wiring(run, K, what, got_call, fname, want_args, path, line, kw=None):
    """compare a constructor call; same callee with other arguments -> violation, other callee -> undecided"""
    run.subject('C12-R2')
    if got_call is None or not isinstance(got_call, ast.Call):
        run.undecided('C12-R2', what, 'not a constructor call: %s' % norm(got_call))
        return
    f = dotted(got_call.func)
    if f != fname:
        run.undecided('C12-R2', what, 'built with %s instead of %s' % (f, fname))
        return
    args = [norm(a).replace(' ', '') for a in got_call.args]
    kws = {k.arg: norm(k.value).replace(' ', '') for k in got_call.keywords}
    if args == [w.replace(' ', '') for w in want_args] and (kw is None or all(kws.get(k) == v for k, v in kw.items())):
        run.ok('C12-R2', what, norm(got_call)[:120])
    else:
        run.fail('C12-R2', K + what.replace(' ', '-'), path, line,
                 '%s is %s; documented: %s(%s%s)' % (what, norm(got_call)[:160], fname, ', '.join(want_args), ''.join(', %s=%s' % kv for kv in (kw or {}).items())))


def _r2(run, classes):
    run.describe('C12-R2', 'wiring of psi_normalised, map2d/map3d/map_vector2d/map_vector3d, the LCFS mask and the magnetic field components')
    eq = classes['EFITEquilibrium']
    K = M + '|EFITEquilibrium|'
    path = eq.mod.relpath
    init = eq.methods['__init__']
    d = {}
    for t, v, st in stores(init):
        if isinstance(st, ast.Assign):
            d[norm(t)] = v
    pn = d.get('self.psi_normalised')
    if isinstance(pn, ast.Call) and (dotted(pn.func) or '').startswith('Interpolator'):
        run.subject('C12-R2')
        run.fail('C12-R2', K + 'psi_normalised-clamp', path, pn.lineno,
                 'psi_normalised is the bare interpolant %s: nothing clamps its output at zero (a cubic interpolant undershoots its nodes even when the '
                 'grid values are clipped), so the normalised flux can be negative near the axis; documented: ClampOutput2D(interpolant, min=0)' % norm(pn)[:80])
    else:
        _wiring(run, K, 'psi_normalised clamp', pn, 'ClampOutput2D', [norm(pn.args[0]) if isinstance(pn, ast.Call) and pn.args else '?'], path, init.lineno, kw={'min': '0'})
    run.subject('C12-R2')
    inner = pn.args[0] if isinstance(pn, ast.Call) and pn.args else None
    if isinstance(inner, ast.Call) and dotted(inner.func) == 'Interpolator2DArray' and len(inner.args) >= 3:
        e = SymEval()
        got = e.ev(inner.args[2])
        want = (L('psi') - L('psi_axis')) / (L('psi_lcfs') - L('psi_axis'))
        if got.eq(want):
            run.ok('C12-R2', 'psi normalisation', '(psi - psi_axis) / (psi_lcfs - psi_axis)')
        else:
            run.fail('C12-R2', K + '__init__|psi-normalisation', path, inner.lineno, 'normalised flux grid is %s; documented: (psi - psi_axis) / (psi_lcfs - psi_axis)' % got)
    else:
        run.undecided('C12-R2', 'psi normalisation', 'psi_normalised is not built on Interpolator2DArray')
    _wiring(run, K, 'b_field', d.get('self.b_field'), 'MagneticField',
            ['self.psi_normalised', 'dpsi_dr', 'dpsi_dz', 'self.f_profile', 'b_vacuum_radius', 'b_vacuum_magnitude', 'self.inside_lcfs'], path, init.lineno)
    _wiring(run, K, 'poloidal_vector', d.get('self.poloidal_vector'), 'PoloidalFieldVector', ['self.b_field'], path, init.lineno)
    _wiring(run, K, 'surface_normal', d.get('self.surface_normal'), 'FluxSurfaceNormal', ['self.b_field'], path, init.lineno)
    _wiring(run, K, 'toroidal_vector', d.get('self.toroidal_vector'), 'ConstantVector2D', ['Vector3D(0, 1, 0)'], path, init.lineno)
    pp = eq.methods.get('_process_polygons')
    dd = {norm(t): v for t, v, st in stores(pp) if isinstance(st, ast.Assign)} if pp else {}
    _wiring(run, K, 'inside_lcfs', dd.get('self.inside_lcfs'), 'EFITLCFSMask', ['lcfs_polygon', 'psi_normalised'], path, (pp or init).lineno)
    # map2d
    fn = eq.methods['map2d']
    prof, outside = [a.arg for a in fn.args.args[1:3]]
    ret = [r for r in ast.walk(fn) if isinstance(r, ast.Return)]
    dm = {norm(t): v for t, v, st in stores(fn) if isinstance(st, ast.Assign)}
    fvar = [k for k, v in dm.items() if isinstance(v, ast.Call) and dotted(v.func) == 'IsoMapper2D']
    _wiring(run, K, 'map2d iso-mapping', dm.get(fvar[0]) if fvar else None, 'IsoMapper2D', ['self.psi_normalised', prof], path, fn.lineno)
    _wiring(run, K, 'map2d blend', ret[-1].value if ret else None, 'ScalarBlend2D', [outside, fvar[0] if fvar else '?', 'self.inside_lcfs'], path, fn.lineno)
    # array profiles are 2 x N (row 0: normalised flux, row 1: values): the rows handed to the interpolator are rows 0 and 1 of the array as
    # given -- a re-layout decided from the shape (transpose when shape[1] == 2) misreads a genuine 2 x 2 profile
    for mname_ in ('map2d', 'map_vector2d'):
        fnm = eq.methods.get(mname_)
        if fnm is None:
            continue
        run.subject('C12-R2')
        relayout = [st for st in ast.walk(fnm) if isinstance(st, ast.Assign) and len(st.targets) == 1 and isinstance(st.targets[0], ast.Name)
                    and ((isinstance(st.value, ast.Call) and isinstance(st.value.func, ast.Attribute) and st.value.func.attr in ('transpose', 'swapaxes')
                          and norm(st.value.func.value) == st.targets[0].id)
                         or (isinstance(st.value, ast.Attribute) and st.value.attr == 'T' and norm(st.value.value) == st.targets[0].id)
                         or (isinstance(st.value, ast.Call) and dotted(st.value.func) in ('np.transpose', 'np.swapaxes') and st.value.args
                             and norm(st.value.args[0]) == st.targets[0].id))]
        shaped = [st for st in relayout if any('.shape' in norm(e_) or '.ndim' in norm(e_) for e_, p_ in (guards_of(fnm, st) or []) if isinstance(e_, ast.AST))]
        if shaped:
            run.fail('C12-R2', K + mname_ + '|profile-layout', path, shaped[0].lineno,
                     "%s re-lays out an array profile depending on its shape (%s): a 2 x 2 profile [[psi0, psi1], [f0, f1]] is transposed and read as "
                     "[[psi0, f0], [psi1, f1]], so the mapped function is not the given profile of normalised flux" % (mname_, norm(shaped[0])))
        else:
            run.ok('C12-R2', mname_ + ' array profile layout', 'rows 0 / 1 of the array as given', sample=False)
    fn = eq.methods['map3d']
    ret = [r for r in ast.walk(fn) if isinstance(r, ast.Return)]
    a = [x.arg for x in fn.args.args[1:3]]
    _wiring(run, K, 'map3d', ret[-1].value if ret else None, 'AxisymmetricMapper', ['self.map2d(%s, %s)' % tuple(a)], path, fn.lineno)
    fn = eq.methods['map_vector2d']
    tor, pol, nor, outside = [x.arg for x in fn.args.args[1:5]]
    dm = {norm(t): v for t, v, st in stores(fn) if isinstance(st, ast.Assign)}
    vvar = [k for k, v in dm.items() if isinstance(v, ast.Call) and dotted(v.func) == 'FluxCoordToCartesian']
    ret = [r for r in ast.walk(fn) if isinstance(r, ast.Return)]
    _wiring(run, K, 'map_vector2d flux coordinates', dm.get(vvar[0]) if vvar else None, 'FluxCoordToCartesian',
            ['self.b_field', 'self.psi_normalised', tor, pol, nor], path, fn.lineno)
    _wiring(run, K, 'map_vector2d blend', ret[-1].value if ret else None, 'VectorBlend2D', [outside, vvar[0] if vvar else '?', 'self.inside_lcfs'], path, fn.lineno)
    fn = eq.methods['map_vector3d']
    a = [x.arg for x in fn.args.args[1:5]]
    ret = [r for r in ast.walk(fn) if isinstance(r, ast.Return)]
    _wiring(run, K, 'map_vector3d', ret[-1].value if ret else None, 'VectorAxisymmetricMapper', ['self.map_vector2d(%s, %s, %s, %s)' % tuple(a)], path, fn.lineno)
    # FluxCoordToCartesian constructor binds (toroidal, poloidal, normal) to their own fields
    fc = classes['FluxCoordToCartesian']
    fi = fc.methods['__init__']
    di = {norm(t): norm(v) for t, v, st in stores(fi) if isinstance(st, ast.Assign)}
    run.subject('C12-R2')
    want = {'self._toroidal': 'autowrap_function1d(toroidal)', 'self._poloidal': 'autowrap_function1d(poloidal)', 'self._normal': 'autowrap_function1d(normal)',
            'self._field': 'autowrap_vectorfunction2d(field)', 'self._psin': 'autowrap_function2d(psi_normalised)'}
    if all(di.get(k) == v for k, v in want.items()):
        run.ok('C12-R2', 'FluxCoordToCartesian constructor', 'each component function bound to its own field')
    else:
        run.fail('C12-R2', M + '|FluxCoordToCartesian|__init__|binding', path, fi.lineno, 'FluxCoordToCartesian.__init__ stores %s' % {k: di.get(k) for k in want})
    # LCFS mask
    mk = classes['EFITLCFSMask']
    fn = mk.methods['evaluate']
    r_, z_ = [a.arg for a in fn.args.args[1:3]]
    run.subject('C12-R2')
    _lcfs_mask(run, mk, fn, M, path)
    # magnetic field components
    mf = classes['MagneticField']
    fn = mf.methods['evaluate']
    r_, z_ = [a.arg for a in fn.args.args[1:3]]
    dm = {}
    for t, v, st in stores(fn):
        if isinstance(st, ast.Assign):
            dm.setdefault(norm(t), []).append(norm(v).replace(' ', ''))
    run.subject('C12-R2')
    want = {'br': ['-self._dpsi_dz.evaluate(%s,%s)/%s' % (r_, z_, r_)], 'bz': ['self._dpsi_dr.evaluate(%s,%s)/%s' % (r_, z_, r_)],
            'bt': ['self._f_profile.evaluate(psi_n)/%s' % r_, 'self._b_vacuum_magnitude*self._b_vacuum_radius/%s' % r_]}
    ret = [r for r in ast.walk(fn) if isinstance(r, ast.Return)]
    inside = [s for s in fn.body if isinstance(s, ast.If)]
    okb = all(dm.get(k) == v for k, v in want.items()) and ret and norm(ret[-1].value).replace(' ', '') == 'new_vector3d(br,bt,bz)' \
        and inside and norm(inside[0].test) == 'self._inside_lcfs.evaluate(%s, %s)' % (r_, z_) and dm.get('psi_n') == ['self._psi_normalised.evaluate(%s,%s)' % (r_, z_)]
    if okb:
        run.ok('C12-R2', 'magnetic field components', 'b_r = -dpsi/dz / r, b_z = dpsi/dr / r, b_t = f(psi_n)/r inside, B0 R0 / r outside; (b_r, b_t, b_z)')
    else:
        run.fail('C12-R2', M + '|MagneticField|evaluate|components', path, fn.lineno,
                 'MagneticField.evaluate computes %s and returns %s' % ({k: dm.get(k) for k in want}, norm(ret[-1].value) if ret else None))
    run.floor('C12-R2', 15)


MUTANTS = [
    dict(name='array-profile-layout-guessed-from-the-shape', file=FILE,
         find="            profile = np.array(profile, np.float64)\n            profile = Interpolator1DArray(profile[0, :], profile[1, :], 'cubic', 'none', 0)\n\n        # map around equilibrium\n",
         replace="            profile = np.array(profile, np.float64)\n            if profile.ndim == 2 and profile.shape[1] == 2:\n                profile = profile.transpose()\n            profile = Interpolator1DArray(profile[0, :], profile[1, :], 'cubic', 'none', 0)\n\n        # map around equilibrium\n", expect='C12-R2'),
    dict(name='normal-sign-flipped', file=FILE, find="return new_vector3d(-b.z, 0, b.x).normalise()", replace="return new_vector3d(b.z, 0, -b.x).normalise()", expect='C12-R1'),
    dict(name='flux-coord-normal-flipped', file=FILE, find="            normal = new_vector3d(-f.z, 0, f.x)", replace="            normal = new_vector3d(f.z, 0, -f.x)", expect='C12-R1'),
    dict(name='clamp-min-dropped', file=FILE, find="'cubic', 'none', 0, 0), min=0)", replace="'cubic', 'none', 0, 0))", expect='C12-R2'),
    dict(name='blend-arguments-swapped', file=FILE, find="return ScalarBlend2D(value_outside_lcfs, f, self.inside_lcfs)", replace="return ScalarBlend2D(f, value_outside_lcfs, self.inside_lcfs)", expect='C12-R2'),
    dict(name='mask-psi-inverted', file=FILE, find="self._psi_normalised.evaluate(r, z) <= 1.0", replace="self._psi_normalised.evaluate(r, z) >= 1.0", expect='C12-R2'),
    dict(name='br-sign', file=FILE, find="        br = -self._dpsi_dz.evaluate(r, z) / r", replace="        br = self._dpsi_dz.evaluate(r, z) / r", expect='C12-R2'),
    dict(name='poloidal-normal-functions-swapped', file=FILE, find="v = FluxCoordToCartesian(self.b_field, self.psi_normalised, toroidal, poloidal, normal)", replace="v = FluxCoordToCartesian(self.b_field, self.psi_normalised, toroidal, normal, poloidal)", expect='C12-R2'),
    dict(name='poloidal-not-in-plane', file=FILE, find="return new_vector3d(b.x, 0, b.z).normalise()", replace="return new_vector3d(b.x, b.y, b.z).normalise()", expect='C12-R1'),
    dict(name='psi-normalisation-denominator', file=FILE, find="(psi - psi_axis) / (psi_lcfs - psi_axis)", replace="(psi - psi_axis) / psi_lcfs", expect='C12-R2'),
    dict(name='normal-magnitude-from-poloidal', file=FILE, find="normal.set_length(self._normal.evaluate(psi))", replace="normal.set_length(self._poloidal.evaluate(psi))", expect='C12-R1'),
    dict(name='map3d-not-axisymmetric', file=FILE, find="return AxisymmetricMapper(self.map2d(profile, value_outside_lcfs))", replace="return AxisymmetricMapper(self.map2d(profile, 0.0))", expect='C12-R2'),
    dict(name='result-drops-normal', file=FILE, find="return new_vector3d(poloidal.x + normal.x, toroidal.y, poloidal.z + normal.z)", replace="return new_vector3d(poloidal.x + normal.x, toroidal.y, poloidal.z)", expect='C12-R1'),
]
TWINS = [
    dict(name='components-named-first', file=FILE, find="        return new_vector3d(-b.z, 0, b.x).normalise()", replace="        nx = -b.z\n        nz = b.x\n        return new_vector3d(nx, 0, nz).normalise()"),
]
