"""Shared rule: an object that is filled inside a loop and handed on once per iteration must be created in that iteration.

A list / dict / array created once outside the loop (or only under a condition inside it), then written in every iteration and
stored by reference in another container in every iteration, is the same object in every stored entry: all entries show the
data of the last iteration (arrays, dicts) or the accumulated data of all of them (lists)."""
import ast

from ..program import dotted, norm
from ..flow import enclosing_conditions

_CREATORS = ('list', 'dict', 'set', 'RecursiveDict', 'np.empty', 'np.zeros', 'np.ones', 'np.full', 'np.empty_like', 'np.zeros_like',
             'numpy.empty', 'numpy.zeros', 'OrderedDict', 'collections.OrderedDict', 'bytearray')


def _is_creation(v):
    if isinstance(v, (ast.List, ast.Dict, ast.Set)):
        return True
    return isinstance(v, ast.Call) and (dotted(v.func) or '') in _CREATORS


def fresh_per_iteration(run, rule, ci_name, mod, fn, describe=True):
    if describe:
        run.describe(rule, 'objects filled and handed on once per loop iteration are created afresh in that iteration (no buffer shared between stored entries)')
    creations = {}
    for st in ast.walk(fn):
        if isinstance(st, ast.Assign) and len(st.targets) == 1 and isinstance(st.targets[0], ast.Name) and _is_creation(st.value):
            creations.setdefault(st.targets[0].id, []).append(st)
    n = 0
    for lp in [l for l in ast.walk(fn) if isinstance(l, (ast.For, ast.While))]:
        for name, cs in creations.items():
            # locals of the loop that directly hold the object (a record dict / tuple built around it), or -- for arrays -- a view of it
            is_array = all(isinstance(c.value, ast.Call) and (dotted(c.value.func) or '').startswith(('np.', 'numpy.')) for c in cs)
            held = {name}
            views = {name}
            grew_ = True
            while grew_:
                grew_ = False
                for s in ast.walk(lp):
                    if isinstance(s, ast.Assign) and len(s.targets) == 1 and isinstance(s.targets[0], ast.Name) and s.targets[0].id not in held:
                        v = s.value
                        parts = [v] if isinstance(v, ast.Name) else (list(v.values) if isinstance(v, ast.Dict) else (list(v.elts) if isinstance(v, (ast.Tuple, ast.List)) else []))
                        if any(isinstance(h, ast.Name) and h.id in held for h in parts):
                            held.add(s.targets[0].id)
                            if isinstance(v, ast.Name) and v.id in views:
                                views.add(s.targets[0].id)
                            grew_ = True
                        elif is_array and isinstance(v, ast.Subscript) and isinstance(v.value, ast.Name) and v.value.id in views \
                                and (isinstance(v.slice, ast.Slice) or (isinstance(v.slice, ast.Tuple) and any(isinstance(x, ast.Slice) for x in v.slice.elts))):
                            # a slice of a numpy array is a view of the same memory
                            held.add(s.targets[0].id)
                            views.add(s.targets[0].id)
                            grew_ = True
            grows = [c for c in ast.walk(lp) if isinstance(c, ast.Call) and isinstance(c.func, ast.Attribute) and c.func.attr in ('append', 'extend', 'update', 'add', 'fill')
                     and isinstance(c.func.value, ast.Name) and c.func.value.id in views]
            grows += [s for s in ast.walk(lp) if isinstance(s, (ast.Assign, ast.AugAssign)) and any(
                isinstance(t, ast.Subscript) and isinstance(t.value, ast.Name) and t.value.id in views
                for t in (s.targets if isinstance(s, ast.Assign) else [s.target]))]
            escapes = []
            for s in ast.walk(lp):
                # Y.append(<... name ...>)  /  Y[k] = <... name ...>  /  self.f = name   (not into the object itself)
                if isinstance(s, ast.Call) and isinstance(s.func, ast.Attribute) and s.func.attr in ('append', 'extend', 'add', 'insert') \
                        and not (isinstance(s.func.value, ast.Name) and s.func.value.id == name) \
                        and any(isinstance(x, ast.Name) and x.id in held for a in s.args for x in ast.walk(a)):
                    escapes.append(s)
                if isinstance(s, ast.Assign) and isinstance(s.targets[0], (ast.Subscript, ast.Attribute)):
                    base = s.targets[0]
                    while isinstance(base, (ast.Subscript, ast.Attribute)):
                        base = base.value
                    if isinstance(base, ast.Name) and base.id in held:
                        continue
                    holders = [s.value] if isinstance(s.value, ast.Name) else ([v for v in s.value.values] if isinstance(s.value, ast.Dict) else
                                                                               ([e for e in s.value.elts] if isinstance(s.value, (ast.Tuple, ast.List)) else []))
                    if any(isinstance(h, ast.Name) and h.id in held for h in holders):
                        escapes.append(s)
            if not grows or not escapes:
                continue
            n += 1
            run.subject(rule)
            inside = [c for c in cs if any(x is c for x in ast.walk(lp))]
            # created inside the loop, and not under a condition between the loop and the creation
            def conds_within(c):
                out = []
                for e, pol in enclosing_conditions(fn, c):
                    if isinstance(e, ast.AST) and any(x is e for x in ast.walk(lp)) and pol != 'in-loop':
                        out.append(('' if pol else 'not ') + norm(e))
                return out
            # the creation runs whenever the object is handed on: every condition around the creation also surrounds each escape
            esc_conds = [set(conds_within(x)) for x in escapes]
            uncond = [c for c in inside if all(set(conds_within(c)) <= ec for ec in esc_conds)]
            K = '%s|%s|%s|shared-object:%s' % (mod.name, ci_name, fn.name, name)
            if uncond:
                run.ok(rule, '%s.%s %s' % (ci_name, fn.name, name), 'created in every iteration of the loop that stores it')
            elif inside:
                run.fail(rule, K, mod.relpath, inside[0].lineno,
                         "%s.%s writes '%s' and stores it in every iteration of the loop at line %d, but creates a new one only when %s: otherwise all "
                         "stored entries are one object and show the data written last" % (ci_name, fn.name, name, lp.lineno, ' / '.join(conds_within(inside[0]))))
            else:
                run.fail(rule, K, mod.relpath, escapes[0].lineno,
                         "%s.%s writes '%s' and stores it once per iteration of the loop at line %d but creates it only once, outside that loop: every "
                         "stored entry is the same object (it shows the data of all / of the last iteration)" % (ci_name, fn.name, name, lp.lineno))
    return n
