"""Shared rule: a value memoised in a field of the object ("if self.S is None: self.S = f(self.a, self.b)") is discarded by every method
that changes a field it was computed from -- and discarded *before* anything in that method reads it again.

The memo is recognised by its idiom (a None test on a self field whose arm assigns that field); its sources are the self fields the
arm reads (directly or through the methods and properties it calls, resolved on the concrete class).  A mutator is a property setter
or public method over the MRO whose own body assigns a source.  Three outcomes per (memo, mutator): reset on every path before any
reader -> ok; never reset -> violation (stale); reset only after a call that reads the memo, or only under a condition that does not
also guard the write -> violation."""
import ast
import os
import shutil
import tempfile

from ..program import Program, norm
from ..effects import Effects, self_chain
from ..flow import enclosing_conditions
from ..report import AnalysisError


def _is_none_test(t):
    """self.S is None / self.S == None -> 'S'"""
    if isinstance(t, ast.Compare) and len(t.ops) == 1 and isinstance(t.ops[0], (ast.Is, ast.Eq)) and norm(t.comparators[0]) == 'None':
        c = self_chain(t.left)
        if c and '.' not in c:
            return c
    return None


def inline_memos(prog, eff, ci):
    """[(field S, source fields, holder function, If node, defining class)]"""
    out = []
    for c in prog.mro(ci):
        fns = list(c.methods.items()) + list(c.getters.items()) + list(c.setters.items())
        for name, fn in fns:
            if name == '__init__':
                continue
            for st in ast.walk(fn):
                if not isinstance(st, ast.If):
                    continue
                S = _is_none_test(st.test)
                if S is None:
                    continue
                builds = [a for b in st.body for a in ast.walk(b) if isinstance(a, ast.Assign) and any(self_chain(t) == S for t in a.targets)
                          and norm(a.value) != 'None']
                if not builds:
                    continue       # the arm calls a builder: the lazy-builder rules of the property deal with that form
                reads = set()
                for b in st.body:
                    for n in ast.walk(b):
                        if isinstance(n, ast.Attribute) and isinstance(n.ctx, ast.Load):
                            ch = self_chain(n)
                            if ch and ch.split('.')[0] != S:
                                reads.add(ch.split('.')[0])
                        if isinstance(n, ast.Call) and self_chain(n.func):
                            m = eff.resolve(ci, self_chain(n.func))
                            if m is not None:
                                reads |= {r.split('.')[0] for r in eff.closure(ci, m).reads}
                # properties read in the arm stand for the fields their getters read
                for r in list(reads):
                    gc, g = prog.find_getter(ci, r)
                    if g is not None:
                        reads |= {x.split('.')[0] for x in eff.closure(ci, g).reads}
                reads.discard(S)
                out.append((S, reads, fn, st, c))
    return out


def _conds(fn, node):
    return {('' if pol else 'not ') + norm(e) for e, pol in enclosing_conditions(fn, node) if isinstance(e, ast.AST) and pol != 'in-loop'}


def check_inline_memos(run, rule, prog, eff, classes, describe=True):
    if describe:
        run.describe(rule, 'a value memoised in a field (if self.S is None: self.S = ...) is reset by every mutator of a field it was computed '
                           'from, on every path and before anything reads it again')
    n = 0
    for ci in classes:
        for S, src, holder, ifnode, dc in inline_memos(prog, eff, ci):
            for kind, name, fn, c in eff.public_mutators(ci):
                if fn is holder:
                    continue
                own = eff.summary(fn)
                hit = sorted(f for f in own.writes if f.split('.')[0] in src)
                if not hit:
                    continue
                n += 1
                run.subject(rule)
                K = '%s|%s|%s:%s|memo:%s' % (ci.mod.name, ci.name, kind, name, S)
                what = '%s.%s / %s' % (ci.name, name, S)
                wstmts = [st for f in hit for st in own.writes[f]]
                first_w = min(st.lineno for st in wstmts)
                clo = eff.closure(ci, fn)
                resets = [st for st in clo.writes.get(S, []) if isinstance(st, ast.Assign) and norm(st.value) == 'None']
                own_resets = [st for st in resets if any(x is st for x in ast.walk(fn))]
                # a call in fn that resets S inside the callee counts at the line of the call
                call_resets = []
                for cname, nodes in own.selfcalls.items():
                    m = eff.resolve(ci, cname)
                    if m is not None and any(isinstance(st, ast.Assign) and norm(st.value) == 'None' for st in eff.closure(ci, m).writes.get(S, [])):
                        call_resets.extend(nodes)
                if not own_resets and not call_resets:
                    run.fail(rule, K + '|stale', c.mod.relpath, fn.lineno,
                             "%s.%s assigns %s, from which %s.%s computes the memoised '%s', but never resets it: the value computed from the old "
                             "parameters keeps being used" % (ci.name, name, hit, dc.name, holder.name, S))
                    continue
                # every path that writes the source also resets: conditions around a reset are among those around the write
                wconds = [_conds(fn, st) for st in wstmts]
                good = [r for r in own_resets + call_resets if all(_conds(fn, r) <= wc for wc in wconds)]
                if not good:
                    run.fail(rule, K + '|conditional-reset', c.mod.relpath, (own_resets + call_resets)[0].lineno,
                             "%s.%s assigns %s but resets the memoised '%s' only under a condition that does not guard the assignment"
                             % (ci.name, name, hit, S))
                    continue
                reset_line = min(r.lineno for r in good)
                # nothing between the write and the reset reads the memo
                early = None
                for cname, nodes in own.selfcalls.items():
                    m = eff.resolve(ci, cname) if not cname.startswith('@') else None
                    for node in nodes:
                        if first_w <= node.lineno < reset_line and m is not None and S in {r.split('.')[0] for r in eff.closure(ci, m).reads}:
                            early = early or (node, cname)
                for r in own.reads:
                    pass
                if early:
                    run.fail(rule, K + '|read-before-reset', c.mod.relpath, early[0].lineno,
                             "%s.%s assigns %s and then calls %s(), which reads the memoised '%s', before resetting it at line %d: what is rebuilt "
                             "there is computed from the old parameters" % (ci.name, name, hit, early[1], S, reset_line))
                else:
                    run.ok(rule, what, 'reset at line %d after writing %s, nothing reads it in between' % (reset_line, hit), sample=False)
    return n


def _param_fields(prog, eff, ci, init, binding, depth=0):
    """{constructor parameter of the outermost __init__ -> fields of self it is stored in (directly, through a property setter, or by a
    base-class constructor it is passed on to)}.  `binding`: local name in `init` -> outermost parameter."""
    out = {}
    if init is None or depth > 4:
        return out

    def params_in(e):
        return {binding[n.id] for n in ast.walk(e) if isinstance(n, ast.Name) and n.id in binding}
    for st in ast.walk(init):
        if isinstance(st, ast.Assign):
            for t in st.targets:
                ch = self_chain(t)
                if ch and '.' not in ch:
                    ps = params_in(st.value)
                    if not ps:
                        continue
                    sc, setter = prog.find_setter(ci, ch)
                    fields = {ch}
                    if setter is not None:
                        fields = {f.split('.')[0] for f in eff.closure(ci, setter).writes} or {ch}
                    for p in ps:
                        out.setdefault(p, set()).update(fields)
        elif isinstance(st, ast.Call) and norm(st.func).endswith('.__init__'):
            owner = None
            args = list(st.args)
            if norm(st.func) == 'super().__init__':
                mro = prog.mro(init.owner) if hasattr(init, 'owner') else []
                owner = next((c for c in mro[1:] if '__init__' in c.methods), None)
            else:
                cname = norm(st.func)[:-9]
                owner = next((c for c in prog.mro(ci) if c.name == cname and '__init__' in c.methods), None)
                args = args[1:]
            if owner is None:
                continue
            binit = owner.methods['__init__']
            bparams = [a.arg for a in binit.args.args[1:]]
            b2 = {}
            for bp, a in zip(bparams, args):
                ps = params_in(a)
                if len(ps) == 1:
                    b2[bp] = next(iter(ps))
            for k in st.keywords:
                if k.arg in bparams:
                    ps = params_in(k.value)
                    if len(ps) == 1:
                        b2[k.arg] = next(iter(ps))
            for p, fs in _param_fields(prog, eff, ci, binit, b2, depth + 1).items():
                out.setdefault(p, set()).update(fs)
    return out


def check_ctor_derived(run, rule, prog, eff, classes, describe=False):
    """A field computed once in the constructor from constructor arguments (and written nowhere else) must not depend on an argument that
    a public setter can change afterwards: the derived value would keep describing the object as it was constructed."""
    if describe:
        run.describe(rule, 'a field derived in the constructor from a settable parameter is recomputed by that setter')
    n = 0
    for ci in classes:
        init = ci.methods.get('__init__')
        if init is None:
            continue
        params = [a.arg for a in init.args.args[1:]]
        binding = {p: p for p in params}
        derived = {}
        for st in ast.walk(init):
            if isinstance(st, ast.Assign) and len(st.targets) == 1:
                ch = self_chain(st.targets[0])
                if ch and '.' not in ch and not isinstance(st.value, ast.Name):
                    ps = {x.id for x in ast.walk(st.value) if isinstance(x, ast.Name) and x.id in binding}
                    # a cast of one argument is plain storage, not derivation
                    plain = isinstance(st.value, ast.Call) and len(st.value.args) == 1 and isinstance(st.value.args[0], ast.Name)
                    if ps and not plain:
                        derived[ch] = (ps, st)
        if not derived:
            continue
        others = [(nm, f, c) for c in prog.mro(ci) for nm, f in list(c.methods.items()) + list(c.setters.items()) + list(c.getters.items())
                  if nm not in ('__init__', '__cinit__')]
        pf = _param_fields(prog, eff, ci, init, binding)
        for D, (ps, st) in sorted(derived.items()):
            if prog.find_setter(ci, D)[1] is not None:
                continue
            written = any(D in {w.split('.')[0] for w in eff.summary(f).writes} for nm, f, c in others)
            read = any(D in {r.split('.')[0] for r in eff.summary(f).reads} for nm, f, c in others)
            if written or not read:
                continue
            for kind, name, fn, c in eff.public_mutators(ci):
                clo = eff.closure(ci, fn)
                wr = {w.split('.')[0] for w in clo.writes}
                hit = sorted(p for p in ps if pf.get(p, set()) & wr)
                if not hit:
                    continue
                n += 1
                run.subject(rule)
                if D in wr:
                    run.ok(rule, '%s.%s recomputes %s' % (ci.name, name, D), 'constructor-derived from %s' % sorted(ps), sample=False)
                else:
                    run.fail(rule, '%s|%s|%s:%s|ctor-derived:%s' % (ci.mod.name, ci.name, kind, name, D), c.mod.relpath, fn.lineno,
                             "%s.%s changes %s, but '%s' was computed once in %s.__init__ from the constructor argument(s) %s and is never "
                             "recomputed: what reads it keeps describing the object as constructed"
                             % (ci.name, name, sorted(f for p in hit for f in pf[p] & wr), D, ci.name, hit))
    return n


def check_shared_defaults(run, rule, prog, eff, classes):
    """An object created once -- at module level, or as the default value of a constructor parameter -- and stored in a field of every
    instance that is not given its own, is one object shared by all of them.  That is harmless for an immutable value; it is a defect when
    the class *writes attributes of the object held in that field* (binds it to itself): the last instance created re-points the shared
    object, and the earlier instances compute with the newest one's state."""
    n = 0
    for ci in classes:
        init = ci.methods.get('__init__')
        if init is None:
            continue
        mi = ci.mod
        shared = {}
        for st in mi.tree.body:
            tg = st.targets if isinstance(st, ast.Assign) else ([st.target] if isinstance(st, ast.AnnAssign) and st.value is not None else [])
            if tg and isinstance(st.value, ast.Call) and isinstance(st.value.func, ast.Name) and st.value.func.id[:1].isupper():
                for t in tg:
                    if isinstance(t, ast.Name):
                        shared[t.id] = ('module-level %s = %s' % (t.id, norm(st.value)[:40]), st)
        args = init.args.args
        for a_, d in zip(args[len(args) - len(init.args.defaults):], init.args.defaults):
            if isinstance(d, ast.Call) and isinstance(d.func, ast.Name) and d.func.id[:1].isupper():
                shared[a_.arg] = ('default value %s=%s evaluated once' % (a_.arg, norm(d)[:40]), d)
        if not shared:
            continue
        for st in ast.walk(init):
            if not isinstance(st, ast.Assign):
                continue
            for t in st.targets:
                ch = self_chain(t)
                if not ch or '.' in ch:
                    continue
                used = [x.id for x in ast.walk(st.value) if isinstance(x, ast.Name) and x.id in shared]
                if not used:
                    continue
                # the field(s) the value ends up in, and attribute stores on the object held there
                sc, setter = prog.find_setter(ci, ch)
                fields = {ch} | ({f for f in eff.closure(ci, setter).writes if '.' not in f} if setter is not None else set())
                sub = {}
                for nm, f in list(ci.methods.items()) + list(ci.setters.items()):
                    for k, nodes in eff.summary(f).subwrites.items():
                        if k.split('.')[0] in fields:
                            sub.setdefault(k, []).extend(nodes)
                n += 1
                run.subject(rule)
                if sub:
                    k0 = sorted(sub)[0]
                    run.fail(rule, '%s|%s|__init__|shared-default:%s' % (mi.name, ci.name, ch), mi.relpath, st.lineno,
                             "%s.__init__ stores the %s in self.%s of every instance that is not given its own, and the class then assigns to "
                             "self.%s (line %d): one object is shared by all instances and re-bound by the last one created, so the earlier instances "
                             "compute with the newest one's state" % (ci.name, shared[used[0]][0], ch, k0, sub[k0][0].lineno))
                else:
                    run.ok(rule, '%s.%s default' % (ci.name, ch), 'shared default object is never written through the field', sample=False)
    return n


_EXAMPLE = '''
class Instrument:
    def __init__(self, angle):
        self._angle = angle
        self._factors = None
        self._table = None
        self._rebuild()

    def factor(self):
        if self._factors is None:
            self._factors = (self._angle * 2, self._angle * 3)
        return self._factors

    def _rebuild(self):
        self._table = self.factor()[0]

    @property
    def angle(self):
        return self._angle

    @angle.setter
    def angle(self, value):
        self._angle = value
        self._rebuild()
        self._factors = None

    def set_angle_properly(self, value):
        self._angle = value
        self._factors = None
        self._rebuild()

    def set_angle_and_forget(self, value):
        self._angle = value


class Base:
    def __init__(self, lo, hi):
        self.lo = lo
        self._hi = hi

    @property
    def lo(self):
        return self._lo

    @lo.setter
    def lo(self, value):
        self._lo = value

    def evaluate(self, x):
        return 0


class Tool:
    def __init__(self):
        self.function = None


SHARED_TOOL = Tool()


class Model:
    def __init__(self, tool=None):
        self._f = object()
        self.tool = tool or SHARED_TOOL

    @property
    def tool(self):
        return self._tool

    @tool.setter
    def tool(self, value):
        self._tool = value
        self._tool.function = self._f


def make_base(lo, hi):
    return Base(hi, lo)


class Flat(Base):
    def __init__(self, lo, hi):
        self._density = 1.0 / (hi - lo)
        super().__init__(lo, hi)

    def evaluate(self, x):
        return self._density
'''


class _Probe:
    def __init__(self):
        self.fails, self.oks = [], []

    def describe(self, *a, **k):
        pass

    def subject(self, *a, **k):
        pass

    def fail(self, rule, key, *a, **k):
        self.fails.append(key)

    def ok(self, rule, what, *a, **k):
        self.oks.append(what)

    def undecided(self, *a, **k):
        pass


def selfcheck():
    """The rule has no instance on a tree without inline memos, so it is exercised on a built-in example on every run: the late reset
    and the missing reset must be reported, the correct mutator must not."""
    d = tempfile.mkdtemp(prefix='sa_memo_')
    try:
        os.makedirs(os.path.join(d, 'ex'))
        with open(os.path.join(d, 'ex', 'inst.py'), 'w') as fh:
            fh.write(_EXAMPLE)
        prog = Program(root=d)
        prog.load('ex/inst.py')
        prog.link()
        eff = Effects(prog)
        p = _Probe()
        check_inline_memos(p, 'X', prog, eff, [prog.cls('ex.inst.Instrument')], describe=False)
        kinds = sorted(k.rsplit('|', 1)[-1] + ':' + k.split('|')[2] for k in p.fails)
        if kinds != ['read-before-reset:setter:angle', 'stale:method:set_angle_and_forget'] or len(p.oks) != 1:
            raise AnalysisError('inline-memo rule self-check failed: %s / %s' % (kinds, p.oks))
        q = _Probe()
        check_ctor_derived(q, 'X', prog, eff, [prog.cls('ex.inst.Flat'), prog.cls('ex.inst.Base'), prog.cls('ex.inst.Instrument')])
        if [k.split('|')[2] + '|' + k.rsplit('|', 1)[-1] for k in q.fails] != ['setter:lo|ctor-derived:_density']:
            raise AnalysisError('constructor-derived rule self-check failed: %s' % q.fails)
        q = _Probe()
        check_shared_defaults(q, 'X', prog, eff, [prog.cls('ex.inst.Model'), prog.cls('ex.inst.Flat')])
        if [k.rsplit('|', 1)[-1] for k in q.fails] != ['shared-default:tool']:
            raise AnalysisError('shared-default rule self-check failed: %s' % q.fails)
        from ._purity import swapped_arguments
        sw = [(c_, a_, p_) for call_, c_, a_, p_ in swapped_arguments(prog, prog.modules['ex.inst'])]
        if sorted(sw) != [('Base', 'hi', 'lo'), ('Base', 'lo', 'hi')]:
            raise AnalysisError('swapped-argument rule self-check failed: %s' % sw)
    finally:
        shutil.rmtree(d, ignore_errors=True)
